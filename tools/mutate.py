#!/venv/bin/python
"""Systematic mutation sweep: how many test-surviving one-token mutants of the anchored code do the checks notice?

usage: tools/mutate.py <PROP> [--limit N] [--jobs J] [--seed S] [--out FILE]

For the property's anchored source files (TARGETS below) every one-token mutant of the kinds
  cmp   < ↔ <=, > ↔ >=, == ↔ !=, is ↔ is not, in ↔ not in
  bool  and ↔ or, `not x` → `x`
  arith + ↔ -, * ↔ //  (ints only contexts are not distinguished)
  const small int literal n → n + 1, True ↔ False
is generated with `ast` (one node changed per mutant, the rest of the file re-emitted by ast.unparse of the WHOLE file,
so formatting changes but nothing else).  Each mutant is written into a private copy of src/ (never into /repo), then
  1. the unedited test suite runs against it (PYTHONPATH=<copy>); a failing suite = "killed by tests" (not our business);
  2. otherwise `./check <PROP> --tier quick --no-build` runs against it with evidence/replays redirected; exit 1 =
     "killed by the check", exit 0 = "survived" (equivalent mutant, outside the property, or a blind spot).
Survivors are listed with their source line for inspection.  Nothing here is a proof; it measures the harness.
"""
from __future__ import annotations

import ast
import json
import os
import random
import shutil
import subprocess
import sys
import tempfile
from concurrent.futures import ThreadPoolExecutor
from pathlib import Path

VERIF = Path(__file__).resolve().parent.parent
SRC = Path("/repo/src")
PY = "/venv/bin/python"

TARGETS = {
    "C03": [("rtflite/pagination/core.py", ["calculate_row_metadata", "_calculate_header_rows", "_assign_pages"]), ("rtflite/services/document_service.py", ["calculate_additional_rows_per_page"])],
    # calculate_content_rows / find_page_breaks / calculate_available_space are not called by the encoder (legacy API)
    "C04": [("rtflite/pagination/core.py", ["calculate_row_metadata", "_calculate_header_rows", "_assign_pages"])],
    "C05": [("rtflite/pagination/strategies/grouping.py", None), ("rtflite/encoding/renderer.py", ["_render_body", "render", "_format_group_header"])],
    "C06": [("rtflite/encoding/renderer.py", ["render", "_should_show", "_render_column_headers"]),
            ("rtflite/pagination/processor.py", ["_should_show_element"])],
    "C07": [("rtflite/pagination/processor.py", None)],
    "C08": [("rtflite/row.py", ["_col_widths", "_inch_to_twip"]), ("rtflite/services/encoding_service.py", ["prepare_dataframe_for_body_encoding", "encode_footnote", "encode_source", "encode_spanning_row"])],
    "C09": [("rtflite/attributes.py", ["_encode", "iloc", "to_list", "update_cell", "update_row"]),
            ("rtflite/services/encoding_service.py", ["prepare_dataframe_for_body_encoding"])],
    "C10": [("rtflite/row.py", ["_escape_non_ascii", "_convert_special_chars"])],
    "C12": [("rtflite/services/color_service.py", None)],
    "C13": [("rtflite/services/grouping_service.py", None)],
    "C16": [("rtflite/services/figure_service.py", None), ("rtflite/figure.py", None)],
    "C17": [("rtflite/assemble.py", ["assemble_rtf"])],
    "C19": [("rtflite/input.py", None)],
    "C20": [("rtflite/strwidth.py", None)],
}

CMP = {ast.Lt: ast.LtE, ast.LtE: ast.Lt, ast.Gt: ast.GtE, ast.GtE: ast.Gt, ast.Eq: ast.NotEq, ast.NotEq: ast.Eq,
       ast.Is: ast.IsNot, ast.IsNot: ast.Is, ast.In: ast.NotIn, ast.NotIn: ast.In}
ARITH = {ast.Add: ast.Sub, ast.Sub: ast.Add, ast.Mult: ast.FloorDiv, ast.FloorDiv: ast.Mult}


def sites(tree, funcs):
    """(node, kind, index) of every mutable site inside the selected functions (all functions if funcs is None)"""
    out = []
    for fn in ast.walk(tree):
        if not isinstance(fn, (ast.FunctionDef, ast.AsyncFunctionDef)):
            continue
        if funcs is not None and fn.name not in funcs:
            continue
        for n in ast.walk(fn):
            if isinstance(n, ast.Expr) and isinstance(n.value, ast.Constant) and isinstance(n.value.value, str):
                continue
            if isinstance(n, ast.Compare):
                for i, op in enumerate(n.ops):
                    if type(op) in CMP:
                        out.append((n, "cmp", i))
            elif isinstance(n, ast.BoolOp):
                out.append((n, "bool", 0))
            elif isinstance(n, ast.UnaryOp) and isinstance(n.op, ast.Not):
                out.append((n, "not", 0))
            elif isinstance(n, ast.BinOp) and type(n.op) in ARITH:
                out.append((n, "arith", 0))
            elif isinstance(n, ast.Constant) and not isinstance(n.value, str):
                if isinstance(n.value, bool) or (isinstance(n.value, int) and -2 <= n.value <= 10):
                    out.append((n, "const", 0))
    # the same node may be reached through nested functions twice
    seen, uniq = set(), []
    for n, k, i in out:
        key = (id(n), k, i)
        if key not in seen:
            seen.add(key)
            uniq.append((n, k, i))
    return uniq


def apply(node, kind, i):
    """mutate in place; returns an undo closure and a description"""
    if kind == "cmp":
        old = node.ops[i]
        node.ops[i] = CMP[type(old)]()
        return (lambda: node.ops.__setitem__(i, old)), f"{type(old).__name__}->{type(node.ops[i]).__name__}"
    if kind == "bool":
        old = node.op
        node.op = ast.Or() if isinstance(old, ast.And) else ast.And()
        return (lambda: setattr(node, "op", old)), f"{type(old).__name__}->{type(node.op).__name__}"
    if kind == "not":
        # replace `not x` by `not (not x)`, i.e. the truth value of x
        inner = node.operand
        node.operand = ast.UnaryOp(op=ast.Not(), operand=inner)
        return (lambda: setattr(node, "operand", inner)), "not x->x"
    if kind == "arith":
        old = node.op
        node.op = ARITH[type(old)]()
        return (lambda: setattr(node, "op", old)), f"{type(old).__name__}->{type(node.op).__name__}"
    if kind == "const":
        old = node.value
        node.value = (not old) if isinstance(old, bool) else old + 1
        return (lambda: setattr(node, "value", old)), f"{old!r}->{node.value!r}"
    raise ValueError(kind)


def run(cmd, env, cwd, timeout):
    try:
        p = subprocess.run(cmd, env=env, cwd=cwd, capture_output=True, text=True, timeout=timeout)
        return p.returncode, p.stdout + p.stderr
    except subprocess.TimeoutExpired:
        return 124, "timeout"


def evaluate(args):
    prop, relfile, text, desc, line, k = args
    wd = Path(tempfile.mkdtemp(prefix=f"mut_{prop}_"))
    try:
        shutil.copytree(SRC, wd / "src", ignore=shutil.ignore_patterns("__pycache__", "*.egg-info"))
        (wd / "src" / relfile).write_text(text)
        env = dict(os.environ, PYTHONPATH=str(wd / "src"), VERIF_EVIDENCE_DIR=str(wd / "ev"),
                   VERIF_REPLAYS_DIR=str(wd / "rp"), PYTHONDONTWRITEBYTECODE="1")
        rc, out = run([PY, "-m", "pytest", "-q", "-x", "-p", "no:cacheprovider", "/repo/tests"], env, "/repo", 600)
        if rc != 0:
            return dict(k=k, file=relfile, line=line, desc=desc, verdict="killed-by-tests")
        rc, out = run([str(VERIF / "check"), prop, "--tier", "quick", "--no-build"], env, str(VERIF), 1200)
        vio = [l for l in out.splitlines() if l.startswith("VIOLATION")]
        verdict = "killed" if rc == 1 else "survived" if rc == 0 else f"machinery({rc})"
        return dict(k=k, file=relfile, line=line, desc=desc, verdict=verdict, violation=(vio[0][:160] if vio else ""),
                    tail=(out[-300:] if rc not in (0, 1) else ""))
    finally:
        shutil.rmtree(wd, ignore_errors=True)


def main():
    a = sys.argv[1:]
    prop = a[0]
    limit = int(a[a.index("--limit") + 1]) if "--limit" in a else 60
    jobs = int(a[a.index("--jobs") + 1]) if "--jobs" in a else 4
    seed = int(a[a.index("--seed") + 1]) if "--seed" in a else 0
    out_file = a[a.index("--out") + 1] if "--out" in a else None
    tasks = []
    for relfile, funcs in TARGETS[prop]:
        src = (SRC / relfile).read_text()
        tree = ast.parse(src)
        for node, kind, i in sites(tree, funcs):
            undo, desc = apply(node, kind, i)
            try:
                text = ast.unparse(tree)
            finally:
                undo()
            line = getattr(node, "lineno", 0)
            tasks.append((prop, relfile, text, f"{kind}:{desc}", line))
    random.Random(seed).shuffle(tasks)
    tasks = [t + (k,) for k, t in enumerate(tasks[:limit])]
    print(f"{prop}: {len(tasks)} mutants (of the sites found) with {jobs} jobs", flush=True)
    with ThreadPoolExecutor(jobs) as ex:
        results = list(ex.map(evaluate, tasks))
    tally = {}
    for r in results:
        tally[r["verdict"]] = tally.get(r["verdict"], 0) + 1
    print(json.dumps(tally))
    for r in results:
        if r["verdict"] not in ("killed", "killed-by-tests"):
            src_line = (SRC / r["file"]).read_text().splitlines()[r["line"] - 1].strip() if r["line"] else ""
            print(f"  {r['verdict']:10s} {r['file']}:{r['line']} {r['desc']:28s} | {src_line[:110]} {r.get('tail', '')[-120:]}")
    if out_file:
        Path(out_file).write_text(json.dumps(dict(property=prop, tally=tally, results=results), indent=1))
    return 0


if __name__ == "__main__":
    sys.exit(main())
