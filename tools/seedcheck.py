#!/venv/bin/python
"""Validate a seeded change and run checks against it.

usage: tools/seedcheck.py <out_dir> <PROP> [--checks C04,C03] [--keep] [--in-repo]

<out_dir> holds patch.diff, demo.py (or demo_test.py) and meta.json written by a seeding agent.
Steps (everything in a scratch worktree outside /repo and /verif, removed afterwards):
  1. fresh worktree of /repo HEAD; demo must PASS there
  2. apply patch.diff; the full test suite must still pass (423 passed); demo must FAIL
  3. run `./check <PROP> --tier quick` (and the extra checks) against the changed source
     (PYTHONPATH=<worktree>/src, or with --in-repo: git apply in /repo, run, git checkout -- .)
  4. copy patch/demo/meta into /verif/seeded/<PROP>[-k]/ with the results added to meta.json
"""
from __future__ import annotations

import json
import os
import shutil
import subprocess
import sys
from pathlib import Path

VERIF = Path(__file__).resolve().parent.parent
PY = "/venv/bin/python"


def sh(cmd, cwd=None, env=None, timeout=3600):
    p = subprocess.run(cmd, cwd=cwd, env=env, capture_output=True, text=True, timeout=timeout)
    return p.returncode, (p.stdout + p.stderr)


def main():
    args = sys.argv[1:]
    out = Path(args[0])
    prop = args[1]
    checks = [prop]
    in_repo = "--in-repo" in args
    if "--checks" in args:
        checks = args[args.index("--checks") + 1].split(",")
    wt = Path(f"/tmp/seedcheck_{prop}_{os.getpid()}")
    sh(["git", "-C", "/repo", "worktree", "add", "-q", "--detach", str(wt), "HEAD"])
    scratch = Path(f"/tmp/seedcheck_out_{prop}_{os.getpid()}")
    (scratch / "replays").mkdir(parents=True, exist_ok=True)
    env = dict(os.environ, PYTHONPATH=str(wt / "src"), VERIF_EVIDENCE_DIR=str(scratch / "evidence"),
               VERIF_REPLAYS_DIR=str(scratch / "replays"))
    result = dict(property=prop, repo_head=sh(["git", "-C", "/repo", "rev-parse", "--short", "HEAD"])[1].strip())
    try:
        demo = out / "demo.py"
        is_pytest = False
        if not demo.exists():
            demo = out / "demo_test.py"
            is_pytest = True
        democmd = [PY, "-m", "pytest", "-q", "-p", "no:cacheprovider", str(demo)] if is_pytest else [PY, str(demo)]
        rc0, o0 = sh(democmd, cwd=wt, env=env)
        result["demo_without_change"] = dict(exit=rc0, tail=o0[-400:])
        rc, o = sh(["git", "-C", str(wt), "apply", str(out / "patch.diff")])
        if rc != 0:
            result["apply"] = o[-400:]
            print(json.dumps(result, indent=1))
            return 2
        rct, ot = sh([PY, "-m", "pytest", "-q", "-p", "no:cacheprovider"], cwd=wt, env=env)
        result["tests"] = ot.strip().splitlines()[-1] if ot.strip() else ""
        rc1, o1 = sh(democmd, cwd=wt, env=env)
        result["demo_with_change"] = dict(exit=rc1, tail=o1[-400:])
        result["valid_seed"] = (rc0 == 0 and rc1 != 0 and "423 passed" in result["tests"] and "failed" not in result["tests"])
        result["checks"] = {}
        for c in checks:
            if in_repo:
                sh(["git", "-C", "/repo", "apply", str(out / "patch.diff")])
                rcc, oc = sh([str(VERIF / "check"), c, "--tier", "quick"], cwd=VERIF)
                sh(["git", "-C", "/repo", "checkout", "--", "."])
            else:
                rcc, oc = sh([str(VERIF / "check"), c, "--tier", "quick"], cwd=VERIF, env=env)
            lines = [l for l in oc.splitlines() if l.startswith(("VIOLATION", "KNOWN-FINDING"))]
            result["checks"][c] = dict(exit=rcc, lines=lines[:4])
            # keep the replay the check wrote, next to the seed
            for l in lines:
                if l.startswith("VIOLATION") and "replay=" in l:
                    rp = Path(l.split("replay=")[1].split()[0])
                    rp = rp if rp.is_absolute() else VERIF / rp
                    if rp.exists():
                        result["checks"][c]["replay_excerpt"] = rp.read_text()[:1500]
        result["caught_by"] = [c for c, r in result["checks"].items() if r["exit"] == 1]
    finally:
        sh(["git", "-C", "/repo", "worktree", "remove", "--force", str(wt)])
        shutil.rmtree(wt, ignore_errors=True)
        shutil.rmtree(scratch, ignore_errors=True)
    dest = VERIF / "seeded" / (args[args.index("--dest") + 1] if "--dest" in args else prop)
    k = 1
    while dest.exists() and "--overwrite" not in args and "--dest" not in args:
        k += 1
        dest = VERIF / "seeded" / f"{prop}-{k}"
    dest.mkdir(parents=True, exist_ok=True)
    for f in ("patch.diff", "demo.py", "demo_test.py"):
        if (out / f).exists():
            shutil.copy(out / f, dest / f)
    meta = {}
    if (out / "meta.json").exists():
        try:
            meta = json.loads((out / "meta.json").read_text())
        except Exception:  # noqa: BLE001
            meta = dict(raw=(out / "meta.json").read_text()[:2000])
    meta["verification"] = result
    (dest / "meta.json").write_text(json.dumps(meta, indent=1, ensure_ascii=False))
    print(json.dumps(result, indent=1)[:3000])
    print("stored in", dest)
    return 0


if __name__ == "__main__":
    sys.exit(main())
