#!/bin/bash
# tools/harmless.sh <worktree-with-a-behaviour-preserving-change> [props] — every check must stay quiet (exit 0)
cd "$(dirname "$0")/.."
wt=$1; props=${2:-"C01 C02 C03 C04 C05 C06 C07 C08 C09 C10 C11 C12 C13 C14 C15 C16 C17 C18 C19 C20"}
scratch=$(mktemp -d /tmp/harmless_run_XXXX)
for p in $props; do
  out=$(PYTHONPATH=$wt/src VERIF_EVIDENCE_DIR=$scratch/evidence VERIF_REPLAYS_DIR=$scratch/replays ./check $p --tier quick 2>/dev/null)
  rc=$?
  tie=$(python3 -c "import json,sys; j=json.load(open('$scratch/evidence/$p.json')); print(j['coverage'].get('translator_tie') or '')" 2>/dev/null)
  echo "$p exit=$rc $(echo "$out" | grep -c '^VIOLATION') violations $(echo "$out" | grep '^VIOLATION' | head -2 | cut -c1-160) ${tie:0:200}"
  if [ $rc -ne 0 ]; then for f in $scratch/replays/$p-*.json; do head -c 1500 $f; echo; done; fi
done
rm -rf $scratch
# restore the generated files for /repo
/venv/bin/python -m harness.translate >/dev/null 2>&1
