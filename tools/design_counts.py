#!/venv/bin/python
"""Refresh the numbers of the status table in DESIGN.md section 0 (theorem counts from lean/Props, quick-tier case
counts from evidence/) and the summary line below it.  usage: tools/design_counts.py"""
import glob, json, re
from pathlib import Path

V = Path(__file__).resolve().parent.parent
t = (V / "DESIGN.md").read_text()
total = 0
for i in range(1, 21):
    pid = f"C{i:02d}"
    n = sum(len(re.findall(r"^theorem ", Path(f).read_text(), re.M)) for f in glob.glob(str(V / f"lean/Props/{pid}*.lean")))
    total += n
    ev = V / "evidence" / f"{pid}.json"
    cases = json.loads(ev.read_text())["coverage"].get("evaluations") if ev.exists() else None
    m = re.search(rf"^\| {pid} \|(.*)$", t, re.M)
    if not m:
        continue
    cells = m.group(1).split("|")
    cells[1] = f" {n} "
    if cases is not None:
        cells[3] = f" {cases} "
    t = t[:m.start()] + f"| {pid} |" + "|".join(cells) + t[m.end():]
lines = sum(len(Path(f).read_text().splitlines()) for f in glob.glob(str(V / "lean/Props/*.lean")))
model = sum(len(Path(f).read_text().splitlines()) for f in glob.glob(str(V / "lean/Model/*.lean")))
proofs = sum(len(Path(f).read_text().splitlines()) for f in glob.glob(str(V / "lean/Proofs/*.lean")))
t = re.sub(r"\(\d+ theorems in `lean/Props/` \(≈ [\d ]+ lines\), ≈ [\d ]+ lines of model, ≈ [\d ]+ lines of helper proofs;",
           f"({total} theorems in `lean/Props/` (≈ {lines:,} lines), ≈ {model:,} lines of model, ≈ {proofs:,} lines of helper proofs;".replace(",", " "), t)
(V / "DESIGN.md").write_text(t)
print(total, "theorems;", lines, model, proofs)
