import json,re,sys
first={'13':dict(C01=0,C02=1,C03=0,C04=1,C05=1,C06=1,C07=1,C08=1,C09=0,C10=1,C11=1,C12=1,C13=0,C16=0,C17=1,C18=1,C19=1,C20=1),
       '12':dict(C01=0,C02=0,C03=1,C04=0,C05=1,C06=0,C07=1,C08=1,C09=0,C10=1,C11=1,C12=1,C13=1,C14=0,C15=0,C16=1,C17=1,C18=1,C19=0,C20=1),
       '11':dict(C01=1,C02=0,C03=1,C04=0,C05=0,C06=1,C07=1,C08=0,C09=1,C10=1,C11=1,C12=1,C13=1,C14=0,C15=0,C16=1,C17=1,C18=0,C19=1,C20=1),
       '10':dict(C01=1,C02=1,C03=1,C04=1,C05=1,C06=1,C07=1,C08=1,C09=1,C10=1,C11=1,C12=0,C13=1,C14=0,C15=0,C16=1,C17=1,C18=1,C19=1,C20=1),
       '6':dict(C01=1,C02=0,C03=0,C04=1,C05=1,C06=1,C07=0,C08=1,C09=1,C10=1,C11=1,C12=0,C13=1,C14=1,C15=1,C16=1,C17=1,C18=0,C19=0,C20=1),
       '9':dict(C01=0,C02=0,C03=1,C04=1,C05=1,C06=0,C07=1,C08=1,C09=1,C10=1,C11=0,C12=1,C13=1,C14=1,C15=1,C16=0,C17=1,C18=0,C19=0,C20=0),
       '8':dict(C01=0,C02=1,C03=0,C04=1,C05=0,C06=1,C07=1,C08=1,C09=0,C10=0,C11=1,C12=1,C13=0,C14=0,C15=0,C16=0,C17=0,C18=1,C19=1,C20=1),
       '7':dict(C01=1,C02=0,C03=1,C04=0,C05=1,C06=1,C07=1,C08=0,C09=0,C10=1,C11=0,C12=1,C13=1,C14=0,C15=1,C16=0,C17=1,C18=1,C19=0,C20=1)}
hard=json.load(open('/tmp/work/hard.json'))
def short(s,n):
    s=re.sub(r'\s+',' ',s or '').replace('|','\\|')
    s=re.sub(r'\(src/rtflite/[^)]*\)','',s)
    return s if len(s)<=n else s[:n-1].rsplit(' ',1)[0]+' …'
for rd in sys.argv[1:]:
    print("| seed | change (short) | trigger | first run | hardening |\n|---|---|---|---|---|")
    for i in range(1,21):
        c=f"C{i:02d}"
        import os
        if not os.path.exists(f'/verif/seeded/{c}-{rd}/meta.json'): continue
        m=json.load(open(f'/verif/seeded/{c}-{rd}/meta.json'))
        print(f"| {c}-{rd} | {short(m.get('summary'),150)} | {short(m.get('needs'),140)} | {'caught' if first[rd][c] else ('**missed**' if (c+'-'+rd)!='C09-13' else 'quiet (see note)')} | {hard.get(c+'-'+rd,'–')} |")
    print()
