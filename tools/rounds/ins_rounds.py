import re,subprocess
p='/verif/DESIGN.md'; s=open(p).read()
# drop earlier insertion (idempotent)
s=re.sub(r'### Round 10 \(20 more.*?(?=Across the )', '', s, flags=re.S)
t10=subprocess.run(['python3','/tmp/work/seedtable.py','10'],capture_output=True,text=True).stdout
t11=subprocess.run(['python3','/tmp/work/seedtable.py','11'],capture_output=True,text=True).stdout
t12=subprocess.run(['python3','/tmp/work/seedtable.py','12'],capture_output=True,text=True).stdout
t13=subprocess.run(['python3','/tmp/work/seedtable.py','13'],capture_output=True,text=True).stdout
import json
R12=json.load(open('/tmp/work/r12.json'))
r10='''### Round 10 (20 more, `seeded/CNN-10/`)

17 caught at first run; the three misses were an option no generator drew (`use_color`, C12-10), a store of file
contents keyed by the path as spelled (C14-10: the histories never changed the working directory or a file) and a memo
on a component object shared between two documents encoded at the same time (C15-10).

'''+t10+'''
### Round 11 (20 more, `seeded/CNN-11/`)

13 reported at first run — C07-11 and C12-11 only by the cross-encoder tie (`harness/crosscorr.py`: `rtf_encode()` no
longer agreed with the Lean encoder model on the property's projection) and therefore as `no-failing-input-found`; both
checks were extended until the property's own oracle produces the failing document. C18-11 made the check exit 2 (a
failure path of the harness crashed on the seeded exception) — counted as a miss. The other misses needed objects shared
between sections or documents (C02-11, C14-11), an object re-configured between two uses (C08-11), three concurrent
encodes (C15-11), row-varying fonts over repeated cell texts (C04-11) and `group_by` + `subline_by` + `page_by` on one
body (C05-11).

'''+t11+'''
### Round 12 (20 more, `seeded/CNN-12/`)

'''+R12['intro']+'\n\n'+t12+'\n'+R12['r13']+t13+'\n\n'
i=[m.start() for m in re.finditer(r'Across the \w+ rounds', s)][-1]
j=s.index('\n\n',i)
tail=''''''+R12['total']+'''
The first-run rate does not rise from round to round because each round is asked to avoid everything earlier rounds
did; what rises is the breadth of the generators (typed columns, target names, section lists of any length, shared
objects, call histories against the file system, nearby font sizes, re-encodes after edits, literal-like texts, large
files, constructor options drawn from `model_fields`, recycled patterns of every length, objects re-configured between
uses, three-thread schedules, refused construction attempts, row-less sections, null cells, boundary code points,
near-valid strings, fine-grained numbers, an output that is one of its inputs) and, since round 7, the union net of the cross-encoder tie.'''
# replace the old paragraph (up to the blank line before '### Systematic')
k=s.index('### Systematic one-token mutants')
s=s[:i]+r10+tail+'\n\n'+s[k:]
open(p,'w').write(s)
