"""Which spellings of a body attribute value does RTFBody accept, and what does the component hold afterwards?

    /venv/bin/python tools/probe_spellings.py

Prints one line per (attribute, spelling).  harness/props/c09.py (`SPELLINGS`, `accepted`, `held_flat`) is the
table read off this output: text_* fields (list[T] | list[list[T]]) accept every spelling and hold a 1-D array-like
(numpy 1-D / 0-d array, polars Series, non-str / non-float numpy scalar) as a FLAT list; border_* / cell_* fields
(list[list[T]]) refuse the 1-D array-likes.
"""
import numpy as np
import polars as pl

import rtflite as rtf

VALUES = {
    "text_justification": (["l", "c", "r"], "c"), "text_format": (["b", "i", "u"], "bi"), "text_font": ([1, 2, 3], 2),
    "text_font_size": ([8.0, 9.5, 10.0], 8.0), "text_color": (["red", "blue", "green"], "red"),
    "text_background_color": (["red", "", "green"], "red"), "text_indent_first": ([0, 120, 360], 120),
    "text_indent_left": ([0, 100, 240], 100), "text_indent_right": ([0, 90, 0], 90), "text_space": ([1, 2, 3], 2),
    "text_space_before": ([15, 0, 30], 30), "text_space_after": ([15, 5, 40], 5),
    "text_hyphenation": ([True, False, True], True), "border_left": (["single", "double", ""], "double"),
    "border_right": (["single", "double", ""], "double"), "border_top": (["single", "double", ""], "double"),
    "border_bottom": (["single", "double", ""], "double"), "border_width": ([15, 10, 30], 30),
    "border_color_left": (["red", "blue", ""], "red"), "border_color_top": (["red", "blue", ""], "red"),
    "border_color_bottom": (["red", "blue", ""], "red"), "border_color_right": (["red", "blue", ""], "red"),
    "cell_vertical_justification": (["top", "center", "bottom"], "center"), "cell_height": ([0.15, 0.2, 0.3], 0.2),
    "cell_justification": (["l", "c", "r"], "l"),
}


def spellings(vec, sc):
    return {
        "scalar:py": sc, "scalar:list1": [sc], "scalar:nested1": [[sc]], "scalar:npscalar": np.array([sc])[0],
        "scalar:nd0": np.array(sc), "scalar:nd1": np.array([sc]), "scalar:nd2": np.array([[sc]]),
        "scalar:series": pl.Series([sc]), "scalar:frame": pl.DataFrame([[sc]], orient="row"),
        "percol:list": vec, "percol:nested": [vec], "percol:nd1": np.array(vec), "percol:nd2": np.array([vec]),
        "percol:series": pl.Series(vec), "percol:frame": pl.DataFrame([vec], orient="row"),
        "perrow:tuple": tuple(vec), "perrow:nested": [[x] for x in vec], "perrow:nd2": np.array([[x] for x in vec]),
        "perrow:frame": pl.DataFrame([[x] for x in vec], orient="row"),
        "matrix:nested": [vec, vec[::-1]], "matrix:nd2": np.array([vec, vec[::-1]]),
        "matrix:frame": pl.DataFrame([vec, vec[::-1]], orient="row"),
    }


if __name__ == "__main__":
    for a, (vec, sc) in VALUES.items():
        for name, v in spellings(vec, sc).items():
            try:
                b = rtf.RTFBody(**{a: v})
                held = getattr(b, a)
                kind = "nested" if held and isinstance(held[0], list) else "FLAT"
                print(f"{a:28s} {name:16s} accepted  holds {kind:6s} {held!r}")
            except Exception as e:  # noqa: BLE001
                print(f"{a:28s} {name:16s} REFUSED   {type(e).__name__}")
