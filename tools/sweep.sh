#!/bin/bash
# tools/sweep.sh "<seeds>" "<props>" [tier]   — run checks for several seeds; print one line per run
cd "$(dirname "$0")/.."
./setup.sh >/dev/null 2>&1
for s in $1; do
  for p in $2; do
    t0=$(date +%s)
    out=$(VERIF_SEED=$s ./check $p --tier ${3:-quick} 2>/tmp/sweep_err_$$.txt)
    rc=$?
    echo "seed=$s $p exit=$rc $(( $(date +%s) - t0 ))s $(echo "$out" | grep -c VIOLATION) violations"
    if [ $rc -ne 0 ]; then echo "$out" | head -5; tail -5 /tmp/sweep_err_$$.txt; fi
  done
done
rm -f /tmp/sweep_err_$$.txt
