"""Every constructor option of the pydantic component classes, drawn over its documented value set.

A property's own generator writes the options its statement speaks about (C12: the colours and fonts) and the few
structural ones its expectations depend on; everything else a user may pass to `RTFPage(...)`, `RTFBody(...)`,
`RTFTitle(...)` … stayed at its default, also the options that are documented but have no effect today
(`RTFPage.use_color`, `RTFBody.last_row`, …).  A change that wires such an option, or that touches the behaviour under
a rarely used one, then needs an input no generator draws.  This module closes that class generically:

* the SET of options is read from the classes at run time (`type(obj).model_fields`: name, annotation, default,
  description), so an option added or newly wired later is drawn without an edit here;
* the VALUE SET of an option is, in this order,
    1. the code table the library validates it against (`RTFConstants.BORDER_CODES`, `FORMAT_CODES`,
       `TEXT_JUSTIFICATION_CODES`, `ROW_JUSTIFICATION_CODES`, `VERTICAL_ALIGNMENT_CODES`), read at run time too;
    2. for the numeric options (inches / twips / points / counts) a few representative documented values (`NUMERIC`);
    3. for any other option its TYPE: `bool` → True / False (and None for a scalar `bool | None` option);
    4. for any other `str` option the quoted alternatives of its description
       ("Page orientation ('portrait' or 'landscape')" → portrait, landscape);
  every candidate value is tried once on the class by itself (`cls(**{option: value})`) and dropped when the
  constructor refuses it, so what is drawn is always an accepted configuration;
* an option with no value set by these rules is reported (`undrawn`), never silently skipped.

The schema is computed in a worker process (`schema()`; `schema(local=True)` inside a worker): the parent of a check
never imports polars code.
"""
from __future__ import annotations

import re

from . import common

CLASSES = dict(page="RTFPage", title="RTFTitle", subline="RTFSubline", page_header="RTFPageHeader",
               page_footer="RTFPageFooter", footnote="RTFFootnote", source="RTFSource", header="RTFColumnHeader",
               body="RTFBody", figure="RTFFigure")

# representative documented values of the numeric options (the type alone does not tell inches from twips)
NUMERIC = {
    "width": [8.5, 11.0, 7.5, 14.0],                  # page, inches
    "height": [11.0, 8.5, 14.0, 9.0],
    "margin": [[1.25, 1, 1.75, 1.25, 1.75, 1.00625], [1.0, 1.0, 2, 1.25, 1.25, 1.25], [0.5] * 6,
               [1, 1.5, 1, 1, 0.5, 0.75]],            # left, right, top, bottom, header, footer
    "nrow": [30, 40, 60, 100],                         # (the generators that paginate set their own)
    "col_width": [4.8, 5.0, 6.25, 6.5, 7.25],
    "text_font_size": [6, 8, 9, 9.5, 10, 12, 14.5],    # points
    "text_indent_first": [0, 120, 360], "text_indent_left": [0, 100, 240], "text_indent_right": [0, 90],   # twips
    "text_space": [1, 2, 3], "text_space_before": [0, 15, 30, 180], "text_space_after": [0, 5, 15, 40],
    "border_width": [10, 15, 30, 45], "cell_height": [0.15, 0.2, 0.3], "cell_nrow": [1, 2],
    "fig_height": [0.5, 1.0, 2.0], "fig_width": [0.5, 1.0, 2.0],
}
WHOLE = {"margin"}                                    # the candidate IS the value (a sequence), never broadcast
PER_COLUMN = {"col_rel_width": [1, 2, 1.5, 3, 0.7]}   # one number per column of the component

# options no generic draw can write: they name the content (texts, files, columns) or the colours / fonts a
# property's generator places itself
CONTENT = {"text", "figures", "page_by", "subline_by", "group_by"}


def _code_set(field: str, codes: dict):
    if field.startswith("border_") and "color" not in field and "width" not in field:
        return list(codes["BORDER_CODES"])
    if field == "text_format":
        single = [c for c in codes["FORMAT_CODES"]]
        pairs = [a + b for a in single for b in single if a and b and a < b][:6]
        return single + pairs
    if field == "text_justification":
        return list(codes["TEXT_JUSTIFICATION_CODES"])
    if field == "cell_justification":
        return list(codes["ROW_JUSTIFICATION_CODES"])
    if field == "cell_vertical_justification":
        return list(codes["VERTICAL_ALIGNMENT_CODES"])
    return None


def candidates(field: str, f: dict, codes: dict):
    """(rule, candidate values) of one option, before validation; (None, None) when no rule applies"""
    v = _code_set(field, codes)
    if v is not None:
        return "codes", v
    if field in NUMERIC:
        return "numeric", NUMERIC[field]
    if field in PER_COLUMN:
        return "per-column", PER_COLUMN[field]
    ann = f["ann"]
    if re.search(r"\bbool\b", ann):
        # (an explicit None for a list-valued `text_*` attribute is accepted at construction and refused by
        # `TextContent` at encode time: recorded domain decision of DESIGN section 8 — not a documented value)
        return "type:bool", [True, False] + ([None] if "None" in ann and "list[" not in ann else [])
    if re.search(r"\bstr\b", ann):
        q = re.findall(r"'([^']+)'", f["desc"])
        if len(q) >= 2:
            return "description", list(dict.fromkeys(q))
    return None, None


def _schema_worker(_=None):
    """model fields of the component classes, the library's code tables, the validated value set of every option"""
    import contextlib
    import io

    import rtflite as rtf
    from rtflite.core.constants import RTFConstants as C

    codes = {n: list(getattr(C, n)) for n in ("BORDER_CODES", "FORMAT_CODES", "TEXT_JUSTIFICATION_CODES",
                                             "ROW_JUSTIFICATION_CODES", "VERTICAL_ALIGNMENT_CODES")}
    out = dict(codes=codes, classes={}, undrawn=[], dropped=[])
    for comp, name in CLASSES.items():
        cls = getattr(rtf, name)
        fields = {}
        try:
            with contextlib.redirect_stdout(io.StringIO()):
                cls()
            base_ok = True
        except Exception:  # noqa: BLE001
            base_ok = False
        for fn, info in cls.model_fields.items():
            f = dict(ann=str(info.annotation), desc=info.description or "", list="list[" in str(info.annotation))
            rule, cand = (None, None) if fn in CONTENT else candidates(fn, f, codes)
            if cand is not None and base_ok:
                keep = []
                for v in cand:
                    probe = [v] if fn in PER_COLUMN else v
                    try:
                        with contextlib.redirect_stdout(io.StringIO()):
                            cls(**{fn: probe})
                        keep.append(v)
                    except Exception:  # noqa: BLE001
                        out["dropped"].append(f"{comp}.{fn}={v!r}")
                cand = keep or None
            f.update(rule=rule, values=cand)
            if cand is None and fn not in CONTENT:
                out["undrawn"].append(f"{comp}.{fn}")
            fields[fn] = f
        out["classes"][comp] = fields
    return out


_SCHEMA = None


def schema(local: bool = False) -> dict:
    """the option schema of the installed rtflite; `local=True` only inside a worker process"""
    global _SCHEMA
    if _SCHEMA is None:
        _SCHEMA = _schema_worker() if local else common.isolated(_schema_worker, None)
    return _SCHEMA


def _is_owned(field: str, owned) -> bool:
    return any(field == o or (o.endswith("*") and field.startswith(o[:-1])) or (o.startswith("*") and o[1:] in field)
               for o in owned)


def draw_component(rng, sch: dict, comp: str, kw: dict, *, p: float, owned=(), n: int = 1, ncols=None,
                   only=None, labels=None, tag=None):
    """Write options of component class `comp` into the constructor kwargs `kw`: every option of the class that `kw`
    does not set already, that is not `owned` (exact names, `prefix*`, `*infix`) and — with `only` — that is in
    `only`, each with probability `p`, its value drawn from the option's value set; for list-valued attributes as a
    scalar or as one value per line / column (`n`).  `ncols`: length of a per-column vector (None: not drawn)."""
    fields = sch["classes"][comp]
    for fn in sorted(fields):
        f = fields[fn]
        if fn in kw or f["values"] is None or _is_owned(fn, owned) or (only is not None and fn not in only):
            continue
        if rng.random() >= p:
            continue
        vals = f["values"]
        if fn in PER_COLUMN:
            if not ncols:
                continue
            kw[fn] = [rng.choice(vals) for _ in range(ncols)]
        elif fn in WHOLE or not f["list"] or n <= 1 or rng.random() < 0.6:
            kw[fn] = rng.choice(vals)
        else:
            inner = [v for v in vals if v is not None]     # None stands for "not given": never an element of a list
            kw[fn] = [rng.choice(inner) for _ in range(n)]
        if labels is not None:
            v = kw[fn]
            small = (isinstance(v, (bool, str)) or v is None) and f["rule"] in ("type:bool", "description")
            labels.append(f"opt:{tag or comp}.{fn}" + (f"={v!r}" if small else ""))


def draw_unread(rng, spec: dict, read: dict, *, p: float = 0.5, local: bool = True):
    """For the whole-encoder correspondence class: the options of every component of `spec` that the serialisation of
    the document state does NOT transmit to the encoder model (`read`: component → names it reads).  The model cannot
    see them, so they must be without effect on the output (or act through the state the serialisation reads, like
    `text_indent_reference`): today `RTFPage.use_color`, `RTFBody.last_row`, the text components'
    `text_indent_reference`, `RTFFigure.fig_pos` of a figure-only document.  Returns the labels of what was drawn."""
    sch = schema(local=local)
    labels = []

    def unread(comp):
        return [fn for fn in sch["classes"][comp] if fn not in read.get(comp, ()) and fn not in CONTENT]

    def one(comp, kw):
        if isinstance(kw, dict):
            draw_component(rng, sch, comp, kw, p=p, only=unread(comp), labels=labels)

    if spec.get("page") is None:
        spec["page"] = {}
    one("page", spec["page"])
    for comp in ("title", "subline", "page_header", "page_footer", "footnote", "source"):
        one(comp, spec.get(comp))
    b = spec.get("body")
    for kw in (b if isinstance(b, list) else [b]):
        one("body", kw)
    h = spec.get("headers")
    if isinstance(h, list):
        for x in h:
            for y in (x if isinstance(x, list) else [x]):
                one("header", y)
    fig = spec.get("figure")
    if isinstance(fig, dict):
        one("figure", fig)
    return labels
