"""A second tie for the document-level properties: the whole-encoder model as the reference.

The `Props/CNNenc.lean` theorems state each layout / attribute property about what `Model.Encode.encode` renders,
and C01's check establishes `printDoc (encode d) = rtf_encode()` byte for byte on the broad document class of
`harness/encodecorr.py` (every pagination strategy, group_by, permuted columns, typed cells, rich per-cell attributes,
geometry, page headers …).  A property's own generator is narrower than that class, and the changes such a generator
misses are nearly always "an input class it never draws".  So every check of the layout family re-uses the broad class:

  1. the encoder model and the real `rtf_encode()` run on the same generated documents (one batch, a few seconds);
  2. where the two texts are equal nothing is to be done: the theorem about the model text is a theorem about the
     real text;
  3. where they differ, BOTH texts are read with the same reader and classified with the same sentinel rules, and the
     property's own oracle and projection are evaluated on both.  A clause of the oracle that fails on the real text
     and holds on the model text is a failing input of the property (the oracle may be imprecise on documents outside
     the family's own generator — such imprecision shows on both texts alike and cancels).  A differing projection
     with no such clause is a broken correspondence for this property (reported without a failing input).  Equal
     projections mean the difference lies outside what the property speaks about: nothing is reported here (C01's
     check reports the byte difference itself).

On the unchanged tree the two texts agree on every document (the ≈ 1 % "near a float rounding boundary" documents are
set aside as in C01), so this step cannot raise an alarm there.
"""
from __future__ import annotations

import traceback

from . import common, laygen, rtfread

N_QUICK, N_THOROUGH = 100, 800


def observe_text(text: str, info) -> dict:
    doc = rtfread.read(text)
    pages, raw = laygen.classify(doc, info)
    return dict(status="ok", pages=pages, _raw=raw, _doc=doc, _rtf=text)


def _rgb(doc, idx):
    if idx is None:
        return None
    if idx == 0 and not doc.colors:
        return "default"            # index 0 is the default colour, with or without a colour table
    try:
        return doc.colors[idx] if 0 <= idx < len(doc.colors) else ("no such entry", idx)
    except TypeError:
        return ("index", idx)


def _resolve(doc, props: dict) -> dict:
    """formatting properties with colour indices resolved through the document's own colour table"""
    out = {}
    for k, v in (props or {}).items():
        if k in ("cf", "cb", "chcbpat", "color") or k.endswith("color"):
            out[k] = _rgb(doc, v) if isinstance(v, int) else v
        elif isinstance(v, dict):
            out[k] = _resolve(doc, v)
        else:
            out[k] = v
    return out


def row_edges(row) -> dict:
    """border style of every cell edge of a table row"""
    return {side: [(d.borders.get(side) or {}).get("style") for d in row.defs] for side in "tblr"}


def row_format(doc, row) -> dict:
    """everything the reader sees of a table row except its text"""
    return dict(props=_resolve(doc, row.props),
                defs=[dict(borders=_resolve(doc, d.borders), valign=d.valign, cellx=d.cellx) for d in row.defs],
                cells=[dict(props=_resolve(doc, c.props), runs=[_resolve(doc, r.props) for r in c.runs if r.text])
                       for c in row.cells])


def table_rows(ob):
    """(page number, role block, reader row) of every table row"""
    for pno, (blocks, raws) in enumerate(zip(ob["pages"], ob["_raw"]), 1):
        for b, r in zip(blocks, raws):
            if r is not None and getattr(r, "kind", None) == "row":
                yield pno, b, r


def _judge(args):
    fam, spec, info, model_text, real_text = args
    try:
        if spec.get("kind") == "multi":
            # a list of sections: the sentinel rules need no generator facts; the family's own oracle may not apply
            info = dict(dict(page_by=None, subline_by=None, strategy="multi", header_mode="multi"), **info)
            info2 = info
        else:
            info2 = fam.cross_prepare(spec, info)
        if info2 is None:
            return dict(skip="outside the family's domain")
        try:
            ob_r = observe_text(real_text, info2)
        except rtfread.RtfError as e:
            return dict(skip=f"real text unreadable ({e}) — C01's subject")
        try:
            ob_m = observe_text(model_text, info2)
        except rtfread.RtfError as e:
            return dict(skip=f"model text unreadable ({e})")
        try:
            fails_r = [f if isinstance(f, str) else f.get("msg", str(f)) for f in fam.oracle(spec, info2, ob_r)]
            fails_m = [f if isinstance(f, str) else f.get("msg", str(f)) for f in fam.oracle(spec, info2, ob_m)]
            new = [f for f in fails_r if f not in fails_m]
            oracle_note = None
        except Exception:  # noqa: BLE001 — the family's oracle needs generator facts this document does not carry
            new, oracle_note = [], "oracle not applicable: " + traceback.format_exc()[-200:]
        pr = fam.project(ob_r["pages"], info2)
        pm = fam.project(ob_m["pages"], info2)
        extra_r = fam.cross_extra(spec, info2, ob_r)
        extra_m = fam.cross_extra(spec, info2, ob_m)
        return dict(new=new[:3], differs=(pr != pm) or (extra_r != extra_m), info=info2, oracle_note=oracle_note,
                    diff=_first_diff(pr, pm) if pr != pm else _first_diff(extra_r, extra_m))
    except Exception:  # noqa: BLE001 — an oracle that cannot cope with a foreign document decides nothing
        return dict(skip="oracle not applicable: " + traceback.format_exc()[-300:])


def _first_diff(a, b):
    import json

    if isinstance(a, list) and isinstance(b, list) and len(a) == len(b):
        for i, (x, y) in enumerate(zip(a, b)):
            if x != y:
                return f"item {i}: implementation {json.dumps(x, default=str)[:260]} vs encoder model {json.dumps(y, default=str)[:260]}"
    return f"implementation {json.dumps(a, default=str)[:260]} vs encoder model {json.dumps(b, default=str)[:260]}"


def _pool(fn, items):
    """always in worker processes (the oracles may import rtflite / polars; the parent must not)"""
    import multiprocessing as mp

    if not items:
        return []
    import sys

    ctx = mp.get_context("spawn" if ("polars" in sys.modules or "rtflite" in sys.modules) else "fork")
    with ctx.Pool(min(len(items), common.NCPU)) as pool:
        return pool.map(fn, items, chunksize=1)


def differing(seed: int, n: int, shared: int = 0):
    """→ (all outcomes, the ones whose real and model texts both exist and differ)"""
    from . import encodecorr

    from . import encodecorr2

    # + documents whose header rows carry their own widths, handed over in the other container spellings the
    # constructors accept (tuple / single object; texts as str / list / tuple / frame)
    outs = encodecorr.generate_and_compare(seed, n, spelled=max(8, n // 4))
    for o in outs:
        o["path"] = "single"
    # lists of 1..4 sections; `shared` more of them in which sections are given the very same RTFBody / header objects
    outs += encodecorr2.generate_and_compare(seed, max(1, n // 2), paths=("multi",), shared=shared)
    bad = [o for o in outs if o["verdict"] == "differ" and "real" in o and "text" in o.get("model", {})]
    return outs, bad


def run_cross(fam, res: common.Result):
    n = N_QUICK if res.tier == "quick" else N_THOROUGH
    seed = res.seed * 100 + int(fam.prop[1:])          # each property explores its own slice of the class
    # a family may ask for documents of the shared-component class as well (Family.cross_shared: a fraction of n)
    outs, bad = differing(seed, n, shared=int(n * getattr(fam, "cross_shared", 0)))
    for o in outs:
        res.count(f"cross-encoder:{o.get('path', 'single')}:{o['verdict']}")
        if (o["spec"].get("share") or {}).get("body"):
            res.count(f"cross-encoder:shared-components:{o['verdict']}")
        if o["spec"].get("spelling"):
            res.count(f"cross-encoder:spelled-containers:{o['verdict']}")
        if (o.get("info") or {}).get("unicode_cells"):
            res.count(f"cross-encoder:boundary-character-cells:{o['verdict']}")
    res.extra["cross_encoder"] = dict(documents=len(outs), differing=len(bad),
                                      note="documents of the whole-encoder correspondence class; the property's oracle "
                                           "and projection are evaluated on the real and the model text where they "
                                           "differ (harness/crosscorr.py)")
    res.corr_checked += sum(1 for o in outs if o["verdict"] in ("agree", "both-error"))
    for o in outs:
        if o["verdict"] == "state-outside-model":
            res.corr_checked += 1
            res.disagree(dict(spec=o["spec"], info=o.get("info", {}), cross=True, path=o.get("path", "single")),
                         f"{fam.prop} cross-encoder: {o['why']}")
    if not bad:
        return
    verdicts = _pool(_judge, [(fam, o["spec"], o["info"], o["model"]["text"], o["real"]) for o in bad])
    for o, v in zip(bad, verdicts):
        if "skip" in v:
            res.count("cross-encoder:not-judged")
            res.notes.append("cross-encoder: a differing document was not judged — " + v["skip"][:200])
            continue
        case = dict(spec=o["spec"], info=v["info"], cross=True, path=o.get("path", "single"))
        res.corr_checked += 1
        if v["new"]:
            res.fail(case, v["new"][0] + "  [cross-encoder: the same clause holds on the text of the encoder model, "
                                         "about which the property is proved]")
        elif v["differs"]:
            res.disagree(case, f"{fam.prop} projection of rtf_encode() vs the encoder model: {v['diff']}")
        else:
            res.count("cross-encoder:difference-outside-the-property")


def replay_cross(fam, case) -> int:
    """re-run one cross case: 1 = the property's clause fails on the real text and holds on the model text,
    or the projections differ"""
    from . import encodecorr

    if case.get("path", "single") == "multi":
        from . import encodecorr2

        o = encodecorr2.generate_and_compare(0, 0, paths=(), fixed=[dict(path="multi", spec=case["spec"],
                                                                         info=case.get("info", {}))] * 4)[0]
    else:
        outs = common.pool_map(encodecorr._worker, [(0, 0, 0, dict(spec=case["spec"], info=case.get("info", {})))] * 4)[:1]
        for o in outs:
            if "machinery" in o:
                print(o["machinery"])
                return 2
        o = encodecorr.compare(outs)[0]
    print("encoder model vs rtf_encode():", o["verdict"], "-", (o.get("why") or "")[:300])
    if o["verdict"] != "differ":
        if o["verdict"] in ("agree", "near", "both-error", "construct-error"):
            print("property holds on this input (the real text is the model's text)")
            return 0
        print(f"VIOLATION property={fam.prop} replay=<given> no-failing-input-found")
        return 1
    v = _pool(_judge, [(fam, o["spec"], case.get("info") or o["info"], o["model"]["text"], o["real"])])[0]
    if "skip" in v:
        print("not judged:", v["skip"])
        return 0
    if v["new"]:
        for f in v["new"]:
            print("FAIL:", f)
        print(f"VIOLATION property={fam.prop} replay=<given>")
        return 1
    if v["differs"]:
        print("projection differs:", v["diff"])
        print(f"VIOLATION property={fam.prop} replay=<given> no-failing-input-found")
        return 1
    print("the difference lies outside what the property speaks about; property holds on this input")
    return 0


# ----------------------------------------------------------------------------- light families (C08, C12, C13)

class Light:
    """a property whose own check is not built on the layout family: what it compares between the real text and the
    encoder model's text (`extra`) and, where a clause of the statement can be decided on any document, that clause
    (`clauses`, evaluated on both texts — only a clause failing on the real text alone is a failing input)"""

    cross = True

    def __init__(self, prop, extra, clauses=None):
        self.prop, self.tag = prop, prop.lower()
        self._extra, self._clauses = extra, clauses

    def cross_prepare(self, spec, info):
        return info

    def project(self, pages, info):
        return None

    def cross_extra(self, spec, info, ob):
        return self._extra(spec, info, ob)

    def oracle(self, spec, info, ob):
        return self._clauses(spec, info, ob) if self._clauses else []


def _c08_extra(spec, info, ob):
    """the cell boundaries of every table row, by page and role"""
    return [[pno, b[:2], [d.cellx for d in r.defs]] for pno, b, r in table_rows(ob)]


def _c08_clauses(spec, info, ob):
    """every rendered row ends at the same right boundary (sections of one document share the table width)"""
    ends = [(pno, b[:2], r.defs[-1].cellx) for pno, b, r in table_rows(ob) if r.defs]
    if not ends:
        return []
    want = max(set(e[2] for e in ends), key=[e[2] for e in ends].count)
    return [f"page {pno}: row {b} ends at {x} twips, the other rows of the document at {want}"
            for pno, b, x in ends if x != want][:3]


def _c12_extra(spec, info, ob):
    """every colour and font reference of every table row and paragraph, resolved through the document's own tables"""
    doc = ob["_doc"]
    out = []
    for pno, (blocks, raws) in enumerate(zip(ob["pages"], ob["_raw"]), 1):
        for b, r in zip(blocks, raws):
            if r is None:
                continue
            if getattr(r, "kind", None) == "row":
                f = row_format(doc, r)
                out.append([pno, b[:2], [{k: v for k, v in (d["borders"] or {}).items()} for d in f["defs"]],
                            [[{k: v for k, v in run.items() if k in ("cf", "cb", "chcbpat", "f")} for run in c["runs"]]
                             for c in f["cells"]]])
            elif hasattr(r, "runs"):
                out.append([pno, b[:1], [{k: v for k, v in _resolve(doc, run.props).items()
                                          if k in ("cf", "cb", "chcbpat", "f")} for run in r.runs if run.text]])
    return [out, sorted(doc.fonts) if isinstance(doc.fonts, dict) else None]


def _c12_clauses(spec, info, ob):
    """every colour index used refers to an existing entry of the document's own colour table"""
    bad = []

    def walk(x, where):
        if isinstance(x, (list, tuple)):
            if len(x) == 2 and x[0] == "no such entry":
                bad.append(f"{where}: colour index {x[1]} has no entry in the document's colour table")
                return
            for y in x:
                walk(y, where)
        elif isinstance(x, dict):
            for y in x.values():
                walk(y, where)
    for item in _c12_extra(spec, info, ob)[0]:
        walk(item[2:], f"page {item[0]} {item[1]}")
    return bad[:3]


def _c13_extra(spec, info, ob):
    """the text of every data cell (a group_by blank is an empty cell), by page and row"""
    return [[pno, b[:2], [rtfread.para_text(c) for c in r.cells]] for pno, b, r in table_rows(ob) if b[0] == "data"]


LIGHT = {
    "C08": Light("C08", _c08_extra, _c08_clauses),
    "C12": Light("C12", _c12_extra, _c12_clauses),
    "C13": Light("C13", _c13_extra),
}
