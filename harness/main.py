"""Entry point:  check <ID> --tier quick|thorough [--replay FILE]"""
from __future__ import annotations

import argparse
import importlib
import json
import os
import sys
import traceback
from pathlib import Path

sys.path.insert(0, str(Path(__file__).resolve().parent.parent))

from harness import common  # noqa: E402


def main(argv=None) -> int:
    ap = argparse.ArgumentParser()
    ap.add_argument("prop")
    ap.add_argument("--tier", default=os.environ.get("VERIF_TIER", "quick"), choices=["quick", "thorough"])
    ap.add_argument("--replay", default=None)
    ap.add_argument("--no-build", action="store_true", help="development only: skip lake build")
    a = ap.parse_args(argv)
    prop = a.prop.upper()
    seed = common.seed_from_env()
    try:
        mod = importlib.import_module(f"harness.props.{prop.lower()}")
    except ModuleNotFoundError as e:
        print(f"no check for {prop}: {e}", file=sys.stderr)
        return 2
    try:
        if a.replay:
            payload = json.loads(Path(a.replay).read_text())
            return mod.replay(payload)
        if a.no_build:
            build = dict(driver_ok=True, proof_ok=True, log="", theorems=["<skipped>"], discharged=["<skipped>"],
                         bad=[], forbidden=[], translate_changed=[])
        else:
            build = common.build_all(prop, a.tier)
        if not build["driver_ok"]:
            common.log(build["log"][-3000:])
            print(f"machinery error: model driver does not build", file=sys.stderr)
            return 2
        if not build["proof_ok"]:
            common.log("PROOF OBLIGATION BROKEN for", prop)
            common.log(build["log"][-3000:])
            common.log("bad axioms:", build["bad"], "forbidden:", build["forbidden"])
        res = common.Result(prop, a.tier, seed)
        return mod.run(res, build)
    except common.MachineryError as e:
        print(f"machinery error: {e}", file=sys.stderr)
        return 2
    except Exception:  # noqa: BLE001
        traceback.print_exc()
        return 2


if __name__ == "__main__":
    sys.exit(main())
