"""C02 — no data cell is lost, duplicated, reordered or altered.

Theorems: lean/Props/C02.lean about `Model.Layout.layout` (pages partition the rows in order; cumulative
re-slicing lands on the strategy's slices; removed columns).
Tie: whole documents through `rtf_encode()`; every data cell carries a sentinel, so rows are identified in
the real output without trusting the layout.  Oracle (independent of the model): concatenating the data rows
of all pages gives rows 0..n-1 once each in order, every rendered cell's text equals the display text of the
value, exactly the displayed columns are rendered in their original order.  Correspondence: the sequence
of data-row indices per page of the Lean layout equals the observed one.

Documents nbase.. of a run are the *mixed text_convert* class: text_convert given per column (full or cyclic vector)
or per cell (full or row-cyclic matrix) over ALL frame columns, including the page_by / subline_by columns that are
removed from the display; a data cell whose own flag is off holds ^ _ >= <= (must be read back verbatim), a cell whose
flag is on holds conversion-neutral text.  Single-section under every strategy, and multi-section with page_by /
subline_by sections (the removed column anywhere among the columns).  Lean: Props/C02encflag.lean.

Documents nmixed.. of a run are the *edge column name* class (laygen.edge_names / gen_multi_names): the frame's columns —
data columns and page_by / subline_by columns, one up to all of them — are called by names some layer could read as
something else than a name: polars selector syntax (`*`, `^x$`, `^.*$`), regexes / prefixes / extensions / case
variants of OTHER names of the same frame, the empty string, blanks, non-ASCII, a cell value, an attribute or
metadata-column name, numeric-looking, very long, punctuation, conversion tokens, RTF-active characters (only where no
header shows the names) — under every strategy with and without column removal, columns in generator order or
permuted, single- and multi-section.  The auto-populated header shows the names: info['name_headers'] carries the rows
of names, and laygen.classify recognises exactly those rows as headers.  Lean: Props/C02encnames.lean (the encoder
model resolves the removed names to POSITIONS once and never looks at a name again; the rendered rows are invariant
under every injective renaming of the columns).

Documents nnames.. of a run are the *shared component* class (gen_multi_shared; docgen "share"): multi-section documents
in which two or more sections — adjacent or not — are given the VERY SAME RTFBody object (with a full-length
col_rel_width the document keeps the caller's object; with none / a one-element one it stores per-section copies) and
the very same RTFColumnHeader objects, while every section has its own frame: page_by / subline_by columns anywhere
among the columns, independently per section — frames of equal shape with the key column at another position, equal
shape and position, other row counts, other column counts — data columns under the same names in another order or
under names of their own; every strategy that removes columns and the ones that do not; per-column attributes.  The
crosscorr step adds documents of the same class for the encoder model (encodecorr2.gen_multi_shared2: these sentinel
documents, and decorated / group_by / typed documents of gen_multi2 in which a section is repeated under the same body
object with its frame's columns permuted).  Lean: Props/C02encshare.lean (a section's removed positions are looked up
in its own column list; no other section enters).

Documents nshared.. of a run are the *non-ASCII cell text* class (gen_unicode / gen_multi_unicode; harness/unitext.py):
data cells — and page_by / subline_by values, displayed as cells or removed from the table — whose text holds
characters at and around every range boundary a text writer decides on (U+007F/0080, U+00FF/0100, U+07FF/0800,
U+7FFF/8000, U+D7FF/E000, U+FFFD..FFFF/U+10000/10001, U+103FF/10400, plane edges, U+10FBFF/10FC00, U+10FFFD..10FFFF)
and random BMP / astral characters: alone in a cell, after the sentinel, between ASCII, next to each other, with blanks
around; under every strategy, text_convert on / off / per column, single- and multi-section.  Every fifth document is a
sweep with one row per boundary point.  The reader decodes the Unicode escapes (negative values, surrogate pairs) to code points, so
the oracle compares each cell with the value's display text exactly.  The crosscorr step carries the same family in
one document in four (encodecorr.unicode_cells).
"""
from __future__ import annotations

import re
import string

from .. import common, docgen, laygen, layfamily, rtfread, unitext

MANIFEST = dict(
    text="Lean theorems over the layout model (pagination + per-page slices + cumulative re-slicing + page "
         "rendering): the data rows of all pages concatenated are exactly rows 0..n-1 in order for every table, "
         "nrow, strategy and key sequence; every row sits on the page the pagination assigned to it; removed "
         "columns are exactly subline_by and (when spanning rows are shown) page_by, the rest keep their order. "
         "Encoder level (Props/C02encflag): the text_convert flag a data cell is written under is the one given for "
         "the cell's ORIGINAL (row, column) — column removal and page slicing do not re-bind it — so a cell whose own "
         "flag is off is written verbatim. "
         "Tied to the code on every run by observation of sentinel-tagged documents (single- and multi-section), "
         "incl. documents with per-column / per-cell text_convert over removed page_by / subline_by columns and "
         "token-bearing (^ _ >= <=) cells wherever the cell's own flag is off, and documents whose columns carry edge "
         "NAMES (polars selector syntax, regexes / prefixes / case variants of other names, empty, blank, non-ASCII, "
         "cell values, attribute names, numeric-looking, very long). Props/C02encnames: the encoder model removes "
         "columns by position; the rows it renders are the same under every injective renaming of the columns. "
         "Props/C02encshare: in a list document every section's removed positions are those of the body's names in "
         "the section's OWN column list, wherever it stands and whatever the other sections are — tied by documents "
         "whose sections are given the very same RTFBody / header objects with the key columns at per-section positions.",
    note="Cell text equality is checked on the observation (reader decodes the bytes); that the escaper's bytes "
         "decode to the text is C10's theorem; the check itself reads cells with characters at and around every "
         "range boundary of the escaping (7-bit, one byte, signed 16-bit, surrogate block, first / last surrogate "
         "pairs) and random BMP / astral characters back and compares them exactly. str() of values, polars slicing and pydantic are parameters. "
         "Unconverted cells hold printable ASCII without \\ { } (text_convert off writes the text as raw RTF); "
         "converted cells hold conversion-neutral text, as the property's quantifier says. group_by is outside C02. "
         "Column names are arbitrary distinct strings (a polars frame admits no equal names); names with \\ { } are "
         "drawn only where no header shows the names (a header text is RTF-active like any text). A header row is "
         "recognised as the row showing the displayed columns' names up to text conversion (^ _ >= <=), which is not "
         "C02's subject. Shared component objects: the model is a function of values (two sections given one object "
         "are two sections with equal bodies); the sharing itself exists on the implementation side only and is tied "
         "by observation (oracle on the real output; byte correspondence with the encoder model in the crosscorr step).",
    technique="Lean 4 proof (partition of rows by monotone page numbers) + observation-level correspondence",
    design="7/C02",
)

RULE = ("seeded tagged tables (0..45 rows, 1..4 data columns incl. padded and blank-only strings, ints, floats with exponent/nan/inf forms, booleans, nulls) under every "
        "pagination strategy, header/footnote/source variant, text_convert on/off; plus multi-section documents; "
        "plus documents whose text_convert is given per column (full / cyclic vector, one column off, one column on) "
        "or per cell (full / row-cyclic matrix) with differing values, over the data frame's columns incl. the "
        "page_by / subline_by columns that are removed from the display, where every data cell whose own flag is off "
        "holds printable ASCII with ^ _ >= <= (read back verbatim) and every cell whose flag is on holds "
        "conversion-neutral text — single-section under every strategy and multi-section with page_by / subline_by "
        "sections; plus documents with edge column NAMES for data columns and page_by / subline_by columns alike "
        "(polars selector syntax '*' '^x$' '^.*$', regexes / prefixes / extensions / case variants of other names of "
        "the same frame, '', blanks, non-ASCII, a cell or group value, attribute / metadata-column names, "
        "numeric-looking, 60–300 characters, punctuation incl. '-----', conversion tokens, and — where no header shows "
        "the names — RTF-active characters), one column up to all columns renamed, columns in generator order or "
        "permuted, under every strategy with and without column removal, with auto-populated / explicit / no header, "
        "single-section and multi-section (the removed column anywhere; the same odd name in several sections); "
        "plus multi-section documents (2–4 sections) whose sections are given SHARED objects — one RTFBody for two or "
        "more sections, adjacent or not, with full-length / one-element / no col_rel_width (the document keeps the "
        "caller's object or stores copies), one RTFColumnHeader list for several sections — over frames of their own: "
        "page_by (1–2 levels, new_page on/off, first_row/column) / subline_by / subline_by+page_by / no key columns at "
        "independent positions per section, frames of equal shape with the key column moved, equal shape and position, "
        "other row or column counts, data columns under the same names permuted or under own names, per-column "
        "text_justification / text_format; the same class against the encoder model (cross-encoder step); "
        "plus documents (single-section under every strategy, key columns displayed or removed; multi-section) whose "
        "data cells and page_by / subline_by values hold non-ASCII text: every boundary point of the text writer with "
        "its neighbours (U+007E–0081, 009F–00A1, 00AD, 00B1, 00FE–0101, 07FF/0800, 7FFE–8001, D7FE/D7FF/E000/E001, "
        "FEFF, FFFC–FFFF, 10000–10002, 103FE–10401, 1FFFF/20000, FFFFF/100000, 10FBFF/10FC00, 10FFFD–10FFFF — each of "
        "them in every run: one document in five has one row per point, the character alone in a cell and between "
        "ASCII) and random BMP / astral characters, alone, after the sentinel, between ASCII, adjacent, blank-padded, "
        "with text_convert on / off / per column; the same family in one document in four of the cross-encoder step; "
        "non-trivial = ≥ 2 pages; distinct by (strategy, nrow, rows per page)")

SAFE_OFF = "".join(c for c in string.printable[:94] if c not in "\\{}")  # printable ASCII without \ { }


TOKENS = ["^", "_", ">=", "<=", "^2", "_i", "x^2", "a>=b", "p<=0.05", "ALT_SI", "<=>=", "^_", "__", "^^"]


def token_text(rng, tag):
    """tag + printable ASCII (no \\ { }) that contains at least one of the conversion tokens ^ _ >= <="""
    parts = [tag, rng.choice(["", " ", "="])]
    must = rng.randrange(3)
    for p in range(3):
        if p == must or rng.random() < 0.4:
            parts.append(rng.choice(TOKENS))
        elif rng.random() < 0.6:
            parts.append("".join(rng.choice(SAFE_OFF) for _ in range(rng.randint(1, 3))))
    return "".join(parts)


def mutate_cells(rng, spec, info, convert_off, conv_at=None):
    """turn some data columns into ints / floats / padded strings / nulls (column 0 keeps its tag).
    `conv_at(i, c)` (row, column of the data frame) = the cell's own text_convert flag when the flag is not one scalar:
    then column 0 may be free text as well (its tag stays in front) and a free cell holds conversion tokens exactly
    when its own flag is off."""
    cols = spec["df"]["cols"]
    first = len(info["hier"])
    nd = info["ndata"]
    if conv_at is not None:
        return _mutate_cells_mixed(rng, spec, info, conv_at)
    kinds = ["tag"] + [rng.choice(["tag", "pad", "int", "float", "tag", "free", "bool", "float"]) for _ in range(nd - 1)]
    for j, kind in enumerate(kinds):
        cj = first + j
        for i, r in enumerate(spec["df"]["rows"]):
            if isinstance(r[cj], str) and " " in r[cj].strip():
                continue  # a long (multi-line) text stays
            if j > 0 and rng.random() < 0.12:
                r[cj] = None
            elif j > 0 and rng.random() < 0.06:
                r[cj] = " " * rng.randint(1, 3)        # a cell made of blanks only is not an empty cell
            elif kind == "pad":
                r[cj] = " " * rng.randint(1, 3) + f"r{i}c{j}" + " " * rng.randint(0, 3)
            elif kind == "int":
                r[cj] = rng.randint(-999, 99999)
            elif kind == "float":
                # values whose str() differs from other renderings of the same number (exponents, nan, inf, -0.0)
                r[cj] = rng.choice([0.5, 1.25, -3.75, 1e-3, 12345.678, 2.0, float(rng.randint(0, 50)), 1e-05, 3.2e-07,
                                    2.5e+16, 1e+22, -0.0, float("nan"), float("inf"), 1 / 3])
            elif kind == "bool":
                r[cj] = rng.random() < 0.5
            elif kind == "free" and convert_off:
                r[cj] = f"r{i}c{j}" + "".join(rng.choice(SAFE_OFF) for _ in range(rng.randint(0, 6)))
    info["kinds"] = kinds


def _mutate_cells_mixed(rng, spec, info, conv_at):
    first = len(info["hier"])
    nd = info["ndata"]
    kinds = [rng.choice(["tag", "free", "free"])]
    kinds += [rng.choice(["free", "free", "free", "tag", "pad", "int", "float", "bool"]) for _ in range(nd - 1)]
    nrows = len(spec["df"]["rows"])
    off_cols = [j for j in range(nd) if any(not conv_at(i, first + j) for i in range(nrows))]
    if off_cols and not any(kinds[j] == "free" for j in off_cols):
        kinds[rng.choice(off_cols)] = "free"     # some column with a flag off holds token-bearing text
    ntok = 0
    for j, kind in enumerate(kinds):
        cj = first + j
        for i, r in enumerate(spec["df"]["rows"]):
            if isinstance(r[cj], str) and " " in r[cj].strip():
                continue  # a long (multi-line) text stays
            if j > 0 and rng.random() < 0.08:
                r[cj] = None
            elif j > 0 and rng.random() < 0.04:
                r[cj] = " " * rng.randint(1, 3)
            elif kind == "free":
                if not conv_at(i, cj):
                    r[cj] = token_text(rng, f"r{i}c{j}")
                    ntok += 1
                # a converted cell keeps its conversion-neutral tag
            elif kind == "pad":
                r[cj] = " " * rng.randint(1, 3) + f"r{i}c{j}" + " " * rng.randint(0, 3)
            elif kind == "int":
                r[cj] = rng.randint(-999, 99999)
            elif kind == "float":
                r[cj] = rng.choice([0.5, 1.25, -3.75, 1e-3, 2.0, 1e-05, 2.5e+16, -0.0, float("nan"), 1 / 3])
            elif kind == "bool":
                r[cj] = rng.random() < 0.5
    info["kinds"] = kinds
    info["token_cells"] = ntok


def gen_flags(rng, n, ncols, data_idx):
    """a text_convert value with differing entries over an n x ncols frame → (value, shape label);
    data_idx = frame indices of the data columns"""
    shapes = ["col", "col", "one-off", "one-off", "one-on", "cell", "cell"]
    if ncols >= 2:
        shapes.append("col-cyclic")
    if n >= 3:
        shapes.append("cell-cyclic")
    shape = rng.choice(shapes)
    if shape in ("cell", "cell-cyclic") and n == 0:
        shape = "col"
    if shape == "col":
        v = [rng.random() < 0.5 for _ in range(ncols)]
        if ncols >= 2 and len(set(v)) == 1:
            v[rng.randrange(ncols)] ^= True
    elif shape in ("one-off", "one-on"):
        on = shape == "one-off"
        v = [on] * ncols
        v[rng.choice(data_idx)] = not on
    elif shape == "col-cyclic":
        m = rng.randint(1, ncols - 1)
        v = [rng.random() < 0.5 for _ in range(m)]
        if m >= 2 and len(set(v)) == 1:
            v[rng.randrange(m)] ^= True
    else:
        m = n if shape == "cell" else rng.randint(2, n - 1)
        v = [[rng.random() < 0.5 for _ in range(ncols)] for _ in range(m)]
    return v, shape


MIX_STRATEGIES = ["page_by", "page_by", "page_by_np_first", "subline", "subline_page_by", "page_by_np", "plain"]


def gen_mixed(rng, k):
    """single-section document whose text_convert differs between columns / cells"""
    spec, info = laygen.gen_spec(rng, strategy=rng.choice(MIX_STRATEGIES), n=rng.randint(1, 40),
                                 dividers=(k % 4 == 0), nulls=0.0)
    cols = spec["df"]["cols"]
    first = len(info["hier"])
    tc, shape = gen_flags(rng, info["n"], len(cols), list(range(first, len(cols))))
    spec["body"]["text_convert"] = tc
    mutate_cells(rng, spec, info, False, conv_at=lambda i, c: bool(laygen.attr_at(tc, i, c, True)))
    di = [cols.index(c) for c in info["displayed"]]
    info["expect"] = [[docgen.display(r[c]) for c in di] for r in spec["df"]["rows"]]
    info["labels"] = ["convert:" + shape, "convert-removed-cols:%d" % len(info["removed"]),
                      "convert-token-cells:" + ("0" if not info["token_cells"] else "1+")]
    return spec, info


def gen_multi_mixed(rng):
    """multi-section document: sections with page_by (spanning rows) / subline_by / neither, each with its own
    per-column or per-cell text_convert and token-bearing cells where the flag is off"""
    nsec = rng.randint(2, 3)
    frames, bodies, headers, expect = [], [], [], []
    base = 0
    shapes = []
    for s in range(nsec):
        n = rng.randint(1, 10)
        nd = rng.randint(1, 3)
        mode = rng.choice(["page_by", "page_by", "subline", "none"])
        key = {"page_by": "PB0", "subline": "SL0"}.get(mode)
        pos = rng.randint(0, nd) if key else None          # the removed column sits anywhere among the columns
        dcols = [f"S{s}COL{j}" for j in range(nd)]
        cols = list(dcols)
        if key:
            cols.insert(pos, key)
        ncols = len(cols)
        data_idx = [c for c in range(ncols) if cols[c] != key]
        tc, shape = gen_flags(rng, n, ncols, data_idx)
        shapes.append(shape)
        keys = docgen.run_keys(rng, n, [("G0" if mode == "page_by" else "SB") + x for x in "abcd"], 1, 4) if key else None
        rows = []
        for i in range(n):
            row = []
            for c in range(ncols):
                if cols[c] == key:
                    row.append(keys[i])
                    continue
                j = data_idx.index(c)
                tag = f"r{base + i}c{j}"
                if j > 0 and rng.random() < 0.1:
                    row.append(None)
                elif not laygen.attr_at(tc, i, c, True) and rng.random() < 0.8:
                    row.append(token_text(rng, tag))
                else:
                    row.append(tag)
            rows.append(row)
        frames.append(dict(cols=cols, rows=rows))
        body = dict(text_convert=tc)
        if mode == "page_by":
            body["page_by"] = [key]
        elif mode == "subline":
            body["subline_by"] = [key]
        bodies.append(body)
        headers.append([dict(text=[f"HD{s}c{j}" for j in range(nd)])] if rng.random() < 0.6 else [None])
        expect += [[docgen.display(r[c]) for c in data_idx] for r in rows]
        base += n
    spec = dict(kind="multi", df=frames, body=bodies, headers=headers, page=dict(nrow=rng.randint(6, 30)),
                footnote=dict(text="FTNOTE") if rng.random() < 0.4 else None)
    info = dict(strategy="multi", header_mode="multi", n=base, model=False, page_by=None, subline_by=None,
                expect=expect, labels=["convert-multi:" + sh for sh in sorted(set(shapes))])
    return spec, info


def gen_multi(rng):
    nsec = rng.randint(2, 3)
    frames, bodies, headers = [], [], []
    base = 0
    for s in range(nsec):
        n = rng.randint(1, 12)
        nd = rng.randint(1, 4)
        cols = [f"S{s}COL{j}" for j in range(nd)]
        rows = [[f"r{base + i}c{j}" for j in range(nd)] for i in range(n)]
        for r in rows:
            for j in range(1, nd):
                if rng.random() < 0.1:
                    r[j] = None
        frames.append(dict(cols=cols, rows=rows))
        bodies.append({})
        headers.append([dict(text=[f"HD{s}c{j}" for j in range(nd)])] if rng.random() < 0.6 else [None])
        base += n
    spec = dict(kind="multi", df=frames, body=bodies, headers=headers, page=dict(nrow=rng.randint(4, 30)),
                footnote=dict(text="FTNOTE") if rng.random() < 0.4 else None)
    info = dict(strategy="multi", header_mode="multi", n=base, model=False, page_by=None, subline_by=None,
                expect=[[docgen.display(v) for v in r] for f in frames for r in f["rows"]])
    return spec, info


NAME_STRATEGIES = ["page_by", "page_by", "page_by_np_first", "subline", "subline", "subline_page_by", "page_by_np",
                   "plain"]


def gen_names(rng, k):
    """single-section document whose columns — data columns and page_by / subline_by columns — carry names of the
    edge family (laygen.edge_names): under every strategy, with and without column removal, one column up to all
    columns renamed, the frame's columns in generator order or permuted"""
    spec, info = laygen.gen_spec(rng, strategy=rng.choice(NAME_STRATEGIES), n=rng.randint(1, 30),
                                 dividers=(k % 4 == 0), nulls=0.0,
                                 header_mode=rng.choice(["default", "default", "default", "explicit", "none",
                                                         "no_colheader", "explicit2"]))
    convert_off = rng.random() < 0.3
    if convert_off:
        spec["body"]["text_convert"] = False
    mutate_cells(rng, spec, info, convert_off)
    laygen.edge_names(rng, spec, info, permute=rng.random() < 0.5)
    cols = spec["df"]["cols"]
    di = [cols.index(c) for c in info["displayed"]]
    info["expect"] = [[docgen.display(r[c]) for c in di] for r in spec["df"]["rows"]]
    return spec, info


def gen_multi_names(rng):
    """multi-section document: sections with page_by (spanning rows) / subline_by / neither, the removed column
    anywhere among the columns, column names of the edge family (the same odd name may recur in several sections);
    headers explicit, absent, or auto-populated from the names"""
    nsec = rng.randint(2, 3)
    frames, bodies, headers, expect, name_rows = [], [], [], [], []
    base = 0
    labels = ["names-doc", "names-multi-doc"]
    auto = rng.random() < 0.4
    for s in range(nsec):
        n = rng.randint(1, 10)
        nd = rng.randint(1, 3)
        mode = rng.choice(["page_by", "page_by", "subline", "subline", "none"])
        key = {"page_by": "PB0", "subline": "SL0"}.get(mode)
        pos = rng.randint(0, nd) if key else None
        cols = [f"S{s}COL{j}" for j in range(nd)]
        if key:
            cols.insert(pos, key)
        ncols = len(cols)
        data_idx = [c for c in range(ncols) if cols[c] != key]
        keys = docgen.run_keys(rng, n, [("G0" if mode == "page_by" else "SB") + x for x in "abcd"], 1, 4) if key else None
        rows = []
        for i in range(n):
            row = []
            for c in range(ncols):
                if cols[c] == key:
                    row.append(keys[i])
                    continue
                j = data_idx.index(c)
                row.append(None if (j > 0 and rng.random() < 0.1) else f"r{base + i}c{j}")
            rows.append(row)
        # names: every column with probability 0.6, at least one
        chosen = [c for c in range(ncols) if rng.random() < 0.6] or [rng.randrange(ncols)]
        cell_named = False
        for c in chosen:
            current = [x for jj, x in enumerate(cols) if jj != c]
            cells = [] if cell_named else sorted({r[jj] for r in rows[:4] for jj in range(ncols) if jj != c and r[jj]})
            for _ in range(20):
                kind, name = laygen.draw_name(rng, current, cells, raw_ok=not auto, long_max=150)
                if name not in current and not laygen.name_collides(kind, name, rows):
                    break
            else:
                continue
            where = ("data" if cols[c] != key else mode + "-removed")
            labels.append(f"name:{kind}@{where}")
            if kind in ("selector-all", "selector-regex", "regex-of-other") and cols[c] != key and key:
                labels.append("names:selector-like-displayed-with-removal:multi")
            cell_named = cell_named or kind == "cell-value"
            if cols[c] == key:
                key = name
            cols[c] = name
        frames.append(dict(cols=cols, rows=rows))
        body = {}
        if mode == "page_by":
            body["page_by"] = [key]
        elif mode == "subline":
            body["subline_by"] = [key]
        bodies.append(body)
        headers.append([dict(text=[f"HD{s}c{j}" for j in range(nd)])] if rng.random() < 0.6 else [None])
        name_rows.append([cols[c] for c in data_idx])
        expect += [[docgen.display(r[c]) for c in data_idx] for r in rows]
        base += n
    spec = dict(kind="multi", df=frames, body=bodies, headers="default" if auto else headers,
                page=dict(nrow=rng.randint(6, 30)), footnote=dict(text="FTNOTE") if rng.random() < 0.4 else None)
    info = dict(strategy="multi", header_mode="multi-auto" if auto else "multi", n=base, model=False, page_by=None,
                subline_by=None, expect=expect, name_headers=name_rows if auto else [],
                labels=sorted(set(labels)))
    return spec, info


SHARED_MODES = ["page_by", "page_by", "page_by", "page_by2", "page_by_np_first", "page_by_np", "subline", "subline",
                "subline_page_by", "none"]


def _shared_body(rng, mode, ncols, widths):
    """the kwargs of one RTFBody that several sections may be given (the very same object, docgen "share")"""
    body = {}
    if mode in ("page_by", "page_by_np_first", "page_by_np", "subline_page_by"):
        body["page_by"] = ["PB0"]
    elif mode == "page_by2":
        body["page_by"] = ["PB0", "PB1"]
    if mode in ("subline", "subline_page_by"):
        body["subline_by"] = ["SL0"]
    if mode in ("page_by_np_first", "page_by_np"):
        body["new_page"] = True
    if mode == "page_by_np_first":
        body["pageby_row"] = "first_row"
    if widths == "explicit":
        # one entry per frame column: RTFDocument keeps the caller's object (nothing to resolve)
        body["col_rel_width"] = [rng.choice([1, 1, 2, 1.5, 3]) for _ in range(ncols)]
    elif widths == "one":
        body["col_rel_width"] = [1]          # resolved per section into a copy, unless the frame has one column
    if rng.random() < 0.35:
        # attributes given per frame column bind by POSITION, whatever column sits there in a section's frame
        body["text_justification"] = [rng.choice(["l", "c", "r"]) for _ in range(ncols)]
    if rng.random() < 0.25:
        body["text_format"] = [rng.choice(["", "b", "i"]) for _ in range(ncols)]
    if rng.random() < 0.3:
        body["pageby_header"] = rng.random() < 0.5
    return body


def _keys_for(rng, n, keycols):
    """contiguous hierarchical group values for the key columns (outer first) → {column: values}"""
    out = {}
    outer = None
    for kc in keycols:
        alpha = [("SB" if kc.startswith("SL") else f"G{kc[2:]}") + x for x in "abcd"]
        if outer is None:
            vals = docgen.run_keys(rng, n, alpha, 1, 4)
        else:
            vals, i = [], 0
            while i < n:
                j = i
                while j < n and outer[j] == outer[i]:
                    j += 1
                vals += docgen.run_keys(rng, j - i, alpha, 1, 3)
                i = j
        out[kc] = vals
        outer = vals if outer is None else [a + "|" + b for a, b in zip(outer, vals)]
    return out


def gen_multi_shared(rng):
    """multi-section document whose sections are given SHARED component objects: one RTFBody object for two or more
    sections (adjacent or not; with a full-length col_rel_width the document keeps the caller's object, with none / a
    one-element one it stores per-section copies), one list of RTFColumnHeader objects for several sections — while
    every section has its OWN frame: the page_by / subline_by columns sit anywhere among the frame's columns,
    independently per section (frames of equal shape with the key column at another position, equal shape and equal
    order, different row counts, different column counts), the data columns carry the same names in another order or
    names of their own.  Every strategy that removes columns (page_by shown as spanning rows, one or two levels,
    new_page + first_row, subline_by, subline_by + page_by) and the ones that do not (new_page + column, none)."""
    nsec = rng.choice([2, 2, 3, 3, 4])
    # body groups: sections → group; at least one group of two or more sections
    ngroups = rng.randint(1, max(1, nsec - 1))
    gof = [rng.randrange(ngroups) for _ in range(nsec)]
    if max(gof.count(g) for g in set(gof)) < 2:
        gof[rng.randrange(1, nsec)] = gof[0]
    groups = {}
    for g in sorted(set(gof)):
        mode = rng.choice(SHARED_MODES)
        keycols = {"page_by2": ["PB0", "PB1"], "subline": ["SL0"], "subline_page_by": ["SL0", "PB0"],
                   "none": []}.get(mode, ["PB0"])
        nd = rng.randint(1, 3)
        widths = rng.choice(["explicit", "explicit", "explicit", "none", "one"])
        groups[g] = dict(mode=mode, keycols=keycols, nd=nd, widths=widths, n=rng.randint(1, 8),
                         body=_shared_body(rng, mode, nd + len(keycols), widths),
                         common_names=rng.random() < 0.5, first=None, order0=None,
                         header=rng.choice(["explicit", "explicit", "own-widths", "none"]),
                         share_header=rng.random() < 0.6)
    auto = rng.random() < 0.25
    frames, bodies, headers, expect, name_rows = [], [], [], [], []
    share_b, share_h = [], []
    labels = {"shared-doc"}
    base = 0
    shapes = {}
    for s in range(nsec):
        G = groups[gof[s]]
        mode, keycols, nd = G["mode"], G["keycols"], G["nd"]
        n = G["n"] if rng.random() < 0.65 else rng.randint(1, 10)
        if G["widths"] == "none" and not any(isinstance(v, list) and k.startswith("text_") for k, v in G["body"].items()) \
                and rng.random() < 0.3:
            nd = rng.randint(1, 3)         # nothing of the body is given per column: the column count may differ too
        removed = [] if mode in ("page_by_np", "none") else list(keycols)
        # the frame's columns: data columns (the group's names in this section's order, or names of its own), the key
        # columns anywhere among them — or, one time in six, exactly the order of the group's first section
        names = [f"COL{j}" for j in range(nd)] if G["common_names"] else [f"S{s}COL{j}" for j in range(nd)]
        if G["common_names"]:
            rng.shuffle(names)
        cols = list(names)
        for kc in rng.sample(keycols, len(keycols)):
            cols.insert(rng.randint(0, len(cols)), kc)
        if G["order0"] is not None and len(G["order0"]) == len(cols) and rng.random() < 0.17:
            cols = [c if c in keycols else None for c in G["order0"]]
            it = iter(names)
            cols = [c if c is not None else next(it) for c in cols]
        if G["order0"] is None:
            G["order0"] = list(cols)
        keyvals = _keys_for(rng, n, keycols)
        data_idx = [c for c in range(len(cols)) if cols[c] not in keycols]
        rows = []
        for i in range(n):
            row = []
            for c, name in enumerate(cols):
                if name in keycols:
                    row.append(keyvals[name][i])
                    continue
                j = data_idx.index(c)
                row.append(None if (j > 0 and rng.random() < 0.1) else f"r{base + i}c{j}")
            rows.append(row)
        frames.append(dict(cols=cols, rows=rows))
        bodies.append(G["body"])
        shown = [c for c in range(len(cols)) if cols[c] not in removed]
        expect += [[docgen.display(r[c]) for c in shown] for r in rows]
        name_rows.append([cols[c] for c in shown])
        # shared objects
        if G["first"] is None:
            G["first"] = s
        share_b.append(G["first"])
        g = gof[s]
        if G["header"] == "none" or auto:
            headers.append([None])
            share_h.append(s)
        else:
            h = dict(text=[f"HD{g}c{j}" for j in range(len(shown))])
            if G["header"] == "own-widths":
                h["col_rel_width"] = [1] * len(shown)     # a header with its own widths is kept by reference too
            same = [t for t in range(s) if gof[t] == g and share_h[t] == t and headers[t] == [h]]
            if same and G["share_header"]:
                headers.append(headers[same[0]])      # (the same spec object too: later edits reach every user)
                share_h.append(same[0])
            else:
                headers.append([h])
                share_h.append(s)
        # what the sections of one body look like to each other
        key_pos = tuple(cols.index(kc) for kc in keycols)
        for (n0, nc0, kp0, s0) in shapes.get(g, []):
            if not removed:
                rel = "no-removal"
            elif (n0, nc0) == (n, len(cols)):
                rel = "same-shape-key-moved" if kp0 != key_pos else "same-shape-same-key-position"
            else:
                rel = "different-shape-key-moved" if kp0 != key_pos else "different-shape"
            labels.add("shared-body-frames:" + rel)
            if s - s0 > 1 and any(gof[t] != g for t in range(s0 + 1, s)):
                labels.add("shared-body:non-adjacent-sections")
        shapes.setdefault(g, []).append((n, len(cols), key_pos, s))
        base += n
    for g, G in groups.items():
        users = gof.count(g)
        if users >= 2:
            kept = G["widths"] == "explicit" or (G["widths"] == "one" and G["nd"] + len(G["keycols"]) == 1)
            labels.update({f"shared-body-mode:{G['mode']}", f"shared-body-widths:{G['widths']}",
                           "shared-body:" + ("document-keeps-the-object" if kept else "document-stores-copies"),
                           "shared-body-names:" + ("same-names" if G["common_names"] else "own-names")})
    spec = dict(kind="multi", df=frames, body=bodies, headers="default" if auto else headers,
                share=dict(body=share_b, headers=None if auto else share_h),
                page=dict(nrow=rng.randint(6, 30)), footnote=dict(text="FTNOTE") if rng.random() < 0.4 else None)
    labels.update(docgen.share_labels(spec))
    info = dict(strategy="multi", header_mode="multi-auto" if auto else "multi", n=base, model=False, page_by=None,
                subline_by=None, expect=expect, name_headers=name_rows if auto else [], labels=sorted(labels))
    return spec, info


# ----------------------------------------------------------------------------- cell texts beyond ASCII
# Data cells and page_by / subline_by values with characters at and around every range boundary a text writer decides
# on (harness/unitext.py): 7-bit / one byte / signed 16-bit / surrogate block / one UTF-16 unit or a pair / which
# surrogate / the last code point, plus random BMP and astral characters.  The reader decodes \uN escapes (negative
# values, surrogate pairs) back to code points, so the oracle compares every cell with the value's display text exactly.

UNI_STRATEGIES = ["plain", "plain", "page_by", "page_by_np", "page_by_np", "page_by_np_first", "subline", "subline_page_by"]


def _fit(text, fallback, cw):
    """`text` if it stays well inside one line of a column cw inches wide (the layout model's line estimate is not the
    subject here), else the fallback"""
    return text if laygen.measure(text) <= 0.7 * cw else fallback


def _uni_convert(rng, ncols):
    """text_convert of a document of the class: on (the default), off, or a per-column vector — the texts are
    conversion-neutral, so every cell reads back verbatim under each"""
    r = rng.random()
    if r < 0.45:
        return None, "on"
    if r < 0.75:
        return False, "off"
    return [rng.random() < 0.5 for _ in range(ncols)], "per-column"


def _uni_keys(rng, rows, key_idx, shown, cw, labels):
    """give distinct values of the key columns a suffix of the family — the same value gets the same suffix, so the
    groups (and their contiguity) are exactly the ones drawn; '-----' stays the divider"""
    for j in key_idx:
        if rng.random() < 0.4:
            continue
        suffix = {}
        for r in rows:
            v = r[j]
            if not isinstance(v, str) or v == "-----":
                continue
            if v not in suffix:
                suffix[v] = ""
                if rng.random() < 0.7:
                    shape, t = unitext.draw_text(rng, v, kmax=2)
                    t = _fit(t, v + unitext.boundary_char(rng), cw) if j in shown else t
                    suffix[v] = t[len(v):]
                    labels.add("unicode-key:" + ("displayed-cell" if j in shown else "removed-column"))
                    labels.update("unicode-key-cp:" + c for c in unitext.classes(t))
            r[j] = v + suffix[v]


def _uni_cells(rng, rows, data_idx, cw, labels, tag_of, sweep=None):
    """rewrite data cells (frame column indices data_idx; the first keeps its sentinel in front) with texts of the
    family.  `sweep` = one boundary point per row: the second data column holds it alone, the third between ASCII."""
    nd = len(data_idx)
    kinds = ["tag+uni" if rng.random() < 0.6 else "tag"]
    kinds += [rng.choice(["uni", "uni", "uni", "uni-tagged", "tag", "int"]) for _ in range(nd - 1)]
    if sweep is not None and nd >= 2:
        kinds[1] = "sweep-bare"
        if nd >= 3:
            kinds[2] = "sweep-between"
    for i, r in enumerate(rows):
        for j, kind in enumerate(kinds):
            cj = data_idx[j]
            tag = tag_of(i, j)
            if isinstance(r[cj], str) and " " in r[cj].strip():
                continue  # a long (multi-line) text stays
            if kind.startswith("sweep"):
                ch = chr(sweep[i % len(sweep)])
                r[cj] = ch if kind == "sweep-bare" else "x" + ch + "y"
                labels.update("unicode-cp:" + c for c in unitext.classes(ch))
                continue
            if j > 0 and rng.random() < 0.08:
                r[cj] = None
                continue
            if kind == "int":
                r[cj] = rng.randint(-999, 99999)
                continue
            if kind == "tag" or rng.random() < 0.2:
                continue
            keep_tag = j == 0 or kind == "uni-tagged" or rng.random() < 0.3
            shape, t = unitext.draw_text(rng, tag if keep_tag else None)
            fb = (tag if keep_tag else "") + unitext.boundary_char(rng)
            t = _fit(t, fb, cw)
            r[cj] = t
            labels.add("unicode-cell:" + (shape if t is not fb else "tag+" if keep_tag else "bare"))
            labels.update("unicode-cp:" + c for c in unitext.classes(t))
    return kinds


def gen_unicode(rng, k):
    """single-section document under every strategy whose data cells — and page_by / subline_by values, displayed as
    cells (new_page + pageby_row='column') or removed from the table — hold non-ASCII text of the boundary family.
    Every fifth document is a *sweep*: one row per boundary point (all of unitext.BOUNDARY_POINTS, shuffled), the
    character alone in a cell and between ASCII in another."""
    sweep = None
    kw = dict(strategy=rng.choice(UNI_STRATEGIES), n=rng.randint(1, 40))
    if k % 5 == 0:
        sweep = list(unitext.BOUNDARY_POINTS)
        rng.shuffle(sweep)
        kw = dict(strategy=UNI_STRATEGIES[(k // 5) % len(UNI_STRATEGIES)], n=len(sweep), ndata=rng.randint(3, 4),
                  long_rows=False, nrow=rng.randint(8, 30))
    spec, info = laygen.gen_spec(rng, dividers=(k % 4 == 0), nulls=0.0, **kw)
    cols = spec["df"]["cols"]
    rows = spec["df"]["rows"]
    first = len(info["hier"])
    labels = {"unicode-doc"} | ({"unicode-sweep-doc"} if sweep else set())
    tc, how = _uni_convert(rng, len(cols))
    if tc is not None:
        spec["body"]["text_convert"] = tc
    labels.add("unicode-convert:" + how)
    cw = info["col_total"] / len(info["displayed"])
    shown = {cols.index(c) for c in info["displayed"]}
    info["kinds"] = _uni_cells(rng, rows, list(range(first, len(cols))), cw, labels, lambda i, j: f"r{i}c{j}", sweep)
    _uni_keys(rng, rows, list(range(first)), shown, cw, labels)
    di = [cols.index(c) for c in info["displayed"]]
    info["expect"] = [[docgen.display(r[c]) for c in di] for r in rows]
    info["labels"] = sorted(labels)
    info["unicode"] = True
    return spec, info


def gen_multi_unicode(rng):
    """multi-section document: sections with page_by (spanning rows) / subline_by / neither, the removed column
    anywhere among the columns, data cells and group values of the boundary family"""
    nsec = rng.randint(2, 3)
    frames, bodies, headers, expect = [], [], [], []
    base = 0
    labels = {"unicode-doc", "unicode-multi-doc"}
    for s in range(nsec):
        n = rng.randint(1, 10)
        nd = rng.randint(1, 3)
        mode = rng.choice(["page_by", "page_by", "subline", "none", "none"])
        key = {"page_by": "PB0", "subline": "SL0"}.get(mode)
        cols = [f"S{s}COL{j}" for j in range(nd)]
        if key:
            cols.insert(rng.randint(0, nd), key)
        ncols = len(cols)
        data_idx = [c for c in range(ncols) if cols[c] != key]
        keys = docgen.run_keys(rng, n, [("G0" if mode == "page_by" else "SB") + x for x in "abcd"], 1, 4) if key else None
        rows = [[keys[i] if cols[c] == key else f"r{base + i}c{data_idx.index(c)}" for c in range(ncols)]
                for i in range(n)]
        cw = 6.25 / nd
        _uni_cells(rng, rows, data_idx, cw, labels, lambda i, j, b=base: f"r{b + i}c{j}")
        if key:
            _uni_keys(rng, rows, [cols.index(key)], set(), cw, labels)
        frames.append(dict(cols=cols, rows=rows))
        body = {}
        tc, how = _uni_convert(rng, ncols)
        if tc is not None:
            body["text_convert"] = tc
        labels.add("unicode-convert:" + how)
        if mode == "page_by":
            body["page_by"] = [key]
        elif mode == "subline":
            body["subline_by"] = [key]
        bodies.append(body)
        headers.append([dict(text=[f"HD{s}c{j}" for j in range(nd)])] if rng.random() < 0.6 else [None])
        expect += [[docgen.display(r[c]) for c in data_idx] for r in rows]
        base += n
    spec = dict(kind="multi", df=frames, body=bodies, headers=headers, page=dict(nrow=rng.randint(6, 30)),
                footnote=dict(text="FTNOTE") if rng.random() < 0.4 else None)
    info = dict(strategy="multi", header_mode="multi", n=base, model=False, page_by=None, subline_by=None,
                expect=expect, labels=sorted(labels), unicode=True)
    return spec, info


_KEYVAL = re.compile(r"^((?:G\d+|SB)[a-z]\d*)")


def _plain_text_steps(case):
    """simpler variants of a failing document of the non-ASCII text class (info['expect'] kept consistent)"""
    import copy

    cols = case["spec"]["df"]["cols"]
    first = len(case["info"]["hier"])
    n = len(case["spec"]["df"]["rows"])

    def variant(cells):
        c = copy.deepcopy(case)
        rows = c["spec"]["df"]["rows"]
        changed = False
        for i, j in cells:
            v = rows[i][j]
            if not isinstance(v, str) or v.isascii() and "\x7f" not in v:
                continue
            if j >= first:
                w = f"r{i}c{j - first}"
            else:
                m = _KEYVAL.match(v)
                if not m:
                    continue
                w = m.group(1)
            rows[i][j] = w
            changed = True
        if not changed:
            return None
        di = [cols.index(x) for x in c["info"]["displayed"]]
        c["info"]["expect"] = [[docgen.display(r[x]) for x in di] for r in rows]
        return c

    steps = [[(i, j) for i in range(n - 1) for j in range(first, len(cols))],
             [(i, j) for i in range(n) for j in range(first)]]
    steps += [[(n - 1, j)] for j in range(first, len(cols))]
    for cells in steps:
        cand = variant(cells)
        if cand is not None:
            yield cand


class C02(layfamily.Family):
    prop, tag = "C02", "c02"
    cross_shared = 0.3       # crosscorr: + 30 % documents of the shared-component class (encodecorr2.gen_multi_shared2)

    def nbase(self, tier):
        return 320 if tier == "quick" else 5000

    def nmixed(self, tier):
        # the documents after the first nbase are the per-column / per-cell text_convert class
        return self.nbase(tier) + (160 if tier == "quick" else 2000)

    def nnames(self, tier):
        # … and the documents after those are the edge-column-name class
        return self.nmixed(tier) + (240 if tier == "quick" else 3000)

    def nshared(self, tier):
        # … and the documents after those are the shared-component class (one RTFBody / header list for several sections)
        return self.nnames(tier) + (160 if tier == "quick" else 2000)

    def ndocs(self, tier):
        # … and the documents after those are the non-ASCII cell text class (harness/unitext.py)
        return self.nshared(tier) + (200 if tier == "quick" else 2500)

    def gen(self, rng, k, tier):
        if k >= self.nshared(tier):
            return gen_multi_unicode(rng) if k % 5 == 4 else gen_unicode(rng, k)
        if k >= self.nnames(tier):
            return gen_multi_shared(rng)
        if k >= self.nmixed(tier):
            return gen_multi_names(rng) if k % 6 == 5 else gen_names(rng, k)
        if k >= self.nbase(tier):
            return gen_multi_mixed(rng) if k % 8 == 7 else gen_mixed(rng, k)
        if k % 9 == 8:
            return gen_multi(rng)
        convert_off = rng.random() < 0.3
        spec, info = laygen.gen_spec(rng, dividers=(k % 4 == 0), nulls=0.0)
        if convert_off:
            spec["body"]["text_convert"] = False
        mutate_cells(rng, spec, info, convert_off)
        cols = spec["df"]["cols"]
        di = [cols.index(c) for c in info["displayed"]]
        info["expect"] = [[docgen.display(r[c]) for c in di] for r in spec["df"]["rows"]]
        return spec, info

    def oracle(self, spec, info, ob):
        fails = []
        seq = []
        for pno, (blocks, raws) in enumerate(zip(ob["pages"], ob["_raw"])):
            for b, raw in zip(blocks, raws):
                if b[0] == "data":
                    seq.append(b[1])
                    texts = [rtfread.para_text(c) for c in raw.cells]
                    exp = info["expect"][b[1]] if b[1] < len(info["expect"]) else None
                    if exp is None:
                        fails.append(f"page {pno + 1}: a data row with unknown index {b[1]} is rendered")
                    elif texts != exp:
                        fails.append(f"row {b[1]} on page {pno + 1}: rendered cells {texts} != display texts {exp}")
                elif b[0] in ("data-untagged", "unknown-row", "unknown-para"):
                    fails.append(f"page {pno + 1}: unidentifiable block {b}")
        n = info["n"]
        if seq != list(range(n)):
            lost = sorted(set(range(n)) - set(seq))
            dup = sorted({x for x in seq if seq.count(x) > 1})
            fails.insert(0, f"data rows over all pages are {seq[:60]}… expected 0..{n - 1} once each in order "
                            f"(lost={lost[:10]}, duplicated={dup[:10]})")
        return fails

    def project(self, pages, info):
        return [[b[1] for b in p if b[0] == "data"] for p in pages]

    def shrink_steps(self, case):
        """a failing document with edge column names: one name at a time put back to its sentinel name"""
        for name in list((case["info"].get("colnames") or {})):
            cand = laygen.unname(case, name)
            if cand is not None:
                yield cand
        spec = case["spec"]
        if case["info"].get("unicode") and spec.get("kind", "table") == "table":
            # a document of the non-ASCII text class: the rows before the last one back to their sentinels, then the
            # group values, then the last row's cells one at a time
            yield from _plain_text_steps(case)
        if spec.get("kind") == "multi" and spec.get("share") and len(spec["df"]) > 2:
            # a document of the shared-component class: the same document without its last section
            import copy

            c = copy.deepcopy(case)
            sp, inf = c["spec"], c["info"]
            m = len(sp["df"][-1]["rows"])
            sp["df"].pop()
            sp["body"].pop()
            if isinstance(sp["headers"], list):
                sp["headers"].pop()
            for sh in sp["share"].values():
                if sh is not None:
                    sh.pop()
            inf["n"] -= m
            inf["expect"] = inf["expect"][:inf["n"]]
            if inf.get("name_headers"):
                inf["name_headers"] = inf["name_headers"][:len(sp["df"])]
            yield c

    def cross_prepare(self, spec, info):
        """documents of the whole-encoder class (harness/crosscorr.py): the display texts of the displayed columns"""
        if spec.get("kind", "table") != "table" or not isinstance(spec.get("df"), dict):
            return None
        info = dict(info)
        cols = spec["df"]["cols"]
        di = [cols.index(c) for c in info["displayed"]]
        info["expect"] = [[docgen.display(r[c]) for c in di] for r in spec["df"]["rows"]]
        return info

    def cross_extra(self, spec, info, ob):
        """the text of every data cell, by row index (group_by blanks and converted texts included: they are the same
        on the model's text)"""
        return [[b[1], [rtfread.para_text(c) for c in raw.cells]]
                for blocks, raws in zip(ob["pages"], ob["_raw"]) for b, raw in zip(blocks, raws) if b[0] == "data"]

    def nontrivial(self, spec, info, ob):
        if len(ob["pages"]) >= 2:
            return [info["strategy"], info.get("nrow"), str(self.project(ob["pages"], info))[:200]]
        return None


FAM = C02()


# ----------------------------------------------------------------------------- the same document encoded again

def _edit(rng, spec, info):
    """one edit of the document's data or settings → (kind, spec after the edit, info after the edit, how to apply it
    to the live RTFDocument).  Every edit keeps the sentinel tags and the contiguity of the group keys."""
    import copy

    spec2, info2 = copy.deepcopy(spec), copy.deepcopy(info)
    cols = spec["df"]["cols"]
    rows = spec2["df"]["rows"]
    n = len(rows)
    first = len(info["hier"])
    kind = rng.choice(["extend", "extend", "set_cell", "set_cell", "replace_frame", "nrow", "none"])
    if n == 0 and kind in ("set_cell", "extend", "replace_frame"):
        kind = "nrow"          # (an empty frame has no row whose group keys the new rows could continue)
    ops = []
    if kind in ("extend", "replace_frame"):
        m = rng.randint(1, 6)
        last = rows[-1] if rows else None
        new = []
        for i in range(n, n + m):
            r = [f"r{i}c{j - first}" if j >= first else (last[j] if last is not None else f"G{j}a")
                 for j in range(len(cols))]
            new.append(r)
        rows.extend(new)
        info2["n"] = n + m
        ops.append(dict(op=kind, rows=new if kind == "extend" else rows))
    elif kind == "set_cell":
        for _ in range(rng.randint(1, 3)):
            i = rng.randrange(n)
            j = rng.randrange(first, len(cols))
            tag = f"r{i}c{j - first}"
            v = tag + rng.choice([" (corrected)", "x", " 2nd", ""])
            rows[i][j] = v
            ops.append(dict(op="set_cell", i=i, col=cols[j], v=v))
    elif kind == "nrow":
        spec2["page"]["nrow"] = max(4, int(spec["page"].get("nrow", 40)) + rng.choice([-3, 5, 11]))
        info2["nrow"] = spec2["page"]["nrow"]
        ops.append(dict(op="nrow", v=spec2["page"]["nrow"]))
    di = [cols.index(c) for c in info2["displayed"]]
    info2["expect"] = [[docgen.display(r[c]) for c in di] for r in rows]
    return kind, spec2, info2, ops


def _apply(doc, spec2, ops):
    import polars as pl

    for o in ops:
        if o["op"] == "extend":
            # polars' in-place append on the very frame object the document holds
            doc.df.extend(docgen.make_frame(dict(cols=spec2["df"]["cols"], rows=o["rows"])).cast(doc.df.schema))
        elif o["op"] == "set_cell":
            doc.df[o["i"], o["col"]] = o["v"]              # in-place cell assignment
        elif o["op"] == "replace_frame":
            doc.df = docgen.make_frame(spec2["df"])
        elif o["op"] == "nrow":
            doc.rtf_page.nrow = o["v"]


def _reencode_worker(args):
    seed, k, fixed = args
    try:
        import contextlib
        import io

        from .. import crosscorr

        if fixed is not None:
            spec, info, kind, spec2, info2, ops = (fixed[x] for x in ("spec", "info", "edit", "spec2", "info2", "ops"))
        else:
            rng = common.sub_rng(seed, "c02re", k)
            spec, info = laygen.gen_spec(rng, nulls=0.0, long_rows=False)
            for r in spec["df"]["rows"]:                     # string cells only: the edits assign strings
                for j, v in enumerate(r):
                    r[j] = v if (v is None or isinstance(v, str)) else str(v)
            kind, spec2, info2, ops = _edit(rng, spec, info)
        case = dict(level="re-encode", spec=spec, info=info, edit=kind, spec2=spec2, info2=info2, ops=ops)
        with contextlib.redirect_stdout(io.StringIO()):
            doc = docgen.build(spec)
            try:
                doc.rtf_encode()
                _apply(doc, spec2, ops)
                second = doc.rtf_encode()
            except Exception as e:  # noqa: BLE001
                return dict(case=case, fails=[f"encoding the document again after the edit raised {type(e).__name__}: {e}"[:300]])
            fresh = docgen.build(spec2).rtf_encode()
        ob = crosscorr.observe_text(second, info2)
        fails = FAM.oracle(spec2, info2, ob)
        return dict(case=case, fails=[f"after {kind} and a second rtf_encode() of the same document: {f}" for f in fails],
                    same_as_fresh=(second == fresh), pages=len(ob["pages"]))
    except Exception:  # noqa: BLE001
        import traceback

        return dict(machinery=traceback.format_exc()[-1500:])


def run_reencode(res):
    """the document is encoded, its data (in place: polars `extend`, cell assignment; or a new frame) or its page
    setting is edited, and the SAME document object is encoded again: the second text must show the frame as it is
    now — rows once each in order, every cell's display text"""
    n = 60 if res.tier == "quick" else 600
    outs = common.pool_map(_reencode_worker, [(res.seed, k, None) for k in range(n)], chunksize=4)
    for o in outs:
        if "machinery" in o:
            raise common.MachineryError("worker failed: " + o["machinery"])
        res.case(o["case"], ("re-encode", o["case"]["edit"], o.get("pages")) if o.get("pages", 0) >= 2 else None)
        res.count("re-encode:" + o["case"]["edit"])
        for f in o["fails"][:1]:
            res.fail(o["case"], f)
        if not o["fails"]:
            res.corr_checked += 1
            if not o.get("same_as_fresh", True):
                res.disagree(o["case"], "the second encode of the edited document differs from the encode of a fresh "
                                        "document built from the edited data (the layout model is a function of the "
                                        "document's current value)")


FAM.extra_streams = run_reencode


def run(res, build):
    return layfamily.run_family(
        FAM, res, build, RULE, layfamily.TRUSTED_COMMON, layfamily.ASSUME_COMMON,
        explanation="C02_pages_structure / C02_rows_once_in_order / C02_row_on_its_page hold for every LDoc (any "
                    "row count, nrow, keys, flags); cell-level clauses C02_kept_cols_order / C02_row_cells for every "
                    "column list; C02encflag_cell_own_flag / C02encflag_off_verbatim: per-column / per-cell "
                    "text_convert binds to the cell's original position; C02encnames_removedIdx / C02encnames_rows: "
                    "the encoder model resolves the page_by / subline_by names to column POSITIONS once (keepMask / "
                    "dropCols work with indices only), so the rendered rows are the same under every injective "
                    "renaming of the columns — a name such as '*' or '^x$' is a name like any other. "
                    "C02encshare_removed_own / _removed_local / _same_body / _rows: the positions removed from a section "
                    "of a list document are those of its body's page_by / subline_by names in its OWN column list — the "
                    "same wherever the section stands, also when another section has the same body and other positions. "
                    "Multi-section documents are covered by the "
                    "observation oracle only (the layout model is single-section; each section runs the same pipeline).")


def replay(payload):
    case = payload.get("case") or {}
    if case.get("level") == "re-encode":
        o = common.pool_map(_reencode_worker, [(0, 0, case)] * 4)[0]
        if "machinery" in o:
            print(o["machinery"])
            return 2
        print("edit:", case.get("edit"), case.get("ops"))
        for f in o["fails"]:
            print("FAIL:", f)
        if o["fails"]:
            print("VIOLATION property=C02 replay=<given>")
            return 1
        if not o.get("same_as_fresh", True):
            print("the second encode differs from a fresh document's encode; no clause of C02 fails on it")
            print("VIOLATION property=C02 replay=<given> no-failing-input-found")
            return 1
        print("property holds on this input")
        return 0
    return layfamily.replay_family(FAM, payload)
