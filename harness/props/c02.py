"""C02 — no data cell is lost, duplicated, reordered or altered.

Theorems: lean/Props/C02.lean about `Model.Layout.layout` (pages partition the rows in order; cumulative
re-slicing lands on the strategy's slices; removed columns).
Tie: whole documents through `rtf_encode()`; every data cell carries a sentinel, so rows are identified in
the real output without trusting the layout.  Oracle (independent of the model): concatenating the data rows
of all pages gives rows 0..n-1 once each in order, every rendered cell's text equals the display text of the
value, exactly the displayed columns are rendered in their original order.  Correspondence: the sequence
of data-row indices per page of the Lean layout equals the observed one.
"""
from __future__ import annotations

import string

from .. import common, docgen, laygen, layfamily, rtfread

MANIFEST = dict(
    text="Lean theorems over the layout model (pagination + per-page slices + cumulative re-slicing + page "
         "rendering): the data rows of all pages concatenated are exactly rows 0..n-1 in order for every table, "
         "nrow, strategy and key sequence; every row sits on the page the pagination assigned to it; removed "
         "columns are exactly subline_by and (when spanning rows are shown) page_by, the rest keep their order. "
         "Tied to the code on every run by observation of sentinel-tagged documents (single- and multi-section).",
    note="Cell text equality is checked on the observation (reader decodes the bytes); that the escaper's bytes "
         "decode to the text is C10's theorem. str() of values, polars slicing and pydantic are parameters.",
    technique="Lean 4 proof (partition of rows by monotone page numbers) + observation-level correspondence",
    design="7/C02",
)

RULE = ("seeded tagged tables (0..45 rows, 1..4 data columns incl. padded and blank-only strings, ints, floats with exponent/nan/inf forms, booleans, nulls) under every "
        "pagination strategy, header/footnote/source variant, text_convert on/off; plus multi-section documents; "
        "non-trivial = ≥ 2 pages; distinct by (strategy, nrow, rows per page)")

SAFE_OFF = "".join(c for c in string.printable[:94] if c not in "\\{}")  # printable ASCII without \ { }


def mutate_cells(rng, spec, info, convert_off):
    """turn some data columns into ints / floats / padded strings / nulls (column 0 keeps its tag)"""
    cols = spec["df"]["cols"]
    first = len(info["hier"])
    nd = info["ndata"]
    kinds = ["tag"] + [rng.choice(["tag", "pad", "int", "float", "tag", "free", "bool", "float"]) for _ in range(nd - 1)]
    for j, kind in enumerate(kinds):
        cj = first + j
        for i, r in enumerate(spec["df"]["rows"]):
            if isinstance(r[cj], str) and " " in r[cj].strip():
                continue  # a long (multi-line) text stays
            if j > 0 and rng.random() < 0.12:
                r[cj] = None
            elif j > 0 and rng.random() < 0.06:
                r[cj] = " " * rng.randint(1, 3)        # a cell made of blanks only is not an empty cell
            elif kind == "pad":
                r[cj] = " " * rng.randint(1, 3) + f"r{i}c{j}" + " " * rng.randint(0, 3)
            elif kind == "int":
                r[cj] = rng.randint(-999, 99999)
            elif kind == "float":
                # values whose str() differs from other renderings of the same number (exponents, nan, inf, -0.0)
                r[cj] = rng.choice([0.5, 1.25, -3.75, 1e-3, 12345.678, 2.0, float(rng.randint(0, 50)), 1e-05, 3.2e-07,
                                    2.5e+16, 1e+22, -0.0, float("nan"), float("inf"), 1 / 3])
            elif kind == "bool":
                r[cj] = rng.random() < 0.5
            elif kind == "free" and convert_off:
                r[cj] = f"r{i}c{j}" + "".join(rng.choice(SAFE_OFF) for _ in range(rng.randint(0, 6)))
    info["kinds"] = kinds


def gen_multi(rng):
    nsec = rng.randint(2, 3)
    frames, bodies, headers = [], [], []
    base = 0
    for s in range(nsec):
        n = rng.randint(1, 12)
        nd = rng.randint(1, 4)
        cols = [f"S{s}COL{j}" for j in range(nd)]
        rows = [[f"r{base + i}c{j}" for j in range(nd)] for i in range(n)]
        for r in rows:
            for j in range(1, nd):
                if rng.random() < 0.1:
                    r[j] = None
        frames.append(dict(cols=cols, rows=rows))
        bodies.append({})
        headers.append([dict(text=[f"HD{s}c{j}" for j in range(nd)])] if rng.random() < 0.6 else [None])
        base += n
    spec = dict(kind="multi", df=frames, body=bodies, headers=headers, page=dict(nrow=rng.randint(4, 30)),
                footnote=dict(text="FTNOTE") if rng.random() < 0.4 else None)
    info = dict(strategy="multi", header_mode="multi", n=base, model=False, page_by=None, subline_by=None,
                expect=[[docgen.display(v) for v in r] for f in frames for r in f["rows"]])
    return spec, info


class C02(layfamily.Family):
    prop, tag = "C02", "c02"

    def ndocs(self, tier):
        return 320 if tier == "quick" else 5000

    def gen(self, rng, k, tier):
        if k % 9 == 8:
            return gen_multi(rng)
        convert_off = rng.random() < 0.3
        spec, info = laygen.gen_spec(rng, dividers=(k % 4 == 0), nulls=0.0)
        if convert_off:
            spec["body"]["text_convert"] = False
        mutate_cells(rng, spec, info, convert_off)
        cols = spec["df"]["cols"]
        di = [cols.index(c) for c in info["displayed"]]
        info["expect"] = [[docgen.display(r[c]) for c in di] for r in spec["df"]["rows"]]
        return spec, info

    def oracle(self, spec, info, ob):
        fails = []
        seq = []
        for pno, (blocks, raws) in enumerate(zip(ob["pages"], ob["_raw"])):
            for b, raw in zip(blocks, raws):
                if b[0] == "data":
                    seq.append(b[1])
                    texts = [rtfread.para_text(c) for c in raw.cells]
                    exp = info["expect"][b[1]] if b[1] < len(info["expect"]) else None
                    if exp is None:
                        fails.append(f"page {pno + 1}: a data row with unknown index {b[1]} is rendered")
                    elif texts != exp:
                        fails.append(f"row {b[1]} on page {pno + 1}: rendered cells {texts} != display texts {exp}")
                elif b[0] in ("data-untagged", "unknown-row", "unknown-para"):
                    fails.append(f"page {pno + 1}: unidentifiable block {b}")
        n = info["n"]
        if seq != list(range(n)):
            lost = sorted(set(range(n)) - set(seq))
            dup = sorted({x for x in seq if seq.count(x) > 1})
            fails.insert(0, f"data rows over all pages are {seq[:60]}… expected 0..{n - 1} once each in order "
                            f"(lost={lost[:10]}, duplicated={dup[:10]})")
        return fails

    def project(self, pages, info):
        return [[b[1] for b in p if b[0] == "data"] for p in pages]

    def nontrivial(self, spec, info, ob):
        if len(ob["pages"]) >= 2:
            return [info["strategy"], info.get("nrow"), str(self.project(ob["pages"], info))[:200]]
        return None


FAM = C02()


def run(res, build):
    return layfamily.run_family(
        FAM, res, build, RULE, layfamily.TRUSTED_COMMON, layfamily.ASSUME_COMMON,
        explanation="C02_pages_structure / C02_rows_once_in_order / C02_row_on_its_page hold for every LDoc (any "
                    "row count, nrow, keys, flags); cell-level clauses C02_kept_cols_order / C02_row_cells for every "
                    "column list. Multi-section documents are covered by the observation oracle only (the layout "
                    "model is single-section; each section runs the same pipeline).")


def replay(payload):
    return layfamily.replay_family(FAM, payload)
