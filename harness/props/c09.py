"""C09 — cell formatting follows the data cell.

Theorems: lean/Props/C09.lean about `Model.CellAttr.cellAttr` (column removal → page rows → page-relative
iloc) = the attribute at the cell's ORIGINAL (row, column) position, independent of the page partition.
Oracle on the implementation (independent of the model): every tagged data cell of the real output is compared,
attribute by attribute, with `A[r % R][c % C]` of the body attributes at the cell's original position (whatever the
SPELLING of the attribute value: Python scalar / list / tuple / nested list, numpy scalar / 0-d / 1-D / 2-D array,
polars Series / DataFrame — `docgen.plain` gives the scalar / per-column / per-row / matrix reading); plus the
metamorphic check that the unpaginated rendering of the same table gives identical per-cell formats (apart from
page-boundary borders).  Correspondence: for sampled attributes the Lean model's per-page grids predict exactly
the observed values.
"""
from __future__ import annotations

import json

from .. import common, docgen, laygen, layfamily, rtfread

MANIFEST = dict(
    text="Lean theorems over the attribute pipeline (expand + drop removed columns, cut the page's rows, page-relative "
         "iloc) for every rectangular attribute matrix, table size, removed-column set and page cut: the value used "
         "for a rendered cell is the attribute at the cell's original (row, column) position, whatever the page "
         "partition. Tied to the code by observation of every body attribute in scalar / per-column / matrix shape "
         "and as recycled per-column / per-row patterns of every length 1..ncol+1 / 1..nrow+1 "
         "on paginated tables with removed columns — each shape in every spelling the constructor accepts (Python "
         "scalar / list / tuple / nested list, numpy scalar / 0-d / 1-D / 2-D array, polars Series / DataFrame) — and by "
         "a paginated-vs-unpaginated metamorphic check. Numeric attributes (row height, font size, indents, spacing, "
         "border width) are drawn fine-grained — heights with even / odd twip counts in both residues mod 4 and exact "
         "ties of the twip rounding, half / quarter / tenth font sizes, arbitrary (odd, zero, negative first-line) "
         "integers — and the number read off the real output is compared both with the direct rule and with the "
         "number the Lean encoder model emits for that value (Props/C09num.lean says what that number is).",
    note="How an attribute value is spelled in RTF (control words) is checked on the observation with the code's own "
         "code tables (translated data); page-boundary top/bottom borders belong to C07 and are excluded here. "
         "1-D array-likes (numpy 1-D / 0-d arrays, polars Series) are accepted for the text_* attributes only "
         "(border_* / cell_* are typed list[list[..]] and refuse them at construction): those spellings are drawn "
         "where they are accepted; pandas is not installed here, its Series takes the same path as a numpy 1-D array. "
         "Row heights within 2^-30 of a twip rounding boundary that are not exact dyadic ties are not drawn (their "
         "twip count depends on float rounding error); column widths belong to C08.",
    technique="Lean 4 proof (broadcast/slice algebra) + observation-level oracle and metamorphic check",
    design="7/C09",
)

RULE = ("every body attribute × shapes {scalar, 1×ncol, nrow×ncol} with random legal values (numeric ones fine-grained: "
        "cell_height as t/1440, 2- and 3-decimal inches and m/64 — even / odd ≡ 1 / odd ≡ 3 (mod 4) twip counts, exact "
        "ties of inch_to_twip; text_font_size whole / half / quarter / tenth points; indents, space before / after and "
        "border width any integer of the usual range) × tables of 1..40 rows × "
        "nrow from one page to many × 0..k removed columns at any position × the three strategies; a second stream "
        "draws every shape in every spelling RTFBody accepts for the attribute (Python scalar / [v] / [[v]] / list / "
        "tuple / nested list, numpy scalar, numpy 0-d / 1-D / 2-D array, polars Series / DataFrame); a third stream "
        "draws recycled patterns: per-column patterns of length 1..ncol+1, per-row patterns / matrices of 1..nrow+1 rows "
        "(shorter, equal to, longer than the original table), plain or spelled, mostly with columns removed at the front "
        "or anywhere; non-trivial = ≥ 2 "
        "pages and at least one matrix-shaped attribute, or a short column pattern whose cycle the removed columns shift; distinct by (strategy, nrow, shapes, spellings, page sizes)")

# the pool mixes names whose alphabetical order differs from their order in the colour table ("white" is entry 1 of
# the table and last by name; gray2 < gray10 < gray100 by index, gray10 < gray100 < gray2 by name), so that an index
# computed against any other ordering of the document's palette than the table's own shows
COLORS = ["red", "blue", "green", "gold", "gray50", "navy", "orchid", "salmon", "white", "gray2", "gray10", "gray100"]
BORDERS = ["single", "double", "dotted", "dashed", "thick", ""]


# ---- numeric attributes: round representatives AND fine-grained values, so that every rounding / truncation boundary
# of the emission arithmetic is drawn:
#   cell_height   `\trgaph int(round(h * 1440) / 2)`: twip counts of both parities, the odd ones in both residues mod 4
#                 (the halves x.5 next to an even and next to an odd integer), given as t/1440, as 2- and 3-decimal
#                 inches (0.18 → 259, 0.155 → 223, 0.17 → 245), and the dyadic heights m/64 (m odd) whose product with
#                 1440 is EXACTLY x.5 in float arithmetic too (the tie of `round`, towards an even and towards an odd
#                 neighbour)
#   text_font_size `\fs int(2 * size)`: whole, half, quarter (9.25 → 18, 9.75 → 19) and tenth sizes (10.9 → 21)
#   indents, space before / after, border width: any integer of the usual range, odd ones included (emitted as given)
def _cell_height(r):
    u = r.random()
    if u < 0.30:
        return r.choice([0.15, 0.2, 0.3])
    if u < 0.55:
        return r.randint(90, 620) / 1440          # a given number of twips
    if u < 0.75:
        return r.randint(80, 450) / 1000          # inches to three decimals
    if u < 0.90:
        return r.randint(8, 45) / 100             # inches to two decimals
    return (2 * r.randint(3, 14) + 1) / 64        # exact ties of inch_to_twip: 1440 * m / 64 = 22.5 m


def _font_size(r):
    u = r.random()
    if u < 0.35:
        return r.choice([6, 8, 9, 9.5, 10, 12, 14.5])
    if u < 0.65:
        return r.randint(24, 59) / 4              # quarter points 6 .. 14.75
    if u < 0.9:
        return r.randint(60, 148) / 10            # tenths of a point
    return r.randint(6, 14)                       # whole points as int


def _int_fine(pool, lo, hi):
    return lambda r: r.choice(pool) if r.random() < 0.4 else r.randint(lo, hi)


NUMERIC = ("cell_height", "text_font_size", "text_indent_first", "text_indent_left", "text_indent_right", "text_space",
           "text_space_before", "text_space_after", "border_width", "text_font")


def num_label(a, v):
    """the input class of one numeric attribute value (→ res.count)"""
    if isinstance(v, bool) or not isinstance(v, (int, float)):
        return None
    if a == "cell_height":
        x = v * 1440
        if x == int(x) + 0.5:
            return "num:cell_height:exact tie of inch_to_twip (m/64), " + ("even" if int(x) % 2 == 0 else "odd") + " below"
        t = round(x)
        return "num:cell_height:twips " + ("even" if t % 2 == 0 else f"odd ≡ {t % 4} mod 4")
    if a == "text_font_size":
        x = v * 2
        return "num:text_font_size:" + ("whole" if v == int(v) else "half" if x == int(x) else
                                        "quarter" if v * 4 == int(v * 4) else "tenth") + \
            ("" if x == int(x) else " (2·size truncated)")
    if a in ("text_indent_first", "text_indent_left", "text_indent_right", "text_space_before", "text_space_after",
             "border_width"):
        return f"num:{a}:" + ("zero" if v == 0 else "negative" if v < 0 else "odd" if v % 2 else
                              "even, not a multiple of 5" if v % 5 else "multiple of 10" if v % 10 == 0 else "multiple of 5")
    return None


def num_labels(a, v):
    if a not in NUMERIC:
        return []
    flat = v if isinstance(v, list) else [v]
    flat = [y for x in flat for y in (x if isinstance(x, list) else [x])]
    return sorted({lab for x in flat for lab in [num_label(a, x)] if lab})


ATTRS = {
    "text_font": lambda r: r.randint(1, 10),
    "text_font_size": _font_size,
    "text_format": lambda r: r.choice(["", "b", "i", "u", "bi", "s", "^", "_", "ub"]),
    "text_color": lambda r: r.choice(COLORS + ["", "black"]),
    "text_background_color": lambda r: r.choice(COLORS + [""]),
    "text_justification": lambda r: r.choice(["l", "c", "r", "j", "d"]),
    "text_indent_first": _int_fine([0, 120, 360], -300, 900),      # a negative first-line indent = hanging indent
    "text_indent_left": _int_fine([0, 100, 240], 0, 900),
    "text_indent_right": _int_fine([0, 90], 0, 600),
    "text_space": lambda r: r.choice([1, 1, 2, 3]),
    "text_space_before": _int_fine([15, 0, 30], 0, 300),
    "text_space_after": _int_fine([15, 5, 40], 0, 300),
    "text_hyphenation": lambda r: r.random() < 0.5,
    "border_left": lambda r: r.choice(BORDERS),
    "border_right": lambda r: r.choice(BORDERS),
    "border_top": lambda r: r.choice(BORDERS),
    "border_bottom": lambda r: r.choice(BORDERS),
    "border_width": _int_fine([15, 10, 30, 45], 1, 120),
    "border_color_left": lambda r: r.choice(COLORS + [""]),
    "border_color_top": lambda r: r.choice(COLORS + [""]),
    "border_color_bottom": lambda r: r.choice(COLORS + [""]),
    "border_color_right": lambda r: r.choice(COLORS + [""]),
    "cell_vertical_justification": lambda r: r.choice(["top", "center", "bottom"]),
    "cell_height": _cell_height,
    "cell_justification": lambda r: r.choice(["l", "c", "r"]),
}


def iloc(value, r, c):
    """the binding the property states: scalar / per-column / matrix, broadcast cyclically"""
    value = docgen.plain(value)       # array-like / tuple spellings bind as the plain list of the same shape does
    if not isinstance(value, list):
        return value
    if value and not isinstance(value[0], list):
        value = [value]
    return value[r % len(value)][c % len(value[0])]


# every way RTFBody lets one write a value of a given shape.  The component then holds a nested list, except for
# the 1-D array-likes (and numpy 0-d arrays / non-str, non-float numpy scalars), which it holds as a FLAT list.
SPELLINGS = {
    "scalar": ["py", "list1", "nested1", "npscalar", "nd0", "nd1", "nd2", "series", "frame"],
    "percol": ["list", "nested", "nd1", "nd2", "series", "frame"],
    "matrix": ["nested", "nd2", "frame"],
    "pattern": ["nested", "nd2", "frame"],
    "perrow": ["nested", "tuple", "nd2", "frame"],
}


def accepted(attr, spelling, sample):
    """does RTFBody accept this spelling for this attribute?  (text_* fields are typed list[T] | list[list[T]];
    border_* / cell_* list[list[T]] only: no 1-D array-likes, and numpy scalars only where they are str / float
    subclasses — established by probing the constructor, see tools/probe_spellings.py)"""
    if attr.startswith("text_"):
        return True
    if spelling in ("nd0", "nd1", "series"):
        return False
    if spelling == "npscalar":
        return isinstance(sample, (str, float))
    return True


def spell(v, shape, spelling):
    """the JSON form (docgen markers) of logical value `v` (scalar | flat per-column list | nested list) in `spelling`"""
    if shape == "scalar":
        return {"py": v, "list1": [v], "nested1": [[v]], "npscalar": {"__npscalar__": v}, "nd0": {"__ndarray__": v},
                "nd1": {"__ndarray__": [v]}, "nd2": {"__ndarray__": [[v]]}, "series": {"__series__": [v]},
                "frame": {"__frame__": [[v]]}}[spelling]
    if shape == "percol":
        return {"list": v, "nested": [v], "nd1": {"__ndarray__": v}, "nd2": {"__ndarray__": [v]},
                "series": {"__series__": v}, "frame": {"__frame__": [v]}}[spelling]
    if spelling == "tuple":
        return {"__tuple__": [row[0] for row in v]}
    return {"nested": v, "nd2": {"__ndarray__": v}, "frame": {"__frame__": v}}[spelling]


def held_flat(attr, shape, spelling, sample):
    """the component holds this value as a flat list (BroadcastValue reads it as one row on every use)"""
    if spelling in ("nd0", "nd1", "series"):
        return True
    return spelling == "npscalar" and not isinstance(sample, (str, float))


def permute_columns(rng, spec, info):
    cols = spec["df"]["cols"]
    order = list(range(len(cols)))
    rng.shuffle(order)
    spec["df"]["cols"] = [cols[k] for k in order]
    spec["df"]["rows"] = [[r[k] for k in order] for r in spec["df"]["rows"]]
    removed = set(info["removed"])
    info["displayed"] = [c for c in spec["df"]["cols"] if c not in removed]
    h = spec["headers"]
    if isinstance(h, list) and h and "text" in h[-1]:
        pass  # header texts are per displayed column by position; nothing to permute


class C09(layfamily.Family):
    prop, tag = "C09", "c09"

    BASE = {"quick": 260, "thorough": 3500}          # plain Python spellings (the stream as it always was)
    SPELLED = {"quick": 200, "thorough": 2500}       # the same shapes in every spelling the constructor accepts

    # recycled patterns: per-column patterns of every length 1 .. ncol+1, per-row patterns / matrices of 1 .. nrow+1 rows
    # (shorter, equal to and longer than the ORIGINAL table), mostly on tables that lose columns (page_by / subline_by)
    PATTERNS = {"quick": 140, "thorough": 2000}
    PAT_STRATS = ["page_by", "subline", "page_by_np_first", "subline_page_by", "page_by", "plain", "subline", "page_by_np"]

    def ndocs(self, tier):
        return self.BASE.get(tier, 3500) + self.SPELLED.get(tier, 2500) + self.PATTERNS.get(tier, 2000)

    def gen(self, rng, k, tier):
        if k >= self.BASE.get(tier, 3500) + self.SPELLED.get(tier, 2500):
            return self.gen_patterns(rng, k - self.BASE.get(tier, 3500) - self.SPELLED.get(tier, 2500))
        return self.gen_shapes(rng, k, tier)

    def gen_patterns(self, rng, k):
        """Attribute values given as PATTERNS that rtflite recycles over the original table: a per-column list (or
        one-row matrix) of every length 1 .. ncol+1, a per-row tuple / one-column matrix of every length 1 .. nrow+1,
        matrices of both — on tables from which page_by / subline_by take columns out (at the front or anywhere), and
        on tables that keep their columns.  A column pattern shorter than the original column count whose cycle the
        removed columns shift is where "the attribute at the cell's ORIGINAL column" and "the attribute at the cell's
        position among the displayed columns" differ."""
        n = rng.randint(1, 30)
        nrow = rng.choice([rng.randint(4, 12), rng.randint(4, 12), 60])
        spec, info = laygen.gen_spec(rng, strategy=self.PAT_STRATS[k % 8], n=n, nrow=nrow, ndata=2 + (k // 8) % 4,
                                     long_rows=False, dividers=False,
                                     header_mode=rng.choice(["explicit", "none", "default"]))
        labels = []
        if k % 3 != 0:
            permute_columns(rng, spec, info)
        cols = spec["df"]["cols"]
        ncols = len(cols)
        disp_idx = [cols.index(c) for c in info["displayed"]]
        chosen = rng.sample(sorted(ATTRS), rng.randint(1, 4))
        shapes, spellings = {}, {}
        for ai, a in enumerate(chosen):
            g = ATTRS[a]
            lens = list(range(1, ncols + 2)) + list(range(2, ncols))
            L = lens[(k // 8 + ai) % len(lens)] if rng.random() < 0.7 else rng.randint(1, ncols + 1)
            mlens = sorted({1, 2, 3, max(1, n - 1), n, n + 1, rng.randint(1, n + 1)})
            M = mlens[(k // 4 + ai) % len(mlens)]
            sh = ["percol", "pattern", "percol", "perrow", "pattern"][(k // 2 + ai * 2 + rng.randrange(2)) % 5]
            if a in ("cell_height", "cell_justification"):
                sh = "perrow"      # row-level settings (read from the row's first cell)
            if sh == "percol":
                M = 1
            elif sh == "perrow":
                L = 1
            m = [[g(rng) for _ in range(L)] for _ in range(M)]
            v = m[0] if sh == "percol" else m
            sample = m[0][0]
            sp = None
            if k % 3 == 1:          # every third document: the pattern in another spelling the constructor accepts
                sp = rng.choice([x for x in SPELLINGS[sh] if accepted(a, x, sample)])
                spellings[a] = sp
                labels.append(f"spelling:{sh}:{sp}")
                if held_flat(a, sh, sp, sample):
                    labels.append("held:flat-list" + (":no-removal" if not info["removed"] else ":removal"))
            spec["body"][a] = spell(v, sh, sp) if sp else v
            shapes[a] = sh
            labels += num_labels(a, v)
            if L > 1:
                labels.append("pattern:cols:" + ("1<L<ncol" if L < ncols else "L=ncol" if L == ncols else "L=ncol+1"))
            if M > 1:
                labels.append("pattern:rows:" + ("1<M<nrow" if M < n else "M=nrow" if M == n else "M=nrow+1"))
            if info["removed"] and 1 < L < ncols:
                shifted = any(m[r][oc % L] != m[r][j % L] for r in range(M) for j, oc in enumerate(disp_idx))
                labels.append("pattern:short column pattern × removed columns" + (": cycle shifted by the removal" if shifted else ""))
        info["attrs"] = chosen
        info["shapes"] = shapes
        if spellings:
            info["spellings"] = spellings
        info["gen"] = "patterns"
        info["labels"] = sorted(set(labels))
        return spec, info

    def gen_shapes(self, rng, k, tier):
        spelled = k >= self.BASE.get(tier, 3500)
        n = rng.randint(1, 40)
        nrow = rng.choice([rng.randint(4, 12), rng.randint(4, 12), 60])
        spec, info = laygen.gen_spec(rng, n=n, nrow=nrow, long_rows=False, dividers=False,
                                     header_mode=rng.choice(["explicit", "none", "default"]))
        if rng.random() < 0.7:
            permute_columns(rng, spec, info)
        ncols = len(spec["df"]["cols"])
        # the spelled stream also draws documents with one to three attributes (a value the implementation binds to
        # the wrong cell is then not masked by another attribute on which the same document is refused)
        chosen = rng.sample(sorted(ATTRS), rng.randint(1, 3) if spelled and rng.random() < 0.5 else rng.randint(2, 7))
        shapes, numlabs = {}, []
        for a in chosen:
            g = ATTRS[a]
            sh = rng.choice(["scalar", "percol", "matrix", "matrix"])
            if a in ("cell_height", "cell_justification"):
                # row-level settings: one value per row (read from the row's first cell); scalar or per-row
                sh = rng.choice(["scalar", "perrow"])
            if sh == "matrix" and n > 3 and rng.random() < 0.3:
                sh = "pattern"    # fewer rows than the table: recycled row-wise (A[r % R])
            if sh == "pattern":
                v = [[g(rng) for _ in range(ncols)] for _ in range(rng.randint(2, min(5, n - 1)))]
            elif sh == "perrow":
                v = [[g(rng)] for _ in range(n)]
            elif sh == "scalar":
                v = g(rng)
            elif sh == "percol":
                v = [g(rng) for _ in range(ncols)]
            else:
                v = [[g(rng) for _ in range(ncols)] for _ in range(n)]
            spec["body"][a] = v
            shapes[a] = sh
            numlabs += num_labels(a, v)
        info["attrs"] = chosen
        info["shapes"] = shapes
        info["labels"] = sorted(set(numlabs))
        if spelled:
            spellings, labels = {}, sorted(set(numlabs))
            for a in chosen:
                v, sh = spec["body"][a], shapes[a]
                sample = v if sh == "scalar" else v[0] if sh == "percol" else v[0][0]
                sp = rng.choice([x for x in SPELLINGS[sh] if accepted(a, x, sample)])
                spec["body"][a] = spell(v, sh, sp)
                spellings[a] = sp
                labels.append(f"spelling:{sh}:{sp}")
                if held_flat(a, sh, sp, sample):
                    labels.append("held:flat-list" + (":no-removal" if not info["removed"] else ":removal"))
            info["spellings"] = spellings
            info["labels"] = labels
        return spec, info

    # ---- observation of one cell
    @staticmethod
    def _rgb(name):
        from rtflite.dictionary.color_table import name_to_rgb

        return tuple(name_to_rgb[name])

    def expected_and_observed(self, spec, info, doc, rowblock, r, j, oc, is_top, is_bottom, last_col, raw=None):
        from rtflite.core.constants import RTFConstants as K

        body = spec["body"]
        cd = rowblock.defs[j]
        para = rowblock.cells[j]
        run = para.runs[0].props if para.runs else {}
        out = []

        def col_of(idx):
            if idx is None or idx == 0:
                return None
            return doc.colors[idx] if idx < len(doc.colors) else ("bad-index", idx)
        for a in info["attrs"]:
            v = iloc(body[a], r, oc) if a not in ("cell_height", "cell_justification") else iloc(body[a], r, 0)
            if raw is not None and a in NUMERIC:
                raw[(r, j, a)] = v
            if a == "text_font":
                out.append((a, v - 1, run.get("f")))
            elif a == "text_font_size":
                out.append((a, int(v * 2), run.get("fs")))
            elif a == "text_format":
                exp = {w: True for ch in set(v) for w in [K.FORMAT_CODES[ch].lstrip("\\")] if w}
                obs = {k: True for k in ("b", "i", "ul", "strike", "super", "sub") if run.get(k)}
                out.append((a, exp, obs))
            elif a == "text_color":
                out.append((a, self._rgb(v) if v and v != "black" else None, col_of(run.get("cf"))))
            elif a == "text_background_color":
                out.append((a, self._rgb(v) if v and v != "black" else None, col_of(run.get("chcbpat"))))
            elif a == "text_justification":
                out.append((a, v, para.props.get("just")))
            elif a in ("text_indent_first", "text_indent_left", "text_indent_right"):
                key = {"text_indent_first": "fi", "text_indent_left": "li", "text_indent_right": "ri"}[a]
                out.append((a, v, para.props.get(key)))
            elif a == "text_space":
                out.append((a, None if v == 1 else int(v * 240), para.props.get("sl")))
            elif a == "text_space_before":
                out.append((a, v, para.props.get("sb")))
            elif a == "text_space_after":
                out.append((a, v, para.props.get("sa")))
            elif a == "text_hyphenation":
                out.append((a, 1 if v else 0, para.props.get("hyphpar")))
            elif a in ("border_left", "border_right", "border_top", "border_bottom"):
                side = a[-1] if a != "border_bottom" else "b"
                side = {"border_left": "l", "border_right": "r", "border_top": "t", "border_bottom": "b"}[a]
                if a == "border_right" and not last_col:
                    continue      # interior right edges are drawn by the right neighbour's border_left
                if (a == "border_top" and is_top) or (a == "border_bottom" and is_bottom):
                    continue      # page-boundary borders: C07
                code = K.BORDER_CODES[v].lstrip("\\") or None
                b = cd.borders.get(side)
                out.append((a, code, b["style"] if b else "missing-edge"))
            elif a == "border_width":
                b = cd.borders.get("l")
                out.append((a, v, b["width"] if b else None))
            elif a.startswith("border_color_"):
                side = a.split("_")[-1][0]
                if side == "r" and not last_col:
                    continue
                b = cd.borders.get(side)
                out.append((a, self._rgb(v) if v and v != "black" else None, col_of(b["color"]) if b else "missing"))
            elif a == "cell_vertical_justification":
                out.append((a, v, cd.valign))
            elif a == "cell_height":
                out.append((a, int(round(v * 1440) / 2), rowblock.props.get("trgaph")))
            elif a == "cell_justification":
                out.append((a, v, rowblock.props.get("just")))
        return out

    def cell_table(self, spec, info, ob, raw=None):
        """{(r, j): [(attr, expected, observed)…]} for every tagged data cell of the real output"""
        cols = spec["df"]["cols"]
        disp = [cols.index(c) for c in info["displayed"]]
        table = {}
        for blocks, raws in zip(ob["pages"], ob["_raw"]):
            data_pos = [k for k, b in enumerate(blocks) if b[0] == "data"]
            for k in data_pos:
                r = blocks[k][1]
                rb = raws[k]
                is_top = k == data_pos[0]
                is_bottom = k == data_pos[-1]
                for j, oc in enumerate(disp):
                    if j >= len(rb.cells) or j >= len(rb.defs):
                        table[(r, j)] = [("cell-present", True, False)]
                        continue
                    table[(r, j)] = self.expected_and_observed(spec, info, ob["_doc"], rb, r, j, oc, is_top, is_bottom,
                                                               j == len(disp) - 1, raw)
        return table

    def oracle(self, spec, info, ob):
        fails = []
        table = self.cell_table(spec, info, ob)
        for (r, j), items in sorted(table.items()):
            for a, exp, obs in items:
                if exp != obs:
                    sp = (info.get("spellings") or {}).get(a)
                    fails.append(f"data cell (row {r}, displayed column {j}): {a} should be {exp!r} "
                                 f"({info['shapes'].get(a)} attribute{f' spelled as {sp}' if sp else ''} at the original "
                                 f"position) but the output has {obs!r}")
                    if len(fails) >= 3:
                        return fails
        # metamorphic: unpaginated rendering gives the same per-cell formats
        if len(ob["pages"]) > 1:
            spec1 = json.loads(json.dumps(spec))
            spec1["page"]["nrow"] = 2000
            ob1 = laygen.observe(spec1, info)
            if ob1["status"] != "ok":
                fails.append(f"unpaginated variant failed: {ob1.get('exc')} {ob1.get('msg')}")
            else:
                t1 = self.cell_table(spec1, info, ob1)
                for key, items in table.items():
                    o1 = {a: o for a, _, o in t1.get(key, [])}
                    for a, _, o in items:
                        if a in o1 and o1[a] != o:
                            fails.append(f"cell {key}: {a} is {o!r} in the paginated document but {o1[a]!r} when the "
                                         f"same table is rendered on one page")
                            return fails
        return fails

    def worker_extra(self, spec, info, ob):
        """inputs for the model correspondence: per page (start, height) and the observed values of up to two
        attributes as strings"""
        cols = spec["df"]["cols"]
        removed = [cols.index(c) for c in info["removed"]]
        disp = [cols.index(c) for c in info["displayed"]]
        pages = []
        for blocks in ob["pages"]:
            rows = [b[1] for b in blocks if b[0] == "data"]
            if rows:
                pages.append((rows[0], len(rows)))
        out = []
        for a in info["attrs"][:2]:
            if a in ("cell_height", "cell_justification"):
                continue
            v = docgen.plain(spec["body"][a])
            mat = v if isinstance(v, list) and v and isinstance(v[0], list) else [v] if isinstance(v, list) else [[v]]
            out.append(dict(attr=a, mat=[[json.dumps(x) for x in row] for row in mat], rows=info["n"], cols=len(cols),
                            removed=removed, pages=pages, ndisp=len(disp)))
        return dict(grids=out, nums=self.numeric_items(spec, info, ob))

    def numeric_items(self, spec, info, ob):
        """for the model tie of the emission arithmetic: every distinct (numeric attribute, value the body attribute
        gives at a cell's original position, number read off that cell of the real output), with the first cell that
        shows it.  Floats travel as their exact rational."""
        from fractions import Fraction

        if not any(a in NUMERIC for a in info["attrs"]):
            return []
        raw = {}
        table = self.cell_table(spec, info, ob, raw)
        seen, items = set(), []
        for (r, j), cell in sorted(table.items()):
            for a, exp, obs in cell:
                v = raw.get((r, j, a))
                if v is None or isinstance(v, bool) or not isinstance(v, (int, float)):
                    continue
                if isinstance(v, float) and v != v or v in (float("inf"), float("-inf")):
                    continue
                if isinstance(v, float):
                    f = Fraction(v)
                    val = f"{f.numerator}/{f.denominator}"
                else:
                    val = int(v)
                key = (a, val, obs if isinstance(obs, (int, type(None))) else repr(obs))
                if key in seen:
                    continue
                seen.add(key)
                items.append(dict(attr=a, value=val, shown=repr(v), cell=[r, j], expected=exp,
                                  observed=obs if isinstance(obs, (int, type(None))) else repr(obs)))
        return items

    def project(self, pages, info):
        return [[b for b in p if b[0] == "data"] for p in pages]

    def cross_extra(self, spec, info, ob):
        """documents of the whole-encoder class (harness/crosscorr.py): everything the reader sees of every data row
        except its text — fonts, sizes, styles, colours (resolved through the document's own colour table),
        justification, indents, spacing, borders, vertical alignment, row height, cell boundaries"""
        from .. import crosscorr

        return [[pno, b[:2], crosscorr.row_format(ob["_doc"], r)] for pno, b, r in crosscorr.table_rows(ob)
                if b[0] == "data"]

    def nontrivial(self, spec, info, ob):
        if info.get("gen") == "patterns" and any("cycle shifted" in lab for lab in info.get("labels") or []):
            # a short per-column pattern whose cycle the removed columns shift: any number of pages
            return [info["strategy"], "patterns", str(spec["df"]["cols"]), json.dumps(info["shapes"], sort_keys=True),
                    json.dumps({a: spec["body"][a] for a in info["attrs"]}, sort_keys=True)[:300], len(ob["pages"])]
        if len(ob["pages"]) >= 2 and ("matrix" in info["shapes"].values() or "pattern" in info["shapes"].values()):
            return [info["strategy"], info["nrow"], json.dumps(info["shapes"], sort_keys=True),
                    json.dumps(info.get("spellings") or {}, sort_keys=True),
                    str([len([b for b in p if b[0] == 'data']) for p in ob["pages"]])]
        return None

    def extra_model_check(self, spec, info, o, drv):
        return []


FAM = C09()


def model_grids(res, outs):
    """Lean model vs direct rule on the page cuts the implementation really produced (cell_attr op)"""
    reqs, meta = [], []
    for o in outs:
        for e in (o.get("extra") or {}).get("grids") or []:
            for (start, height) in e["pages"]:
                reqs.append(dict(op="cell_attr", attr=e["mat"], rows=e["rows"], cols=e["cols"], removed=e["removed"],
                                 start=start, height=height))
                meta.append((o, e, start, height))
    drv = common.driver_batch(reqs)
    for (o, e, start, height), d in zip(meta, drv):
        res.corr_checked += 1
        if d["model"] != d["spec"]:
            res.disagree(dict(spec=o["spec"], info=o["info"]),
                         f"Lean model of the attribute pipeline differs from the original-position rule for {e['attr']} "
                         f"on page rows [{start},{start + height}): {d['model']} vs {d['spec']}")


def model_numbers(res, outs):
    """Lean model of the emission arithmetic (`emit_num`: `resolveText` / `resolveBorder` / `gaphOf` of Model.Encode,
    the functions C09enc_binding builds the page cells with) vs the number read off the real output, for every
    distinct (numeric attribute, value) of every document.  A value within 2^-30 of a rounding boundary of
    inch_to_twip is compared only when it is an exact tie (dyadic: the float product is exact as well)."""
    reqs, meta = [], []
    for o in outs:
        for it in (o.get("extra") or {}).get("nums") or []:
            reqs.append(dict(op="emit_num", attr=it["attr"], value=it["value"]))
            meta.append((o, it))
    drv = common.driver_batch(reqs)
    bad_docs = set()
    for (o, it), d in zip(meta, drv):
        a = it["attr"]
        if "refused" in d:
            res.count(f"model-number:{a}:value refused by the model ({d['refused']})")
            continue
        if d.get("near") and not d.get("tie"):
            res.count(f"model-number:{a}:near a rounding boundary (not compared)")
            continue
        res.corr_checked += 1
        res.count(f"model-number:{a}:compared")
        if d["n"] != it["observed"] and id(o) not in bad_docs:
            bad_docs.add(id(o))
            why = (f"{a}={it['shown']} (original position of data cell row {it['cell'][0]}, displayed column "
                   f"{it['cell'][1]}): the Lean encoder model emits {d['n']!r}"
                   + (f" (= int({d['twip']} twips / 2))" if "twip" in d else "")
                   + f", the real output has {it['observed']!r} (direct rule: {it['expected']!r})")
            res.disagree(dict(spec=o["spec"], info=o["info"]), why)


def emitter_tie_notes(res, build):
    """The emitters of row.py that turn C09's attribute values into control words are tied to Model/Emit by the
    translator (bridge files of C01: Props/C01py*.lean).  A function that no longer translates, or whose translated
    definition changed in this run, is outside that tie: say so in the evidence (the observation-level oracle and the
    model tie of the emitted numbers are then the only ties for it)."""
    try:
        status = json.loads((common.LEAN / "Generated" / "py_status.json").read_text())
    except Exception:  # noqa: BLE001
        return
    import subprocess

    names = ["RowAsRtf", "CellAsRtf", "BorderAsRtf", "ParagraphFormatting", "TextFormatting", "TextAsRtf", "Iloc"]
    for n in names:
        st = status.get(n) or {}
        msg = None
        if st and not st.get("ok"):
            msg = (f"translator tie lost: {st.get('func')} ({st.get('file')}) is outside the translated subset: "
                   f"{st.get('why')}")
            res.count("translator-tie:lost:" + n)
        elif st:
            # still translated: is it the definition the committed bridge proofs are about?
            try:
                rel = f"lean/Generated/Py{n}.lean"
                p = subprocess.run(["git", "-C", str(common.LEAN.parent), "show", "HEAD:" + rel], capture_output=True,
                                   timeout=30)
                if p.returncode == 0 and p.stdout.decode() != (common.LEAN / "Generated" / f"Py{n}.lean").read_text():
                    msg = (f"translated definition of {st.get('func')} differs from the committed Generated/Py{n}.lean "
                           f"(its bridge proof is re-checked by C01)")
                    res.count("translator-tie:changed:" + n)
            except Exception:  # noqa: BLE001 — informational only
                pass
        if msg:
            res.notes.append(msg)
            common.log("note:", msg)


def run(res, build):
    # run_family handles generation, observation, oracle, role-level correspondence; the attribute-level model is
    # exercised on the page cuts observed in the real output
    fam = FAM
    tier = res.tier
    jobs = [(fam, res.seed, -1 - i, tier, dict(spec=c["spec"], info=c["info"])) for i, c in enumerate(fam.corpus())]
    jobs += [(fam, res.seed, k, tier, None) for k in range(fam.ndocs(tier))]
    outs = common.pool_map(layfamily._worker, jobs, chunksize=4)
    for o in outs:
        if "machinery" in o:
            raise common.MachineryError("worker failed: " + o["machinery"])
    failed = []
    for o in outs:
        case = dict(spec=o["spec"], info=o["info"])
        nt = o.get("nt")
        res.case(case, tuple(nt) if isinstance(nt, list) else nt)
        res.count("strategy:" + str(o["info"].get("strategy")))
        for a, sh in (o["info"].get("shapes") or {}).items():
            res.count(f"shape:{sh}")
            res.count(f"attr:{a}")
        for lab in o["info"].get("labels") or []:       # spelling:<shape>:<spelling>, held:flat-list:…
            res.count(lab)
        res.count("stream:" + ("patterns" if o["info"].get("gen") == "patterns" else
                               "spelled" if "spellings" in o["info"] else "plain"))
        if o["status"] == "ok":
            res.count(f"pages:{min(len(o['pages']), 9)}")
        else:
            res.count("status:" + o["status"])
        for f in (o.get("fails") or [])[:1]:
            failed.append((o["status"] != "ok", case, f))
    # a wrong format read off a real output comes before a refusal to render (both are failing inputs)
    failed.sort(key=lambda t: t[0])
    for i, (_, case, f) in enumerate(failed):
        if i == 0:
            try:
                small = layfamily.shrink(fam, case)
                if small is not case:
                    o2 = layfamily._in_pool((fam, 0, 0, "quick", dict(spec=small["spec"], info=small["info"])))
                    if o2.get("fails"):
                        case, f = small, o2["fails"][0]
                        res.notes.append("first failing document shrunk to %d rows" % (small["info"].get("n") or 0))
            except Exception as e:  # noqa: BLE001 — shrinking is best effort
                res.notes.append(f"shrinking failed: {type(e).__name__}: {e}")
        res.fail(case, f)
    model_grids(res, [o for o in outs if o["status"] == "ok"])
    model_numbers(res, [o for o in outs if o["status"] == "ok"])
    emitter_tie_notes(res, build)
    from .. import crosscorr

    crosscorr.run_cross(fam, res)
    return common.finish(
        res, build, RULE, layfamily.TRUSTED_COMMON, layfamily.ASSUME_COMMON,
        explanation="C09_binding / C09_page_independent / C09_shapes / C09_kept_idx hold for every rectangular "
                    "attribute matrix, table size, removed-column set and page cut. The oracle compares every body "
                    "attribute of every tagged data cell with the original-position rule and with the unpaginated "
                    "rendering; the second stream gives every attribute value in every spelling the constructor "
                    "accepts (array-likes included: a 1-D array-like is held as a flat list, `Attr.list` in the "
                    "encoder model, which `Attr.toNested` reads as ONE ROW — C09enc_held_forms). Every distinct numeric "
                    "attribute value of every document is also sent to the encoder model (`emit_num`): the number it "
                    "emits (C09num_row_height: floor of half the nearest twip count; C09num_half_points) is compared "
                    "with the number in the real output.")


def replay(payload):
    rc = layfamily.replay_family(FAM, payload)
    case = payload.get("case") or {}
    if "spec" not in case:
        for b in payload.get("broken", []):
            if b.get("kind") == "correspondence" and "case" in b:
                case = b["case"]
    if "spec" in case and not case.get("cross"):
        # the model tie of the emitted numbers on the same document
        o = layfamily._in_pool((FAM, 0, 0, "quick", dict(spec=case["spec"], info=case["info"],
                                                        history=case.get("history"))))
        nums = (o.get("extra") or {}).get("nums") or [] if o.get("status") == "ok" else []
        drv = common.driver_batch([dict(op="emit_num", attr=it["attr"], value=it["value"]) for it in nums])
        for it, d in zip(nums, drv):
            if "refused" in d or (d.get("near") and not d.get("tie")):
                continue
            if d["n"] != it["observed"]:
                print(f"MODEL NUMBER DIFFERS: {it['attr']}={it['shown']} at data cell {tuple(it['cell'])}: the Lean "
                      f"encoder model emits {d['n']!r}, the real output has {it['observed']!r}")
    return rc
