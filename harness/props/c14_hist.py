"""C14 history runner — executes operation histories against the real rtflite.

Run as a *subprocess* of the C14 check (so that PYTHONHASHSEED can be chosen and so that the process
has done nothing with rtflite but import it):

    python -m harness.props.c14_hist histories < {"tasks":[{"pool":..,"history":..}, ...]}  > [result, ...]
    python -m harness.props.c14_hist fresh     < {"pool":.., "target": did}                 > result
    python -m harness.props.c14_hist fresh_many < {"pools":{key:pool..},"tasks":[[key,did], ...]} > [result, ...]

`histories`: every task runs in its own freshly forked child of this process (Pool, maxtasksperchild=1),
which has imported rtflite and nothing else, so each history starts from the state of a new interpreter
and replays exactly.  `fresh`: this very process builds only the target's own objects, constructs the
target and encodes it — the baseline the property compares with.  `fresh_many`: the same for many targets
under ONE hash seed (the interpreter this module runs in was started with it), every target in its own forked
child of a process that has imported rtflite and nothing else: the references under further hash seeds ("a
fresh interpreter" is any fresh interpreter, so all references must agree).

Pool / history format (plain JSON, integers are identities):
  pool    = {"components":[{"cls":"RTFBody","kw":{..}}..], "frames":[{"cols":[..],"rows":[[..]]}..],
             "docs":[{"kind":"single|multi|figure","secs":[[frame,body]..],
                      "headers":"default"|{"flat":[cid..]}|{"nested":[[cid|null..]..]},
                      "page":cid|null,"title":..,"subline":..,"footnote":..,"source":..,
                      "page_header":..,"page_footer":..,"figure":..}..]}
  history = {"ops":[["construct",slot,did],["encode",slot],["twice",slot],["drop",slot],["lookup",name],
                    ["measure",{"text":..,"font":..,"font_size":..,"unit":..,"dpi":..}],        (public get_string_width)
                    ["fs",{"ev":"write|replace|delete|rename|chdir|touch","d":dir,"n":name id,"c":image id,..}],
                    ["recreate",cid],                  (a new, equal-valued component object takes the place of cid)
                    ["attempt",did]..],                (`RTFDocument(...)` of a pool document the library refuses: the
                                                        exception is caught and recorded; a document spec may carry
                                                        "body_arg": [cid..] | {"single": cid} = what is passed as rtf_body)
             "target":did, "reuse":slot|null, "target_twice":bool}
A pool with a "figfs" entry (`{"ndirs":3,"cwd":dir,"names":[..],"images":[hex..],"files":[[dir,name id,image id]..]}`)
runs in a directory tree of its own: <root>/d0 … with the listed image files, the process starts in <root>/d<cwd>.
`RTFFigure` components of such a pool name their files by `"paths":[{"rel":name id,"form":..}|{"abs":dir,"n":name id,
"form":..}..]` (relative / absolute, str / Path / `./` / `..` spellings).  "fs" operations change the tree or the
working directory between the library calls; `fresh` / `fresh_many` take the history's "fs" operations as "events",
apply them to a new tree and construct + encode the target THEN: the reference is the fresh interpreter in the file
system as it is when the target is encoded (same files, same working directory).
Components are created once per process and handed to every document that names them: that is the
sharing the property talks about.
"""
from __future__ import annotations

import contextlib
import gc
import hashlib
import io
import json
import os
import re
import shutil
import sys
import tempfile
import time
from pathlib import Path

OTHER_KEYS = ("title", "subline", "footnote", "source", "page_header", "page_footer", "page", "figure")
OTHER_ARGS = dict(title="rtf_title", subline="rtf_subline", footnote="rtf_footnote", source="rtf_source",
                  page_header="rtf_page_header", page_footer="rtf_page_footer", page="rtf_page", figure="rtf_figure")
BODY_COLOR_FIELDS = ("text_color", "text_background_color", "border_color_left", "border_color_right",
                     "border_color_top", "border_color_bottom", "border_color_first", "border_color_last")
TEXT_COLOR_FIELDS = ("text_color", "text_background_color")


_PAGE = re.compile(r"\\page(?![a-z])")


def sha(s: str) -> str:
    return hashlib.sha256(s.encode("utf-8")).hexdigest()[:32]


def _untuple(v):
    if isinstance(v, dict) and "__tuple__" in v:
        return tuple(_untuple(x) for x in v["__tuple__"])
    if isinstance(v, list):
        return [_untuple(x) for x in v]
    if isinstance(v, dict):
        return {k: _untuple(x) for k, x in v.items()}
    return v


def make_frame(fr):
    from .. import docgen

    return docgen.make_frame(fr)



# ------------------------------------------------------------------ a directory tree of image files (pool["figfs"])

_PICT = re.compile(r"\{\\pict[^ {}]* ([0-9a-fA-F\n]*)\}")


class FsWorld:
    """<root>/d0 … d<ndirs-1> with the pool's image files; the process works in one of them"""

    def __init__(self, spec):
        self.spec = spec
        self.root = os.path.realpath(tempfile.mkdtemp(prefix="rtfv_c14fs_"))
        self.images = [bytes.fromhex(h) for h in spec["images"]]
        self.names = list(spec["names"])
        self.by_bytes = {b: i for i, b in enumerate(self.images)}
        self.old_cwd = os.getcwd()
        self.tick = 0
        for d in range(spec["ndirs"]):
            os.mkdir(self.dir(d))
        for d, n, c in spec["files"]:
            with open(self.path(d, n), "wb") as f:
                f.write(self.images[c])
        os.chdir(self.dir(spec["cwd"]))

    def dir(self, d):
        return os.path.join(self.root, f"d{d}")

    def path(self, d, n):
        return os.path.join(self.dir(d), self.names[n])

    def spell(self, ref):
        """the path argument as the caller writes it"""
        form = ref.get("form", "str")
        if "rel" in ref:
            n = self.names[ref["rel"]]
            return Path(n) if form == "Path" else ("./" + n if form == "dot" else n)
        d, n = ref["abs"], self.names[ref["n"]]
        full = os.path.join(self.dir(d), n)
        if form == "Path":
            return Path(full)
        if form == "dotdot":
            return os.path.join(self.dir(d), "..", f"d{d}", n)
        if form == "sibling":     # a relative spelling of a fixed place (the working directory is always a <root>/d*)
            return os.path.join("..", f"d{d}", n)
        return full

    def apply(self, ev):
        """one file-system event (`Model.World.Fs.step`)"""
        kind = ev["ev"]
        if kind == "chdir":
            os.chdir(self.dir(ev["d"]))
        elif kind == "write":           # in place: same inode, truncated and rewritten
            with open(self.path(ev["d"], ev["n"]), "wb") as f:
                f.write(self.images[ev["c"]])
        elif kind == "replace":         # atomically: written under another name, then moved over
            tmp = os.path.join(self.dir(ev["d"]), ".incoming.tmp")
            with open(tmp, "wb") as f:
                f.write(self.images[ev["c"]])
            os.replace(tmp, self.path(ev["d"], ev["n"]))
        elif kind == "delete":
            with contextlib.suppress(FileNotFoundError):
                os.unlink(self.path(ev["d"], ev["n"]))
        elif kind == "rename":
            src = self.path(ev["d"], ev["n"])
            if os.path.exists(src):
                os.replace(src, self.path(ev["d2"], ev["n2"]))
        elif kind == "touch":
            p = self.path(ev["d"], ev["n"])
            if os.path.exists(p):
                self.tick += 1
                t = time.time_ns() + self.tick * 3_000_000_000
                os.utime(p, ns=(t, t))
        else:
            raise ValueError(f"unknown file-system event {kind}")

    def listing(self):
        """[[dir, name id, image id]] of the tree now, and the working directory"""
        out = []
        for d in range(self.spec["ndirs"]):
            for fn in sorted(os.listdir(self.dir(d))):
                with open(os.path.join(self.dir(d), fn), "rb") as f:
                    b = f.read()
                out.append([d, self.names.index(fn) if fn in self.names else -1, self.by_bytes.get(b, -1)])
        cwd = os.path.basename(os.getcwd())
        return dict(cwd=int(cwd[1:]) if cwd[1:].isdigit() else -1, files=sorted(out))

    def pics(self, s):
        """image ids of the pictures embedded in an RTF string, in order (-1: bytes that are none of the pool's)"""
        if s is None:
            return None
        out = []
        for m in _PICT.finditer(s):
            try:
                out.append(self.by_bytes.get(bytes.fromhex(m.group(1).replace("\n", "")), -1))
            except ValueError:
                out.append(-1)
        return out

    def norm(self, msg):
        return msg.replace(self.root, "<root>")

    def close(self):
        with contextlib.suppress(Exception):
            os.chdir(self.old_cwd)
        shutil.rmtree(self.root, ignore_errors=True)


def open_world(pool):
    return FsWorld(pool["figfs"]) if pool.get("figfs") else None


def build_component(c, workdir, world=None):
    import rtflite as rtf

    cls = getattr(rtf, c["cls"])
    kw = {k: _untuple(v) for k, v in c["kw"].items()}
    if c["cls"] == "RTFFigure" and "paths" in kw:
        kw["figures"] = [world.spell(r) for r in kw.pop("paths")]
    elif c["cls"] == "RTFFigure":
        files = kw.pop("files")
        paths = []
        for f in files:
            p = Path(workdir) / f["name"]
            if not p.exists():
                p.write_bytes(bytes.fromhex(f["hex"]))
            paths.append(str(p))
        kw["figures"] = paths
    return cls(**kw)


def doc_component_ids(dd):
    ids = [b for _, b in dd["secs"]]
    h = dd["headers"]
    if h != "default":
        if "flat" in h:
            ids += h["flat"]
        else:
            ids += [x for sec in h["nested"] for x in sec if x is not None]
    ids += [dd[k] for k in OTHER_KEYS if dd.get(k) is not None]
    ba = dd.get("body_arg")
    if ba is not None:
        ids += [ba["single"]] if isinstance(ba, dict) else list(ba)
    return ids


def build_doc(dd, comps, frames):
    import rtflite as rtf

    kw = {}
    if dd["kind"] == "multi":
        kw["df"] = [frames[f] for f, _ in dd["secs"]]
        kw["rtf_body"] = [comps[b] for _, b in dd["secs"]]
    elif dd["kind"] == "single":
        kw["df"] = frames[dd["secs"][0][0]]
        kw["rtf_body"] = comps[dd["secs"][0][1]]
    if dd.get("body_arg") is not None:
        # what is passed as `rtf_body=` instead of one body per section (a list of another length, a bare object)
        ba = dd["body_arg"]
        kw["rtf_body"] = comps[ba["single"]] if isinstance(ba, dict) else [comps[b] for b in ba]
    h = dd["headers"]
    if h != "default":
        if "flat" in h:
            kw["rtf_column_header"] = [comps[i] for i in h["flat"]]
        else:
            kw["rtf_column_header"] = [[None if i is None else comps[i] for i in sec] for sec in h["nested"]]
    for k in OTHER_KEYS:
        if dd.get(k) is not None:
            kw[OTHER_ARGS[k]] = comps[dd[k]]
    return rtf.RTFDocument(**kw)


def _flat_colors(v, out):
    if v is None:
        return
    if isinstance(v, str):
        if v:
            out.append(v)
    elif isinstance(v, (list, tuple)):
        for x in v:
            _flat_colors(x, out)


def _w(ws):
    return None if ws is None else [round(float(x) * 1000) for x in ws]


def snapshot(o, cls):
    """the model's view of a component object (`Model.World.Obj`), read from its public fields"""
    d = o.model_dump()
    colors, used = [], []
    for f in (BODY_COLOR_FIELDS if cls == "RTFBody" else TEXT_COLOR_FIELDS):
        _flat_colors(getattr(o, f, None), colors)
    rendered = cls == "RTFBody" or bool(getattr(o, "text", None))
    if rendered:
        for f in TEXT_COLOR_FIELDS:
            _flat_colors(getattr(o, f, None), used)
    rest = {k: v for k, v in d.items() if k != "col_rel_width"}
    digest = int(hashlib.sha256(json.dumps(rest, sort_keys=True, default=str).encode()).hexdigest()[:12], 16)
    body = cls == "RTFBody"
    return dict(widths=_w(d.get("col_rel_width")), colors=colors, used=used,
                groupBy=list(getattr(o, "group_by", None) or []) if body else [],
                pageBy=list(getattr(o, "page_by", None) or []) if body else [],
                sublineBy=list(getattr(o, "subline_by", None) or []) if body else [],
                newPage=bool(getattr(o, "new_page", False)) if body else False,
                pagebyColumn=(getattr(o, "pageby_row", "column") == "column") if body else True,
                rest=digest)


def frame_cells(df):
    return dict(cols=list(df.columns), rows=[[None if v is None else str(v) for v in r] for r in df.rows()])


def frame_digest(df):
    return sha(json.dumps([list(df.columns), [str(t) for t in df.dtypes], df.rows()], default=str))


def exc_class(e):
    for c in (IndexError, AttributeError, TypeError, KeyError, ZeroDivisionError, ValueError):
        if isinstance(e, c):
            return c.__name__
    return type(e).__name__


def encode_obs(doc, keep=False, world=None):
    try:
        with contextlib.redirect_stdout(io.StringIO()):
            s = doc.rtf_encode()
    except Exception as e:  # noqa: BLE001
        msg = str(e) if world is None else world.norm(str(e))
        return dict(cls=exc_class(e), msg=msg[:200]), None
    o = dict(ok=sha(s), len=len(s), pages=len(_PAGE.findall(s)) + 1)
    if world is not None:
        o["pics"] = world.pics(s)
    return o, (s if keep else None)


def _first_pos(s, token):
    m = re.search(r"(?<![A-Za-z0-9])" + re.escape(token) + r"(?![A-Za-z0-9])", s)
    return None if m is None else m.start()


def heading_order(s, fr, kw):
    """Where a single-section document emits the values of its `page_by` columns as spanning heading rows and of
    its `subline_by` columns in the subline heading: the columns in the order in which the FIRST data row's values
    first appear in the string (public output only).  A key is reported only when every value is non-null, the
    values are pairwise different and each occurs as a whole word."""
    out = {}
    if s is None or not fr["rows"]:
        return out
    row0 = dict(zip(fr["cols"], fr["rows"][0]))
    for key in ("page_by", "subline_by"):
        cols = list(kw.get(key) or [])
        if not cols or any(c not in row0 for c in cols):
            continue
        if key == "page_by" and kw.get("new_page") and kw.get("pageby_row", "column") == "column":
            continue                     # the columns stay table columns (frame order)
        vals = [row0[c] for c in cols]
        if any(v is None for v in vals) or len(set(map(str, vals))) < len(vals):
            continue
        pos = [_first_pos(s, str(v)) for v in vals]
        if any(p is None for p in pos) or len(set(pos)) < len(pos):
            continue
        out[key] = [c for _, c in sorted(zip(pos, cols))]
    return out


def doc_heading_order(pool, did, s):
    dd = pool["docs"][did]
    if dd["kind"] != "single" or s is None:
        return {}
    f, b = dd["secs"][0]
    return heading_order(s, pool["frames"][f], pool["components"][b]["kw"])


def internals():
    """unit-level peek at the two process-global stores (internal names; 'unavailable' after a refactor)"""
    out = {}
    try:
        from rtflite.services import color_service as cs

        v = cs._document_colors_var.get()
        out["ctx"] = None if v is None else list(v)
    except Exception as e:  # noqa: BLE001
        out["ctx"] = "unavailable"
        out["ctx_why"] = f"{type(e).__name__}: {e}"
    try:
        from rtflite.pagination.strategies import StrategyRegistry

        out["registry"] = list(StrategyRegistry._strategies.keys())
    except Exception as e:  # noqa: BLE001
        out["registry"] = "unavailable"
    return out


def lookup(name):
    try:
        from rtflite.services.color_service import ColorValidationError, color_service

        try:
            return color_service.get_rtf_color_index(name)
        except ColorValidationError:
            return "invalid"
    except Exception:  # noqa: BLE001
        return "unavailable"


def measure(q):
    """a direct call of the public `rtflite.get_string_width` (what pagination uses for every cell)"""
    import rtflite as rtf

    try:
        return dict(val=float(rtf.get_string_width(**q)))
    except Exception as e:  # noqa: BLE001
        return dict(cls=exc_class(e), msg=str(e)[:200])


def doc_widths(doc):
    b = doc.rtf_body
    if doc.df is None:      # figure document: the default body object is never used
        b = None
    bodies = [_w(x.col_rel_width) for x in (b if isinstance(b, (list, tuple)) else [b])] if b is not None else []
    hs = []
    h = doc.rtf_column_header
    if h:
        if isinstance(h[0], (list, tuple)):
            hs = [_w(x.col_rel_width) for sec in h for x in sec if x is not None]
        else:
            hs = [_w(x.col_rel_width) for x in h]
    return dict(bodies=bodies, headers=hs)


def run_history(task):
    import rtflite  # noqa: F401

    pool, hist = task["pool"], task["history"]
    wd = tempfile.mkdtemp(prefix="rtfv_c14_")
    world = None
    try:
        world = open_world(pool)
        with contextlib.redirect_stdout(io.StringIO()):
            comps = [build_component(c, wd, world) for c in pool["components"]]
        frames = [make_frame(f) for f in pool["frames"]]
        copies = [f.clone() for f in frames]
        fdig0 = [frame_digest(f) for f in frames]
        heap0 = [snapshot(o, c["cls"]) for o, c in zip(comps, pool["components"])]
        live = {}
        kept = []
        obs = []
        for op in hist["ops"]:
            kind = op[0]
            if kind == "construct":
                try:
                    live[op[1]] = build_doc(pool["docs"][op[2]], comps, frames)
                    obs.append(dict(kind=kind, ok=True))
                except Exception as e:  # noqa: BLE001
                    obs.append(dict(kind=kind, ok=False, cls=exc_class(e), msg=str(e)[:200]))
            elif kind == "attempt":
                # `RTFDocument(...)` on a combination of arguments the library refuses: the exception is the caller's to
                # catch; the objects it passed are still the caller's
                try:
                    kept.append(build_doc(pool["docs"][op[1]], comps, frames))
                    obs.append(dict(kind=kind, ok=True))
                except Exception as e:  # noqa: BLE001
                    obs.append(dict(kind=kind, ok=False, cls=exc_class(e), msg=str(e)[:200]))
            elif kind == "encode":
                if op[1] not in live:
                    obs.append(dict(kind=kind, missing=True))
                    continue
                o, _ = encode_obs(live[op[1]], world=world)
                obs.append(dict(kind=kind, out=o, **internals()))
            elif kind == "twice":
                if op[1] not in live:
                    obs.append(dict(kind=kind, missing=True))
                    continue
                a, _ = encode_obs(live[op[1]], world=world)
                b, _ = encode_obs(live[op[1]], world=world)
                obs.append(dict(kind=kind, a=a, b=b, **internals()))
            elif kind == "drop":
                live.pop(op[1], None)
                gc.collect()
                obs.append(dict(kind=kind))
            elif kind == "lookup":
                obs.append(dict(kind=kind, idx=lookup(op[1])))
            elif kind == "measure":
                obs.append(dict(kind=kind, **measure(op[1])))
            elif kind == "fs":
                world.apply(op[1])
                obs.append(dict(kind=kind, ev=op[1]["ev"]))
            elif kind == "recreate":
                # the caller makes a new, equal-valued component object; documents made from now on get this one
                try:
                    with contextlib.redirect_stdout(io.StringIO()):
                        comps[op[1]] = build_component(pool["components"][op[1]], wd, world)
                    obs.append(dict(kind=kind, ok=True))
                except Exception as e:  # noqa: BLE001
                    obs.append(dict(kind=kind, ok=False, cls=exc_class(e), msg=str(e)[:200]))
        # the target
        tgt = dict()
        doc = None
        if hist.get("reuse") is not None and hist["reuse"] in live:
            doc = live[hist["reuse"]]
            tgt["reused"] = True
        else:
            try:
                doc = build_doc(pool["docs"][hist["target"]], comps, frames)
            except Exception as e:  # noqa: BLE001
                tgt["construct"] = dict(cls=exc_class(e), msg=str(e)[:200])
        if doc is not None:
            tgt["widths"] = doc_widths(doc)
            tgt["out"], tgt["string"] = encode_obs(doc, keep=True, world=world)
            tgt["order"] = doc_heading_order(pool, hist["target"], tgt["string"])
            if hist.get("target_twice"):
                tgt["out2"], _ = encode_obs(doc, world=world)
            tgt.update(internals())
        heap1 = [snapshot(o, c["cls"]) for o, c in zip(comps, pool["components"])]
        fr = []
        for f, c, d0 in zip(frames, copies, fdig0):
            same = f.equals(c, null_equal=True) and f.schema == c.schema and f.columns == c.columns
            fr.append([d0, frame_digest(f) if same else "CHANGED:" + frame_digest(f)])
        return dict(heap0=heap0, heap1=[[h["widths"], h["rest"]] for h in heap1],
                    frames=[frame_cells(c) for c in copies], frame_digests=fr, obs=obs, target=tgt,
                    lookup_end={c: lookup(c) for c in ("red", "blue")}, hashseed=os.environ.get("PYTHONHASHSEED"),
                    fs_final=None if world is None else world.listing())
    except Exception as e:  # noqa: BLE001  — machinery problem inside the runner
        import traceback

        return dict(machinery=f"{type(e).__name__}: {e}", tb=traceback.format_exc()[-1500:])
    finally:
        if world is not None:
            world.close()
        shutil.rmtree(wd, ignore_errors=True)


def run_fresh(req):
    """construct the target from freshly created, equal-valued objects of its own and encode it — in the file system
    the history's events lead to (`req["events"]`, applied to a new tree before any library call)"""
    pool = req["pool"]
    dd = pool["docs"][req["target"]]
    wd = tempfile.mkdtemp(prefix="rtfv_c14f_")
    world = None
    try:
        world = open_world(pool)
        for ev in req.get("events") or []:
            world.apply(ev)
        comps = {}
        try:
            with contextlib.redirect_stdout(io.StringIO()):
                for i in doc_component_ids(dd):
                    if i not in comps:
                        comps[i] = build_component(pool["components"][i], wd, world)
            frames = {}
            for f, _ in dd["secs"]:
                if f not in frames:
                    frames[f] = make_frame(pool["frames"][f])
            doc = build_doc(dd, comps, frames)
        except Exception as e:  # noqa: BLE001
            msg = str(e) if world is None else world.norm(str(e))
            return dict(construct=dict(cls=exc_class(e), msg=msg[:200]))
        out, s = encode_obs(doc, keep=True, world=world)
        return dict(out=out, string=s if req.get("keep") else None, widths=doc_widths(doc),
                    order=doc_heading_order(pool, req["target"], s), hashseed=os.environ.get("PYTHONHASHSEED"),
                    fs_final=None if world is None else world.listing())
    finally:
        if world is not None:
            world.close()
        shutil.rmtree(wd, ignore_errors=True)


_POOLS = {}


def run_fresh_task(task):
    try:
        return run_fresh(dict(pool=_POOLS[task[0]], target=task[1], events=task[2] if len(task) > 2 else None))
    except Exception as e:  # noqa: BLE001  — machinery problem inside the runner
        import traceback

        return dict(machinery=f"{type(e).__name__}: {e}", tb=traceback.format_exc()[-1500:])


def main(argv):
    mode = argv[1]
    req = json.loads(sys.stdin.read())
    if mode == "fresh":
        res = run_fresh(req)
    elif mode == "fresh_many":
        import multiprocessing as mp

        import polars  # noqa: F401  (pay the import once, before forking)
        import rtflite  # noqa: F401

        tasks = req["tasks"]
        _POOLS.update(req["pools"])          # inherited by the forked children
        procs = int(req.get("procs") or min(16, os.cpu_count() or 4))
        with mp.get_context("fork").Pool(max(1, min(procs, len(tasks))), maxtasksperchild=1) as pool:
            res = pool.map(run_fresh_task, tasks, chunksize=1)
    else:
        import multiprocessing as mp

        import polars  # noqa: F401  (pay the import once, before forking)
        import rtflite  # noqa: F401

        tasks = req["tasks"]
        procs = int(req.get("procs") or min(16, os.cpu_count() or 4))
        if len(tasks) <= 1 or procs == 1:
            # still isolate: one forked child per task
            procs = 1
        ctx = mp.get_context("fork")
        with ctx.Pool(procs, maxtasksperchild=1) as pool:
            res = pool.map(run_history, tasks, chunksize=1)
    sys.stdout.write(json.dumps(res, ensure_ascii=False))
    sys.stdout.flush()
    return 0


if __name__ == "__main__":
    sys.exit(main(sys.argv))
