"""C14 — encoding is a pure function of the document.

Theorems: lean/Props/C14.lean about `Model.World` (colour context, strategy registry, caller-owned
objects and frames, constructed documents; histories of any length); lean/Props/C14memo.lean about keyed
stores (caches) in general and in the world (`Model.Memo`, `Model.WorldMemo`); lean/Props/C14files.lean about the files
a figure document reads (`Model.WorldFiles`: histories with file-system events, stores of file contents);
lean/Props/C14share.lean about when a document holds the caller's own component object (and reads it unchanged after any
history, whatever section it sits in).

Tie to the code on every run:
  unit level         real `color_service.get_rtf_color_index` / `Utils._get_color_index` /
                     `generate_rtf_color_table` under a context  vs  `Model.World.rtfColorIndex` etc.
                     (all 657 names without context, random contexts incl. '', 'black', duplicates,
                     unknown names); the colour context and the registry are peeked at after every
                     encode of every history (internal names; reported 'unavailable' after a refactor).
  observation level  operation histories (≤ 4 prior operations from {construct, encode successfully,
                     encode raising, encode twice}, plus drops) over a pool of ≥ 12 document kinds that
                     share component objects and frames by identity, followed by a target.  Public API
                     only.  Oracle (`Model.World.violations`, evaluated by the driver on the
                     implementation's observations): the target's string is byte-identical (sha-256 and
                     length) to the string a FRESH SUBPROCESS produces for the same constructor call on
                     freshly created equal-valued objects; two consecutive `rtf_encode()` calls agree;
                     every caller-owned DataFrame equals its pre-history copy (values, schema).
                     A second family of documents per pool makes the string widths that pagination measures
                     observable in the bytes (cell texts a fraction of a percent from a wrap edge, one font file
                     at nearby non-half-point sizes, see `gen_measured`): a store of loaded fonts / measured
                     widths / line counts whose key is coarser than the request (`Props/C14memo.lean`) changes
                     the page breaks of a later document.  Direct `get_string_width` calls are operations of
                     these histories; their results are compared with the stateless Pillow measurement.
                     Model agreement: outcome kind of every operation, the target's colour table, the set
                     of colour indices written, `col_rel_width` of the document's body/headers, and that
                     no caller-owned component changed.
Histories run in a child process per history (forked from a process that only imported rtflite); half of them in
an interpreter started with one random PYTHONHASHSEED, half with another; the thorough tier repeats histories under
more hash seeds.  "What a fresh interpreter produces" is decided against SEVERAL fresh interpreters: every target's
reference is computed in a new interpreter with PYTHONHASHSEED=0 and in forked children of two interpreters started
with two further random seeds; all references must agree (`Model.World.seedViolations`, clause
`interpreter-dependent`) and the target after its history must equal them.  The string-hash seed is a component of
the model's world (`World.seed`, it orders every `list(set(...))`); `C14_seed_irrelevant` / `C14_purity_any_interpreter`
state that the outcome does not depend on it, and the model is run with the very seed of the history's interpreter
and with every reference seed.  A HASH-ORDER family per pool puts sets / dicts of two and more strings everywhere the
library handles them (subline_by with 2–3 page_by columns, two subline_by columns, 2–3 page_by / group_by columns
in non-frame order, a colour / font / size / multi-letter format per column, 10–14 column names); the order in which
the page_by spanning rows and the subline values are written is read off every output and compared with the model
(the user's lists).
A FIGURE-FILES family per pool (`gen_figfs`): figure documents whose image files live in a directory tree of the history's
own (three directories, each with its own `fig.png`, `plot.png`, …), named by relative and absolute paths in several
spellings, one path in several documents, one `RTFFigure` object in two documents.  Their histories carry FILE-SYSTEM
EVENTS between the operations: alternately (i) no file ever changes — the process changes its working directory and
touches files — and (ii) files are rewritten in place / replaced atomically (same byte length, another length), replaced
by the same-named file of another directory, renamed away, deleted and written again.  The reference of such a history is
a fresh interpreter in the file system AS IT IS WHEN THE TARGET IS ENCODED (the history's events applied to a new tree,
same working directory).  The images embedded by every encode are read off the outputs and compared with what the
document's paths designate at that moment in the Lean model of the tree (`Model.World.traceF`, op `c14_files`), which also
says for every history whether a store of image bytes keyed by the path (as spelled / resolved) would have shown in it.
A SHARED-SECTIONS family per pool (`gen_sharefamily`): three body objects and three column-header objects handed by
identity to single-section documents AND to multi-section documents of one, two and three sections, each object at every
section position (alone, only, first, middle, last, first-and-last; headers flat and nested at every section index).  The
bodies' kinds rotate per round: explicit `col_rel_width` with one entry per column — the document then holds the CALLER'S
object, no width-resolved copy is made (`Props/C14share.lean`: `C14share_body_by_reference_iff`) —, explicit with styling,
none, one-element, page_by + new_page; page / title / subline / footnote / source / page header / footer objects of the
family are shared by its documents at random.  Its histories walk through ALL ordered pairs (earlier document, target) of
the family's document roles in every run — both orders of every pair, a document after another object of its own
constructor call, the pairs (multi-section first, single-section target) twice —: whatever an encode leaves behind in an
object it was given (a per-section flag, a suppressed text, a border) shows in the next document built on that object.
REFUSED CONSTRUCTIONS per pool (`gen_refused`): documents whose `RTFDocument(...)` call the validator rejects (figure with a
table-rendered footnote / source, frame and figure together, neither, bodies / nested headers of another length than the
frames, page_by / group_by / subline_by on a missing column, group_by on a removed column), built on objects that live
documents use; histories ATTEMPT them (operation `attempt`, exception caught and recorded) between the operations on a live
document sharing one of the objects — an attempt that is refused must leave every object it was handed as it was (model:
a step that changes nothing), so the live document's next encode is the fresh interpreter's.
"""
from __future__ import annotations

import json
import os
import re
import struct
import subprocess
import sys
import zlib
from concurrent.futures import ThreadPoolExecutor

from .. import common
from ..common import sub_rng

RULE = ("pool per round: ≥ 12 document kinds (plain, two coloured palettes, multi-section, multi-section with one "
        "body object in two sections, figure, group_by contiguous / non-contiguous (ValueError after the context is "
        "set), paginated, page_by, subline_by, width-less body shared by documents of different column counts, "
        "one-element-width body shared, width-less header shared by bodies of different widths, short widths "
        "(IndexError)), page/title/subline/footnote/source/page header/footer objects and frames shared at random; "
        "histories: 0..4 prior operations + drops; non-trivial = at least one prior encode or a prior construct that "
        "shares a component with the target; distinct by (operation kinds, kinds of the documents, target kind, reuse). "
        "Per round also a MEASURED family (appended to the pool, own histories): 9-11 paginated documents on one page "
        "object whose cell texts have a Pillow width k·(1+δ) column widths, δ = ±0.15 % … ±4.8 % (so any drift of a "
        "measured string width moves a page break), using one font file at nearby sizes that are not multiples of "
        "half a point (base, +0.1…0.45, −0.05…0.4, a hair above), the same texts at another size / another column "
        "width / in another font, another RTF font number on the same file, another font at the same size, per-column "
        "sizes, and two members that raise after pagination has measured (ValueError, IndexError); histories: both "
        "orders of every pair of members enumerated across the run (two of three histories) or random, with failing "
        "encodes, encode-twice, drops and direct get_string_width calls (the target's own texts, same / nearby size, "
        "same / sibling / other font, units in/mm/px, dpi 72/96/300, invalid unit or font raising) in between. "
        "Per round also a HASH-ORDER family (appended to the pool, every member is the target of one history with 0-3 "
        "prior operations; thorough: two): one frame with 4 nested grouping columns and 2-4 data columns and one "
        "with 10-14 columns, column names drawn per round (30 words, with / without a numeric suffix); bodies with "
        "subline_by + 2 page_by, subline_by + 3 page_by, 2 subline_by + 2 page_by, subline_by + 2 page_by + group_by, "
        "2 page_by, 3 page_by new_page/first_row, 2-3 page_by new_page/column, 3 group_by, 2 page_by + 2 group_by (all "
        "in an order that is not the frame's), one colour per column for text / background / left border plus five "
        "more border colours (2n+... distinct names), the same with 2 page_by, one font / size / multi-letter format "
        "('bi', 'ibs', 'b^' …) per column, the wide frame with 2 page_by, a three-section document of these. "
        "Interpreters: histories alternate between two random PYTHONHASHSEEDs; every target's reference under "
        "PYTHONHASHSEED=0 (new interpreter) and two further random seeds (forked children of an interpreter started "
        "with the seed): four interpreters per target that must produce one string. "
        "Per round also a FIGURE-FILES family (appended last, 14 histories per round; thorough 24): 10 figure documents "
        "over a tree of 3 directories × 4 image names (PNG / JPEG, every file its own bytes), paths relative (str, Path, "
        "./name) and absolute (str, Path, with '..', ../d<k>/name), 1-3 files per document, one path in several "
        "documents, one file named twice, one RTFFigure object in two documents; histories of 1-4 prior operations "
        "(encode / twice / construct of documents naming a file of the same name, other members, table and failing "
        "documents, re-created equal-valued components, live documents re-encoded after the events) with file-system "
        "events in between and always before the target — even-numbered histories: chdir (80 %) / touch only, NO file "
        "changes (the class inside the quantifier); odd-numbered: write in place / atomic replace (same byte length or "
        "not), the same-named file of another directory moved over it, rename away, delete (+ write), touch, chdir; the "
        "target's files exist when it is encoded; reference = fresh interpreters that apply the same events to a new "
        "tree before constructing the target. "
        "Per round also a SHARED-SECTIONS family (appended after the figure-files family, 16 histories per round; thorough "
        "32): 9 documents over three body objects A, B, C and three header objects — single-A, single-B, the three-section "
        "documents ABC / BCA / CAB (each body at each section position), AB / BA, the one-element multi-section document "
        "[A], ACA (one object as first and last section); kinds rotating with round + seed: A explicit full-length "
        "col_rel_width (4 of 6 rounds; the document holds the caller's object itself) / width-less / one-element, B "
        "width-less / explicit (3 of 6, once with page_by + new_page) / one-element, C width-less / explicit (once with "
        "page_by) / one-element / width-less page_by + new_page; "
        "headers with explicit widths and text, width-less with text, width-less text-less, flat (single, multi) and "
        "nested at every section index; two page objects (border_first / border_last from single, double, dashed, "
        "dotted, ''; page_title / page_footnote / page_source from all, first, last; nrow 7-30), title, subline, table- "
        "and paragraph-rendered footnote and source, page header, page footer shared at random (sometimes the base "
        "pool's); frames of one column count (3-5) with 1-7 rows, single-B sometimes around another column count; "
        "histories: the 81 ordered pairs of roles (earlier document, target) + the 14 pairs (multi-section first, "
        "single-section target) again + 1 random, shuffled once per run and walked through (every pair in every quick "
        "run), as: encode then construct the target / construct both then encode / encode twice / encode and drop / "
        "target encoded before AND after the other document; 30 % with one more encode (failing document or another "
        "member) in front. "
        "Per round also REFUSED CONSTRUCTIONS (appended last, 8 histories per round; thorough 15): 12-14 documents the "
        "constructor rejects, built on objects live documents use — figure + table-rendered footnote (of the shared-"
        "sections family / of the base pool), figure + table-rendered source, frame + figure, neither frame nor figure, "
        "more / fewer bodies than frames, a bare body for a list of frames, nested headers of another length, page_by / "
        "group_by / subline_by naming a column the frame lacks (a base-pool body on a two-column frame), group_by on a "
        "column page_by removes; histories (the refused documents in turn): operation `attempt` (RTFDocument(...) in "
        "try/except, outcome recorded) once or twice, placed as encode-attempt-encode on one live document, construct-"
        "attempt-encode, attempt-construct-encode, 20 % with a failing encode in front; the live document shares one of the "
        "attempt's objects (the body for a refused column / body list, else mostly a text component / page), 70 % a member of the shared-"
        "sections family; the target's reference is the fresh interpreter that never made the attempt")
TRUSTED = [
    "Lean 4.33 kernel; axioms ⊆ {propext, Classical.choice, Quot.sound} (audited per theorem on every run)",
    "Lean compiler for the driver executable",
    "hashlib.sha256 + length as the byte-equality witness handed to the Lean oracle",
    "the fresh baseline is `python -m harness.props.c14_hist fresh` in a new interpreter per target (PYTHONHASHSEED=0); "
    "the references under further hash seeds are forked children (one per target) of `python -m harness.props.c14_hist "
    "fresh_many`, an interpreter started with that seed that has imported rtflite and polars and done nothing else",
    "harness/props/c14_hist.py reads component values through pydantic's public fields / model_dump()",
    "figure-files histories: os.chdir / open / os.replace / os.unlink / os.utime on a private temporary tree (the real tree "
    "after every history is compared with the Lean model of it); the embedded images are read off the RTF with a regular "
    "expression over the {\\pict …} groups",
]
ASSUME = [
    "histories are sequential (concurrency is C15); the user does not assign to component attributes between operations",
    "the combinations of the refused-constructions family are refused by RTFDocument's validator (checked on every attempt: "
    "an accepted one is reported as a disagreement with the model, in which an attempt changes nothing)",
    "figure files and the working directory change only through the file-system events the history lists (between "
    "operations, never during a call); the reference for a target is the fresh interpreter in the file system as it is "
    "when the target is encoded; polars, pydantic, Pillow are parameters",
    "model domain: header text lists match the displayed column count; explicit widths either match the frame or are "
    "shorter (IndexError kind); group_by columns are not page_by/subline_by columns",
]
MANIFEST = dict(
    text="Lean theorems over a model of the process state (colour context, strategy registry, caller-owned component "
         "objects and frames by identity, constructed documents): an invariant preserved by every operation including "
         "failing encodes, hence in every world reachable by a history of any length; from it purity of the encode "
         "outcome against the fresh world, encode-twice equality, no write into caller-owned frames/components, "
         "independence from objects the call does not name, from the enumeration order of the colour set and from "
         "the interpreter's string-hash seed (a component of the world: after any history under one seed the outcome "
         "is that of a fresh process under any other seed). The "
         "model is tied to the code on every run by a unit correspondence of the colour-index functions and by "
         "operation histories on the real library whose target output must be byte-identical to fresh subprocesses "
         "started with several different hash seeds (which must agree with each other).",
    note="Outcome = state-dependent projection (colour table, indices, width vectors, strategies, order of the page_by "
         "heading rows and of the subline values, error kind); byte "
         "equality with a fresh interpreter is checked on the implementation, not proved. Thread interleavings are C15. "
         "String measurement is stateless in the code (no store; Op.measure is a no-op of the model); Props/C14memo "
         "proves that a keyed store in front of it keeps purity iff the key determines the stored value, and the "
         "measured family of the histories (texts at a wrap edge, nearby non-half-point sizes, direct "
         "get_string_width calls) makes any other behaviour move a page break. Files: a figure document's outcome is a "
         "function of the document AND of the file system at the call (working directory, file contents); 'fresh "
         "interpreter' means one in the file system as it is when the target is encoded. Props/C14files proves purity in "
         "that sense for the code (no store) and for every store whose key determines the content, and that a key made of "
         "the path (as spelled: fails without any file changing; resolved: fails on a rewrite, proved harmless while no "
         "file changes) does not; histories with rewritten files are outside the quantifier as written and are counted "
         "separately in the evidence (input_distribution figfs_history:*, figure_files_failures). Shared objects: a "
         "document holds the caller's own body exactly when the body has explicit full-length widths, a header exactly "
         "when it has widths of its own (Props/C14share); the shared-sections family puts such objects (and copied ones) "
         "into single- and multi-section documents at every section position and encodes every ordered pair of them "
         "(input_distribution share_body:* / share_header:* = <place in the earlier document>-><place in the target>). "
         "Refused constructions: an RTFDocument(...) call the validator rejects is an operation of the histories "
         "(`attempt`); in the model it is a step that leaves the world alone (nothing is constructed, no object is "
         "written), the check that the library does refuse the combination is made on the recorded outcome.",
    technique="Lean 4 proof (invariant over reachable worlds, induction over histories) + history-based differential "
              "check against a fresh interpreter",
    design="7/C14",
)

HIST_MOD = "harness.props.c14_hist"


# ------------------------------------------------------------------ subprocess plumbing

def _env(hashseed):
    env = dict(os.environ)
    env["PYTHONHASHSEED"] = str(hashseed)
    return env


def run_histories(tasks, hashseed, procs=None):
    if not tasks:
        return []
    req = json.dumps(dict(tasks=tasks, procs=procs or common.NCPU))
    p = subprocess.run([sys.executable, "-m", HIST_MOD, "histories"], input=req.encode(), capture_output=True,
                       cwd=str(common.VERIF), env=_env(hashseed), timeout=3000)
    if p.returncode != 0:
        raise common.MachineryError(f"history runner exited {p.returncode}: {p.stderr.decode()[-800:]}")
    out = json.loads(p.stdout.decode())
    for o in out:
        if "machinery" in o:
            raise common.MachineryError(f"history runner: {o['machinery']}\n{o.get('tb', '')}")
    return out


def fs_events(hist):
    """the file-system events of a history, in order (what the fresh reference has to apply before the target)"""
    return [o[1] for o in hist["ops"] if o[0] == "fs"]


def files_rewritten(hist):
    """does a file-system event of the history change what a name holds?  (`Model.World.FsEv.changesFiles`)"""
    return any(e["ev"] not in ("chdir", "touch") for e in fs_events(hist))


def run_fresh(pool, target, hashseed=0, keep=False, events=None):
    req = json.dumps(dict(pool=pool, target=target, keep=keep, events=events or []))
    p = subprocess.run([sys.executable, "-m", HIST_MOD, "fresh"], input=req.encode(), capture_output=True,
                       cwd=str(common.VERIF), env=_env(hashseed), timeout=600)
    if p.returncode != 0:
        raise common.MachineryError(f"fresh baseline exited {p.returncode}: {p.stderr.decode()[-800:]}")
    return json.loads(p.stdout.decode())


def run_fresh_many(pools, tasks, hashseed, procs=None):
    """the same reference as `run_fresh` for many (pool key, target) pairs under ONE hash seed: one interpreter
    started with that seed imports rtflite, every target is built and encoded in its own forked child"""
    if not tasks:
        return []
    req = json.dumps(dict(pools={str(k): v for k, v in pools.items()},
                          tasks=[[str(t[0]), t[1], json.loads(t[2]) if len(t) > 2 and t[2] else []] for t in tasks],
                          procs=procs or common.NCPU))
    p = subprocess.run([sys.executable, "-m", HIST_MOD, "fresh_many"], input=req.encode(), capture_output=True,
                       cwd=str(common.VERIF), env=_env(hashseed), timeout=3000)
    if p.returncode != 0:
        raise common.MachineryError(f"fresh_many runner exited {p.returncode}: {p.stderr.decode()[-800:]}")
    out = json.loads(p.stdout.decode())
    for o in out:
        if "machinery" in o:
            raise common.MachineryError(f"fresh_many runner: {o['machinery']}\n{o.get('tb', '')}")
    return out


# ------------------------------------------------------------------ generators

def _png(w, h, rgb):
    def ch(t, d):
        return struct.pack(">I", len(d)) + t + d + struct.pack(">I", zlib.crc32(t + d) & 0xFFFFFFFF)
    raw = b"".join(b"\x00" + bytes(rgb) * w for _ in range(h))
    return (b"\x89PNG\r\n\x1a\n" + ch(b"IHDR", struct.pack(">IIBBBBB", w, h, 8, 2, 0, 0, 0))
            + ch(b"IDAT", zlib.compress(raw)) + ch(b"IEND", b""))


def color_names():
    from rtflite.dictionary.color_table import name_to_type

    return sorted(n for n in name_to_type if n != "black")


def gen_frame(rng, k, n, bad=False, numeric=False):
    cols = ["g", "s"] + [f"c{j}" for j in range(k)]
    # contiguous runs for g and s (s changes only where g changes or inside a g-run, never re-appearing)
    g, s = [], []
    gi = si = 0
    while len(g) < n:
        run = rng.randint(1, 4)
        for r in range(run):
            if len(g) < n:
                g.append("G" + "ABCDEFGHIJ"[gi % 10] + (str(gi // 10) if gi >= 10 else ""))
        gi += 1
    while len(s) < n:
        run = rng.randint(2, 6)
        s += ["S" + "uvwxyz"[si % 6] + (str(si // 6) if si >= 6 else "")] * run
        si += 1
    s = s[:n]
    if bad:
        # make g non-contiguous: the first value re-appears after a different one
        if n < 3:
            n = 3
            g = (g + ["GA"] * 3)[:3]
            s = (s + [s[-1]] * 3)[:3]
        g[0], g[1] = "GA", "GB"
        g[rng.randint(2, n - 1)] = "GA"
        if len(set(g[:2])) == 1:
            g[1] = "GZ"
    rows = []
    for i in range(n):
        row = [g[i], s[i]]
        for j in range(k):
            if numeric and j == k - 1:
                row.append(None if rng.random() < 0.1 else round(rng.random() * 100, 2))
            else:
                row.append(None if rng.random() < 0.05 else f"r{i}c{j}")
        rows.append(row)
    return dict(cols=cols, rows=rows)


def displayed(body_kw, ncol):
    removed = set(body_kw.get("subline_by") or [])
    if body_kw.get("page_by"):
        if not (body_kw.get("new_page") and body_kw.get("pageby_row", "column") == "column"):
            removed |= set(body_kw["page_by"])
    return ncol - len(removed)


def gen_round(rng, names):
    """one pool: components, frames, documents (with a kind label each)"""
    comps, frames, docs, labels = [], [], [], []

    def add(cls, **kw):
        comps.append(dict(cls=cls, kw=kw))
        return len(comps) - 1

    def addf(fr):
        frames.append(fr)
        return len(frames) - 1

    def pal(k):
        return rng.sample(names, k)

    def doc(label, kind, secs, headers="default", **others):
        d = dict(kind=kind, secs=[list(s) for s in secs], headers=headers)
        for k in ("page", "title", "subline", "footnote", "source", "page_header", "page_footer", "figure"):
            d[k] = others.get(k)
        docs.append(d)
        labels.append(label)
        return len(docs) - 1

    ks = rng.sample([1, 2, 3, 4], 3)
    fA = addf(gen_frame(rng, ks[0], rng.randint(3, 9)))
    fA2 = addf(gen_frame(rng, ks[0], rng.randint(2, 9), numeric=True))
    fB = addf(gen_frame(rng, ks[1], rng.randint(3, 9)))
    fC = addf(gen_frame(rng, ks[2], rng.randint(3, 9), numeric=rng.random() < 0.5))
    fLong = addf(gen_frame(rng, rng.choice(ks), rng.randint(12, 22)))
    fBad = addf(gen_frame(rng, rng.choice(ks), rng.randint(3, 8), bad=True))
    ncol = lambda f: len(frames[f]["cols"])  # noqa: E731

    c = pal(12)
    # shared text components
    p_small = add("RTFPage", nrow=rng.randint(4, 8))
    p_land = add("RTFPage", orientation="landscape", nrow=rng.randint(5, 9))
    t_plain = add("RTFTitle", text=["Table T", "second line"])
    t_col = add("RTFTitle", text="Coloured title", text_color=c[0])
    sl = add("RTFSubline", text="Subline text", text_color=rng.choice([c[1], "black"]))
    fn_tab = add("RTFFootnote", text=["note one", "note two"], text_color=c[2])
    fn_par = add("RTFFootnote", text="paragraph note", as_table=False, text_color=c[3],
                 text_background_color=rng.choice([c[4], ""]))
    src_par = add("RTFSource", text="Source: xyz", text_color=c[5])
    src_tab = add("RTFSource", text="Source table", as_table=True)
    ph = add("RTFPageHeader", text_color=c[6]) if rng.random() < 0.5 else add("RTFPageHeader")
    pf = add("RTFPageFooter", text="Confidential", text_color=c[7])
    # bodies
    b_wl = add("RTFBody")                                            # width-less, shared by different column counts
    b_w1 = add("RTFBody", col_rel_width=[rng.choice([1, 2, 2.5])])    # one-element widths, shared
    b_colA = add("RTFBody", text_color=c[8], border_color_top=rng.choice([c[9], ""]))
    b_colB = add("RTFBody", text_color=[[c[10], c[11], c[8]]], text_background_color=rng.choice([c[0], c[9]]))
    b_colC = add("RTFBody", text_color=c[rng.randrange(4)], text_background_color=c[4 + rng.randrange(4)])
    b_grp = add("RTFBody", group_by=["g"], text_color=c[rng.randrange(12)])
    b_grp2 = add("RTFBody", group_by=["g", "s"], text_font_size=rng.choice([9, 10]))
    b_pby = add("RTFBody", page_by=["g"], new_page=rng.random() < 0.5, pageby_row=rng.choice(["column", "first_row"]),
                text_color=rng.choice([c[1], c[2]]))
    b_sub = add("RTFBody", subline_by=["s"], text_background_color=rng.choice([c[3], ""]),
                **({"group_by": ["g"]} if rng.random() < 0.4 else {}))
    wA = [rng.choice([1, 1.5, 2, 3]) for _ in range(ncol(fA))]
    wA2 = [rng.choice([1, 2, 4]) for _ in range(ncol(fA))]
    if wA2 == wA:
        wA2[0] += 1
    b_expA = add("RTFBody", col_rel_width=wA)
    b_expA2 = add("RTFBody", col_rel_width=wA2, text_color=c[5])
    b_short = add("RTFBody", col_rel_width=[1] * (ncol(fC) - rng.randint(1, 2)), text_color=c[6])
    # headers
    h_wl = add("RTFColumnHeader")                                    # width-less, text-less, shared
    h_wl2 = add("RTFColumnHeader", text_font_size=rng.choice([9, 11]))
    h_txtC = add("RTFColumnHeader", text=[f"H{j}" for j in range(ncol(fC))], text_color=c[7],
                 text_background_color=rng.choice([c[8], ""]))
    h_txtA = add("RTFColumnHeader", text=[f"A{j}" for j in range(ncol(fA))])
    fig = add("RTFFigure", files=[dict(name="a.png", hex=_png(3, 2, (255, 0, 0)).hex()),
                                  dict(name="b.png", hex=_png(2, 2, (0, 0, 255)).hex())][: rng.randint(1, 2)],
              fig_width=rng.choice([2, 3.5]), fig_height=rng.choice([1.5, 2]))

    def sprinkle(exclude=(), figure=False):
        """random shared text components for a document"""
        o = {}
        if rng.random() < 0.5:
            o["page"] = rng.choice([p_small, p_land])
        if rng.random() < 0.6:
            o["title"] = rng.choice([t_plain, t_col])
        if rng.random() < 0.3:
            o["subline"] = sl
        if rng.random() < 0.5:
            o["footnote"] = fn_par if figure else rng.choice([fn_tab, fn_par])
        if rng.random() < 0.4:
            o["source"] = src_par if figure else rng.choice([src_par, src_tab])
        if rng.random() < 0.3:
            o["page_header"] = ph
        if rng.random() < 0.3:
            o["page_footer"] = pf
        for k in exclude:
            o.pop(k, None)
        return o

    # a table-rendered footnote that closes the table with an override (page / body border_last) in one document and
    # without any override ('' settings, footnote on every page) in another: the override must not stay in the
    # shared footnote object
    p_fn_all = add("RTFPage", nrow=rng.randint(4, 6), page_footnote="all", border_last="")
    b_nolast = add("RTFBody", border_last="")
    doc("footnote-closing-override", "single", [(fLong, b_wl)], dict(flat=[h_wl2]), page=p_small, footnote=fn_tab)
    doc("footnote-closing-none", "single", [(fLong, b_nolast)], dict(flat=[h_wl2]), page=p_fn_all, footnote=fn_tab)
    doc("plain", "single", [(fA, b_wl)], **sprinkle())
    doc("plain-shared-body-other-ncol", "single", [(fB, b_wl)], **sprinkle())
    doc("plain-shared-body-third-ncol", "single", [(fC, b_wl)], rng.choice(["default", dict(flat=[h_wl])]), **sprinkle())
    doc("coloured-A", "single", [(fA2, b_colA)], **dict(sprinkle(), title=t_col))
    doc("coloured-B", "single", [(fC, b_colB)], dict(flat=[h_txtC]), **dict(sprinkle(), footnote=fn_tab))
    doc("coloured-C-shared-body", "single", [(rng.choice([fA, fB]), b_colC)], **sprinkle())
    doc("multi", "multi", [(fA, b_colA), (fB, b_colC)],
        rng.choice(["default", dict(nested=[[h_wl], [None]]), dict(nested=[[h_wl2], [h_wl]])]), **sprinkle())
    doc("multi-one-body-twice", "multi", [(fA, b_wl), (fC, b_wl)], rng.choice(["default", dict(flat=[h_wl])]),
        **sprinkle())
    doc("multi-3", "multi", [(fB, b_colC), (fA2, b_w1), (fC, b_colB)], dict(nested=[[h_wl], [None], [h_txtC]]),
        **sprinkle())
    doc("figure", "figure", [], figure=fig, **sprinkle(exclude=("page",), figure=True))
    doc("group_by-ok", "single", [(fB, b_grp)], **sprinkle())
    doc("group_by-fail", "single", [(fBad, b_grp)], **sprinkle())
    doc("group_by2-ok-or-fail", "single", [(rng.choice([fA, fBad]), b_grp2)], **sprinkle())
    doc("bad-frame-plain-body", "single", [(fBad, rng.choice([b_wl, b_colC]))], **sprinkle())
    doc("paginated", "single", [(fLong, rng.choice([b_wl, b_colA]))], **dict(sprinkle(), page=p_small, footnote=fn_tab))
    doc("page_by", "single", [(rng.choice([fC, fLong]), b_pby)], **sprinkle())
    doc("subline_by", "single", [(rng.choice([fA, fLong]), b_sub)], **sprinkle())
    doc("shared-header-widths-1", "single", [(fA, b_expA)], dict(flat=[h_wl, h_txtA]), **sprinkle())
    doc("shared-header-widths-2", "single", [(fA2, b_expA2)], dict(flat=[h_wl]), **sprinkle())
    doc("one-element-widths-1", "single", [(fA, b_w1)], **sprinkle())
    doc("one-element-widths-2", "single", [(fC, b_w1)], dict(flat=[h_wl2]), **sprinkle())
    doc("short-widths-IndexError", "single", [(fC, b_short)], dict(flat=[]), **sprinkle(exclude=("footnote", "source")))
    # pages that hold exactly ONE data row, with border specs given as one row with one entry per column (or a
    # single-column table, whose default [[""]] already has the page's shape): the page processor edits page-shaped
    # border matrices, which must never be the caller's own lists
    m = rng.randint(3, 6)
    p_one = add("RTFPage", nrow=m)
    fOne = addf(dict(cols=["c0"], rows=[[f"r{i}c0"] for i in range(m * rng.randint(1, 2) + 1)]))
    fTail = addf(gen_frame(rng, ks[0], m * rng.randint(1, 2) + 1))
    kT = ncol(fTail)
    b_brd = add("RTFBody", border_bottom=[rng.choice(["single", "", "dotted"]) for _ in range(kT)],
                border_top=[rng.choice(["", "", "dashed"]) for _ in range(kT)])
    # the same border colour in documents whose palettes put it at different dense indices (anything derived from
    # the per-document colour index must not outlive the document)
    cs = sorted(rng.sample(names, 3), key=names.index)   # names is sorted by name; order by master index below
    from rtflite.dictionary.color_table import name_to_type as _n2t
    cs = sorted(cs, key=lambda n: _n2t[n])
    lo, mid, hi = cs
    b_bc1 = add("RTFBody", border_color_left=hi, border_color_top=hi)
    b_bc2 = add("RTFBody", border_color_left=hi, border_color_top=hi, text_color=lo)
    b_bc3 = add("RTFBody", border_color_left=hi, text_color=[[lo, mid, hi]], border_color_bottom=mid)
    # they share one (width-less, text-less) header object, so the history generator treats them as close relatives
    doc("border-colour-alone", "single", [(fA, b_bc1)], dict(flat=[h_wl2]))
    doc("border-colour-after-one", "single", [(fB, b_bc2)], dict(flat=[h_wl2]))
    doc("border-colour-after-two", "single", [(fC, b_bc3)], dict(flat=[h_wl2]))
    doc("one-row-last-page-single-column", "single", [(fOne, rng.choice([b_wl, b_colA]))], page=p_one)
    doc("one-row-last-page-percol-borders", "single", [(fTail, b_brd)], page=p_one)
    doc("percol-borders-shared-body", "single", [(fA, b_brd)], **sprinkle())
    return dict(components=comps, frames=frames, docs=docs), labels


def doc_comp_ids(dd):
    ids = [b for _, b in dd["secs"]]
    h = dd["headers"]
    if h != "default":
        ids += h["flat"] if "flat" in h else [x for sec in h["nested"] for x in sec if x is not None]
    ids += [dd[k] for k in ("title", "subline", "footnote", "source", "page_header", "page_footer", "page", "figure")
            if dd.get(k) is not None]
    return ids


def gen_history(rng, pool, labels):
    docs = pool["docs"]
    nd = pool.get("n_base", len(docs))     # the measured family (appended after the base pool) has its own histories
    target = rng.randrange(nd)
    tids = set(doc_comp_ids(docs[target])) | {("f", f) for f, _ in docs[target]["secs"]}
    related = [i for i in range(nd)
               if (set(doc_comp_ids(docs[i])) | {("f", f) for f, _ in docs[i]["secs"]}) & tids]
    def bh(dd):
        h = dd["headers"]
        hs = [] if h == "default" else (h["flat"] if "flat" in h else [x for sec in h["nested"] for x in sec if x is not None])
        return set(b for _, b in dd["secs"]) | set(hs)
    close = [i for i in range(nd) if i != target and bh(docs[i]) & bh(docs[target])]   # share a body or a header
    failing = [i for i, l in enumerate(labels[:nd]) if "fail" in l or "IndexError" in l]
    ops, kinds = [], []
    live = {}
    slot = 0
    nprior = rng.choice([0, 1, 1, 2, 2, 3, 3, 4, 4, 4])
    for _ in range(nprior):
        what = rng.choice(["construct", "encode", "encode", "fail", "fail", "twice"])
        r = rng.random()
        if what == "fail":
            did = rng.choice(failing)
        elif r < 0.35 and close:
            did = rng.choice(close)
        elif r < 0.6 and related:
            did = rng.choice(related)
        else:
            did = rng.randrange(nd)
        use_live = [s for s, d in live.items() if d == did]
        if what != "construct" and use_live and rng.random() < 0.4:
            s = rng.choice(use_live)
        else:
            s = slot
            slot += 1
            ops.append(["construct", s, did])
            live[s] = did
        if what in ("encode", "fail"):
            ops.append(["encode", s])
        elif what == "twice":
            ops.append(["twice", s])
        kinds.append(what + ":" + labels[did])
        if rng.random() < 0.3:
            ops.append(["drop", s])
            live.pop(s, None)
        if rng.random() < 0.1:
            ops.append(["lookup", rng.choice(["red", "blue", "gold"])])
    reuse = None
    cand = [s for s, d in live.items() if d == target]
    if cand and rng.random() < 0.5:
        reuse = rng.choice(cand)
    hist = dict(ops=ops, target=target, reuse=reuse, target_twice=rng.random() < 0.35)
    nt = None
    if any(o[0] in ("encode", "twice") for o in ops) or any(o[0] == "construct" and o[2] in related for o in ops):
        nt = (tuple(kinds), labels[target], reuse is not None)
    return hist, nt



# ------------------------------------------------------------------ hash-order family (sets / dicts of str)

VOCAB = ["site", "region", "arm", "sex", "visit", "cohort", "stratum", "period", "country", "agegrp", "race", "dose",
         "trt", "center", "phase", "week", "param", "flag", "subject", "value", "result", "unit", "grade", "term",
         "study", "block", "batch", "panel", "organ", "route"]
FORMATS = ["bi", "ib", "bu", "iu", "biu", "b^", "i_", "us", "sb", "ibs"]


def gen_names(rng, n):
    """n distinct column names (some with a numeric suffix): what a set / dict of column names hashes"""
    out = []
    for w in rng.sample(VOCAB, n):
        out.append(w + (str(rng.randrange(1, 10)) if rng.random() < 0.35 else ""))
    return out


def gen_hash_frame(rng, keys, data, nrows):
    """grouping columns `keys`: nested runs (a column changes at least wherever the one before it changes), every run
    has its own value NAMEv<run> — so any subset of them, in any order, is contiguous (group_by accepts it) and
    the first row's values are words that identify their column in the output; data columns after"""
    bounds = {0}
    cols = []
    for j, kname in enumerate(keys):
        want = min(nrows, 2 + j)
        while len(bounds) < want:
            bounds.add(rng.randrange(1, nrows))
        vals, r = [], -1
        for i in range(nrows):
            if i in bounds:
                r += 1
            vals.append(f"{kname.upper()}v{r}")
        cols.append(vals)
    rows = [[c[i] for c in cols] + [f"{d}{i}" for d in data] for i in range(nrows)]
    return dict(cols=list(keys) + list(data), rows=rows)


def gen_hashfamily(rng, pool, labels, names):
    """Append to the pool a family of documents in which the library handles SETS / DICTS OF STRINGS of two or more
    members, so that an output that follows their iteration order differs between interpreters with different
    string-hash seeds: subline_by together with 2–3 page_by columns, two subline_by columns, 2–3 page_by columns
    with and without new_page / pageby_row, 3 group_by columns, all of them in an order that is not the frame's;
    one colour per column for text / background / every border side; one font, size and multi-letter text format
    per column; a 10–14 column frame; a multi-section document of such bodies.  Column names differ from round to
    round (words with and without a numeric suffix)."""
    comps, frames, docs = pool["components"], pool["frames"], pool["docs"]
    by_cls = {}
    for i, c in enumerate(comps):
        by_cls.setdefault(c["cls"], []).append(i)

    def add(cls, **kw):
        comps.append(dict(cls=cls, kw=kw))
        return len(comps) - 1

    nk, nd = 4, rng.randint(2, 4)
    nm = gen_names(rng, nk + nd)
    keys, data = nm[:nk], nm[nk:]
    fK = len(frames)
    frames.append(gen_hash_frame(rng, keys, data, rng.randint(6, 10)))
    wide_names = gen_names(rng, rng.randint(10, 14))
    fW = len(frames)
    frames.append(gen_hash_frame(rng, wide_names[:3], wide_names[3:], rng.randint(4, 7)))
    info = dict(members=[], keys=keys, data=data, frame=fK, wide=fW)
    cols_all = rng.sample(names, 60)

    def shared():
        """now and then a text component / page object of the base pool (shared by identity with its documents)"""
        o = {}
        if rng.random() < 0.35 and by_cls.get("RTFTitle"):
            o["title"] = rng.choice(by_cls["RTFTitle"])
        if rng.random() < 0.25 and by_cls.get("RTFFootnote"):
            o["footnote"] = rng.choice(by_cls["RTFFootnote"])
        if rng.random() < 0.2 and by_cls.get("RTFPageFooter"):
            o["page_footer"] = rng.choice(by_cls["RTFPageFooter"])
        return o

    def member(label, secs, kind="single", **others):
        d = dict(kind=kind, secs=[list(x) for x in secs], headers="default")
        for k in ("page", "title", "subline", "footnote", "source", "page_header", "page_footer", "figure"):
            d[k] = others.get(k)
        docs.append(d)
        labels.append(label)
        info["members"].append(len(docs) - 1)
        return len(docs) - 1

    def perm(k):
        """k grouping columns in an order that is not the frame's (when k ≥ 2)"""
        for _ in range(20):
            p = rng.sample(keys, k)
            if k < 2 or p != sorted(p, key=keys.index):
                return p
        return p

    def body(**kw):
        if rng.random() < 0.3:
            kw.setdefault("text_color", rng.choice(cols_all))
        return add("RTFBody", **kw)

    p = perm(3)
    member("hash-subline1+page_by2", [(fK, body(subline_by=[p[0]], page_by=p[1:]))], **shared())
    p = perm(4)
    member("hash-subline1+page_by3", [(fK, body(subline_by=[p[0]], page_by=p[1:]))], **shared())
    p = perm(4)
    member("hash-subline2+page_by2", [(fK, body(subline_by=p[:2], page_by=p[2:]))], **shared())
    p = perm(4)
    member("hash-subline1+page_by2+group_by1", [(fK, body(subline_by=[p[0]], page_by=p[1:3], group_by=[p[3]]))], **shared())
    p = perm(2)
    member("hash-page_by2", [(fK, body(page_by=p))], **shared())
    p = perm(3)
    member("hash-page_by3-new_page-first_row", [(fK, body(page_by=p, new_page=True, pageby_row="first_row"))], **shared())
    p = perm(rng.choice([2, 3]))
    member("hash-page_by-new_page-column", [(fK, body(page_by=p, new_page=True, pageby_row="column"))], **shared())
    p = perm(3)
    member("hash-group_by3", [(fK, body(group_by=p))], **shared())
    p = perm(4)
    member("hash-page_by2+group_by2", [(fK, body(page_by=p[:2], group_by=p[2:]))], **shared())
    n = nk + nd
    cc = iter(cols_all)
    b_cols = add("RTFBody", text_color=[[next(cc) for _ in range(n)]], text_background_color=[[next(cc) for _ in range(n)]],
                 border_color_left=[[next(cc) for _ in range(n)]], border_color_top=next(cc), border_color_bottom=next(cc),
                 border_color_right=next(cc), border_color_first=next(cc), border_color_last=next(cc))
    member("hash-colour-per-column", [(fK, b_cols)], **shared())
    p = perm(2)
    b_cols2 = add("RTFBody", page_by=p, text_color=[[next(cc) for _ in range(n)]],
                  text_background_color=[[next(cc) for _ in range(n)]])
    member("hash-colour-per-column+page_by2", [(fK, b_cols2)], **shared())
    b_fonts = add("RTFBody", text_font=[[rng.choice([1, 2, 3, 4, 5, 6, 7, 8, 9, 10]) for _ in range(n)]],
                  text_format=[[rng.choice(FORMATS) for _ in range(n)]],
                  text_font_size=[[rng.choice([8, 9, 10, 11]) for _ in range(n)]])
    member("hash-font-format-per-column", [(fK, b_fonts)], **shared())
    member("hash-wide-frame+page_by2", [(fW, body(page_by=rng.sample(wide_names[:3], 2)))], **shared())
    member("hash-multi-section", [(fK, b_cols), (fW, body()), (fK, b_fonts)], kind="multi", **shared())
    pool["hashfamily"] = info
    return info


def gen_hash_history(rng, pool, labels, j):
    """target = the j-th member of the hash-order family (every member is a target in every round); 0–3 prior
    operations on other members, documents of the base pool and failing documents"""
    info, docs = pool["hashfamily"], pool["docs"]
    fam = info["members"]
    target = fam[j % len(fam)]
    nd = pool.get("n_base", len(docs))
    failing = [i for i, l in enumerate(labels[:nd]) if "fail" in l or "IndexError" in l]
    ops, kinds, live, slot = [], [], {}, 0
    for _ in range(rng.choice([0, 1, 1, 2, 2, 3])):
        what = rng.choice(["construct", "encode", "encode", "fail", "twice"])
        r = rng.random()
        did = rng.choice(failing) if what == "fail" else (rng.choice(fam) if r < 0.65 else rng.randrange(nd))
        use_live = [s_ for s_, d in live.items() if d == did]
        if what != "construct" and use_live and rng.random() < 0.4:
            s_ = rng.choice(use_live)
        else:
            s_ = slot
            slot += 1
            ops.append(["construct", s_, did])
            live[s_] = did
        if what in ("encode", "fail"):
            ops.append(["encode", s_])
        elif what == "twice":
            ops.append(["twice", s_])
        kinds.append(what + ":" + labels[did])
        if rng.random() < 0.25:
            ops.append(["drop", s_])
            live.pop(s_, None)
    reuse = None
    cand = [s_ for s_, d in live.items() if d == target]
    if cand and rng.random() < 0.5:
        reuse = rng.choice(cand)
    hist = dict(ops=ops, target=target, reuse=reuse, target_twice=rng.random() < 0.4)
    return hist, ("hash-order", tuple(kinds), labels[target], reuse is not None)


# ------------------------------------------------------------------ shared-sections family (one object, many places)

# roles of the family's documents: which of the three shared bodies A, B, C sits in which section
SHARE_ROLES = [("single-A", "single", "A"), ("single-B", "single", "B"),
               ("multi3-ABC", "multi", "ABC"), ("multi3-BCA", "multi", "BCA"), ("multi3-CAB", "multi", "CAB"),
               ("multi2-AB", "multi", "AB"), ("multi2-BA", "multi", "BA"),
               ("multi1-A", "multi", "A"), ("multi3-ACA", "multi", "ACA")]
SHARE_KINDS_A = ["explicit", "explicit-styled", "widthless", "explicit", "one-element", "explicit-styled"]
SHARE_KINDS_B = ["widthless", "explicit", "explicit-page_by-new_page", "widthless-styled", "explicit-styled", "one-element"]
SHARE_KINDS_C = ["widthless", "page_by-new_page", "explicit", "one-element", "widthless-styled", "explicit-page_by"]
SHARE_MODES = ["encode-then-construct", "construct-both-then-encode", "twice-then-construct", "encode-drop-then-construct",
               "target-before-and-after"]
BORDERS = ["single", "double", "dashed", "dotted", ""]


def share_pairs(seed):
    """all ordered pairs of roles (a document with itself included: a second object from the same constructor call),
    the pairs (multi-section document first, single-section target) a second time — a multi-section encode treats its
    sections differently by position, a single-section encode sets up nothing per section, so what the former leaves
    behind in a shared object shows in the latter — in an order drawn once per run: the histories of a run walk through
    it, so every (earlier document, target) pair of roles occurs in every quick run"""
    n = len(SHARE_ROLES)
    pairs = [(a, b) for a in range(n) for b in range(n)]
    pairs += [(a, b) for a in range(n) for b in range(n) if SHARE_ROLES[a][1] == "multi" and SHARE_ROLES[b][1] == "single"]
    rng = sub_rng(seed, "c14sharepairs")
    pairs.append((rng.randrange(n), rng.randrange(n)))
    rng.shuffle(pairs)
    return pairs


def section_places(dd, cid, what="body"):
    """where a document holds component `cid`: 'single', 'only' (the one section of a one-element multi-section
    document), 'first', 'middle', 'last' for bodies and nested headers, 'flat' for a flat header list"""
    n = len(dd["secs"])
    def name(i):
        if dd["kind"] == "single":
            return "single"
        return "only" if n == 1 else "first" if i == 0 else "last" if i == n - 1 else "middle"
    if what == "body":
        return [name(i) for i, (_, b) in enumerate(dd["secs"]) if b == cid]
    h = dd["headers"]
    if h == "default":
        return []
    if "flat" in h:
        return ["flat" + ("" if dd["kind"] == "single" else "-multi")] if cid in h["flat"] else []
    return [name(i) for i, sec in enumerate(h["nested"]) if cid in sec]


def gen_sharefamily(rng, pool, labels, names, turn):
    """Append to the pool a family of documents built around THREE BODY OBJECTS A, B, C and three column-header objects
    that are handed, by identity, to single-section documents and to multi-section documents of one, two and three
    sections, in every section position (`SHARE_ROLES`: A alone, B alone, the Latin square ABC / BCA / CAB, AB / BA, a
    one-element multi-section document, one object as first and last section).  The bodies' kinds rotate with `turn`
    (round + run seed): `col_rel_width` explicit with one entry per column (the document then holds the CALLER'S object,
    no width-resolved copy is made), explicit with styling, absent, one-element (document-owned copies), page_by with
    new_page (a section that starts a page).  Headers: explicit widths with text, width-less with text, width-less
    text-less, placed flat and nested at every section index.  Page (border_first / border_last / page_title /
    page_footnote / page_source drawn), title, subline, table- and paragraph-rendered footnote and source, page header and
    footer are objects of the family shared by its documents at random (now and then one of the base pool)."""
    comps, frames, docs = pool["components"], pool["frames"], pool["docs"]
    by_cls = {}
    for i, c in enumerate(comps[: pool.get("n_base_comps", len(comps))]):
        by_cls.setdefault(c["cls"], []).append(i)

    def add(cls, **kw):
        comps.append(dict(cls=cls, kw=kw))
        return len(comps) - 1

    k = rng.choice([1, 2, 3])
    ncol = k + 2
    fX = len(frames)
    frames.append(gen_frame(rng, k, rng.randint(2, 7)))
    frames.append(gen_frame(rng, k, rng.randint(2, 7), numeric=rng.random() < 0.4))
    frames.append(gen_frame(rng, k, rng.randint(1, 6)))
    frames.append(gen_frame(rng, rng.choice([x for x in (1, 2, 3, 4) if x != k]), rng.randint(2, 6)))
    fY, fZ, fOther = fX + 1, fX + 2, fX + 3
    cs = rng.sample(names, 10)

    def widths():
        return [rng.choice([1, 1.5, 2, 2.5, 3]) for _ in range(ncol)]

    def styling():
        o = {}
        if rng.random() < 0.6:
            o["text_color"] = rng.choice(cs)
        if rng.random() < 0.4:
            o["text_background_color"] = rng.choice(cs)
        if rng.random() < 0.5:
            o[rng.choice(["border_first", "border_last", "border_top", "border_bottom"])] = rng.choice(BORDERS[:4])
        if rng.random() < 0.3:
            o["border_color_" + rng.choice(["left", "top", "bottom", "first", "last"])] = rng.choice(cs)
        if rng.random() < 0.3:
            o["text_font_size"] = rng.choice([8, 9, 10])
        return o

    def body(kind):
        if kind == "explicit":
            return add("RTFBody", col_rel_width=widths())
        if kind == "explicit-styled":
            return add("RTFBody", col_rel_width=widths(), **styling())
        if kind == "widthless":
            return add("RTFBody")
        if kind == "widthless-styled":
            return add("RTFBody", **styling())
        if kind == "one-element":
            return add("RTFBody", col_rel_width=[rng.choice([1, 2, 2.5])])
        if kind == "page_by-new_page":
            return add("RTFBody", page_by=["g"], new_page=True, pageby_row="first_row")
        if kind == "explicit-page_by-new_page":
            return add("RTFBody", col_rel_width=widths(), page_by=["g"], new_page=True,
                       pageby_row=rng.choice(["first_row", "column"]))
        if kind == "explicit-page_by":
            return add("RTFBody", col_rel_width=widths(), page_by=["g"])
        raise ValueError(kind)

    kinds = dict(A=SHARE_KINDS_A[turn % 6], B=SHARE_KINDS_B[turn % 6], C=SHARE_KINDS_C[turn % 6])
    bid = {r: body(kinds[r]) for r in "ABC"}
    hE = add("RTFColumnHeader", text=[f"E{j}" for j in range(ncol)], col_rel_width=widths(),
             **({"text_color": rng.choice(cs)} if rng.random() < 0.4 else {}))
    hN = add("RTFColumnHeader", text=[f"N{j}" for j in range(ncol)],
             **({"text_background_color": rng.choice(cs)} if rng.random() < 0.3 else {}))
    hT = add("RTFColumnHeader", **({"text_font_size": rng.choice([8, 10])} if rng.random() < 0.5 else {}))
    pages = [add("RTFPage", nrow=rng.randint(7, 14), border_first=rng.choice(BORDERS), border_last=rng.choice(BORDERS),
                 page_title=rng.choice(["all", "first", "last"]), page_footnote=rng.choice(["all", "first", "last"]),
                 page_source=rng.choice(["all", "first", "last"])),
             add("RTFPage", orientation=rng.choice(["portrait", "landscape"]), nrow=rng.randint(16, 30))]
    title = add("RTFTitle", text=rng.choice([["Shared title"], ["Shared title", "line two"]]),
                **({"text_color": rng.choice(cs)} if rng.random() < 0.4 else {}))
    subl = add("RTFSubline", text="Shared subline")
    fns = [add("RTFFootnote", text=["shared note", "second shared note"][: rng.randint(1, 2)],
               **({"border_top": rng.choice(BORDERS[:4])} if rng.random() < 0.3 else {})),
           add("RTFFootnote", text="shared paragraph note", as_table=False)]
    srcs = [add("RTFSource", text="Source: shared table", as_table=True), add("RTFSource", text="Source: shared paragraph")]
    ph = add("RTFPageHeader", **({"text_color": rng.choice(cs)} if rng.random() < 0.3 else {}))
    pf = add("RTFPageFooter", text="Shared footer")
    info = dict(members=[], kinds=kinds, bodies=bid, headers=dict(explicit=hE, widthless=hN, textless=hT), ncol=ncol,
                frames=[fX, fY, fZ, fOther],
                text=dict(pages=pages, title=title, subline=subl, footnotes=fns, sources=srcs, page_header=ph, page_footer=pf))

    def others():
        o = {}
        r = rng.random()
        if r < 0.75:
            o["page"] = pages[0] if r < 0.5 else pages[1]
        if rng.random() < 0.6:
            o["title"] = title if rng.random() < 0.8 or not by_cls.get("RTFTitle") else rng.choice(by_cls["RTFTitle"])
        if rng.random() < 0.3:
            o["subline"] = subl
        if rng.random() < 0.65:
            o["footnote"] = rng.choice(fns) if rng.random() < 0.85 or not by_cls.get("RTFFootnote") \
                else rng.choice(by_cls["RTFFootnote"])
        if rng.random() < 0.5:
            o["source"] = rng.choice(srcs)
        if rng.random() < 0.3:
            o["page_header"] = ph
        if rng.random() < 0.3:
            o["page_footer"] = pf
        return o

    def plain(sec_role):
        """may the section carry a header with one text per frame column?"""
        return "page_by" not in kinds[sec_role]

    lay = [fX, fY, fZ]
    for i, (label, kind, roles) in enumerate(SHARE_ROLES):
        secs = [(lay[j] if len(roles) > 1 else (fZ if kind == "multi" else fX), bid[r]) for j, r in enumerate(roles)]
        texted = [plain(r) for r in roles]
        if label == "single-B" and kinds["B"] in ("widthless", "widthless-styled", "one-element") and rng.random() < 0.5:
            secs, texted = [(fOther, bid["B"])], [False]       # the same object around another number of columns
        if label == "single-A":
            hdr = rng.choice([dict(flat=[hE]), dict(flat=[hN, hE]), "default"])
        elif label == "single-B":
            hdr = rng.choice([dict(flat=[hN]), dict(flat=[hT, hN])]) if texted[0] else rng.choice([dict(flat=[hT]), "default"])
        elif label.startswith("multi3-"):
            # each header object at each section index across the Latin square
            rot = [[hE], [hN], [None]] if label != "multi3-ACA" else [[hN], [hT], [hE]]
            sh = dict(ABC=0, BCA=1, CAB=2, ACA=0)[roles]
            nested = [rot[(j - sh) % 3] for j in range(3)]
            hdr = dict(nested=[[x if (x in (None, hT) or t) else rng.choice([None, hT]) for x in sec]
                               for sec, t in zip(nested, texted)])
        elif label == "multi2-AB":
            hdr = rng.choice([dict(flat=[hE]), "default", dict(flat=[hN])]) if texted[0] else "default"
        elif label == "multi2-BA":
            hdr = dict(nested=[[hT], [hN, hE] if texted[1] else [hT]])
        else:
            hdr = rng.choice([dict(nested=[[hE]]), "default", dict(nested=[[hT, hN]])]) if texted[0] else "default"
        d = dict(kind=kind, secs=[list(s) for s in secs], headers=hdr)
        o = others()
        for key in ("page", "title", "subline", "footnote", "source", "page_header", "page_footer", "figure"):
            d[key] = o.get(key)
        docs.append(d)
        labels.append(f"share-{label}[A:{kinds['A']},B:{kinds['B']},C:{kinds['C']}]")
        info["members"].append(len(docs) - 1)
    pool["sharefamily"] = info
    return info


def gen_share_history(rng, pool, labels, pair):
    """`pair` = (role of the document encoded first, role of the target): the earlier document is constructed and
    encoded (once / twice / then dropped / with the target already constructed / with the target encoded before as
    well), now and then after another operation (a failing encode, another member), then the target is encoded"""
    info, docs = pool["sharefamily"], pool["docs"]
    fam = info["members"]
    X, Y = fam[pair[0]], fam[pair[1]]
    nd = pool.get("n_base", len(docs))
    failing = [i for i, l in enumerate(labels[:nd]) if "fail" in l or "IndexError" in l]
    ops, kinds, slot = [], [], 0
    if rng.random() < 0.3:
        did = rng.choice(failing) if rng.random() < 0.5 and failing else rng.choice(fam)
        ops += [["construct", slot, did], ["encode", slot]]
        kinds.append("encode:" + labels[did])
        if rng.random() < 0.5:
            ops.append(["drop", slot])
        slot += 1
    mode = rng.choice(SHARE_MODES)
    sx, sy = slot, slot + 1
    reuse = None
    if mode == "encode-then-construct":
        ops += [["construct", sx, X], ["encode", sx]]
    elif mode == "construct-both-then-encode":
        ops += [["construct", sx, X], ["construct", sy, Y], ["encode", sx]]
        reuse = sy
    elif mode == "twice-then-construct":
        ops += [["construct", sx, X], ["twice", sx]]
    elif mode == "encode-drop-then-construct":
        ops += [["construct", sx, X], ["encode", sx], ["drop", sx]]
    else:
        ops += [["construct", sy, Y], ["encode", sy], ["construct", sx, X], ["encode", sx]]
        reuse = sy if rng.random() < 0.6 else None
    kinds.append(mode + ":" + labels[X])
    hist = dict(ops=ops, target=Y, reuse=reuse, target_twice=rng.random() < 0.35, share_mode=mode)
    return hist, ("share", tuple(kinds), labels[Y], reuse is not None)


def count_share(res, pool, hist):
    """evidence labels: which object sits where in the earlier documents and in the target"""
    info, docs = pool["sharefamily"], pool["docs"]
    res.count("share_history:" + hist["share_mode"])
    tgt = docs[hist["target"]]
    earlier = [docs[o[2]] for o in hist["ops"] if o[0] == "construct" and o[2] in info["members"]
               and not (o[2] == hist["target"] and hist.get("reuse") == o[1])]
    for role, cid in info["bodies"].items():
        kind = info["kinds"][role]
        cls = ("explicit-widths(document-holds-the-caller's-object)" + ("+page_by" if "page_by" in kind else "")
               if kind.startswith("explicit") else
               "one-element-widths" if kind == "one-element" else "no-widths")
        for e in earlier:
            for a in section_places(e, cid):
                for b in section_places(tgt, cid):
                    res.count(f"share_body:{cls}:{a}->{b}")
    for hk, cid in info["headers"].items():
        for e in earlier:
            for a in section_places(e, cid, "header"):
                for b in section_places(tgt, cid, "header"):
                    res.count(f"share_header:{hk}:{a}->{b}")
    for key in ("page", "title", "subline", "footnote", "source", "page_header", "page_footer"):
        if tgt.get(key) is not None:
            for e in earlier:
                if e.get(key) == tgt[key] and e is not tgt:
                    res.count(f"share_{key}:{e['kind']}->{tgt['kind']}")


# ------------------------------------------------------------------ refused constructions (attempts the library rejects)

REFUSED_MODES = ["encode-attempt-encode", "construct-attempt-encode", "attempt-then-construct"]


def gen_refused(rng, pool, labels):
    """Append to the pool documents whose CONSTRUCTION the library refuses (`RTFDocument(...)` raises in its validator),
    built on component objects that live documents of the pool use too: a figure with a table-rendered footnote / a
    table-rendered source, a frame together with a figure, neither a frame nor a figure, more / fewer bodies than
    frames, a bare body for a list of frames, a nested header list of another length than the frames, page_by /
    group_by / subline_by naming a column the frame does not have, group_by on a column that page_by removes.  They are
    never targets; histories ATTEMPT them (operation `attempt`: the exception is caught, the caller's objects stay in
    use) between the operations on documents that share their components."""
    comps, frames, docs = pool["components"], pool["frames"], pool["docs"]
    sh = pool["sharefamily"]
    nb = pool.get("n_base_comps", len(comps))
    base = {}
    for i, c in enumerate(comps[:nb]):
        base.setdefault(c["cls"], []).append(i)
    tx = sh["text"]
    fig = base["RTFFigure"][0]
    base_tab_fn = [i for i in base.get("RTFFootnote", []) if comps[i]["kw"].get("as_table") is not False]
    base_par_fn = [i for i in base.get("RTFFootnote", []) if comps[i]["kw"].get("as_table") is False]
    base_tab_src = [i for i in base.get("RTFSource", []) if comps[i]["kw"].get("as_table")]
    fX, fY, fZ, _ = sh["frames"]
    A, B, C = (sh["bodies"][r] for r in "ABC")
    frames.append(dict(cols=["c0", "c1"], rows=[[f"r{i}c0", f"r{i}c1"] for i in range(rng.randint(2, 5))]))
    fNoG = len(frames) - 1
    info = dict(members=[])

    def member(label, kind, secs, headers="default", body_arg=None, **others):
        d = dict(kind=kind, secs=[list(x) for x in secs], headers=headers)
        for k in ("page", "title", "subline", "footnote", "source", "page_header", "page_footer", "figure"):
            d[k] = others.get(k)
        if body_arg is not None:
            d["body_arg"] = body_arg
        docs.append(d)
        labels.append("refused-" + label)
        info["members"].append(len(docs) - 1)

    def some(**o):
        """a few more shared text components around the refused combination"""
        if rng.random() < 0.4:
            o.setdefault("title", rng.choice([tx["title"]] + base.get("RTFTitle", [])))
        if rng.random() < 0.3:
            o.setdefault("page", rng.choice(tx["pages"]))
        if rng.random() < 0.3:
            o.setdefault("page_footer", tx["page_footer"])
        return o

    def by_kw(key):
        return [i for i in base.get("RTFBody", []) if comps[i]["kw"].get(key)]

    member("figure+table-footnote", "figure", [], figure=fig, footnote=tx["footnotes"][0])
    if base_tab_fn:
        member("figure+table-footnote-of-the-base-pool", "figure", [], figure=fig, footnote=rng.choice(base_tab_fn))
    member("figure+table-source", "figure", [], figure=fig, source=tx["sources"][0],
           **({"footnote": rng.choice([tx["footnotes"][1]] + base_par_fn)} if rng.random() < 0.5 else {}))
    if base_tab_src:
        member("figure+table-source-of-the-base-pool", "figure", [], figure=fig, source=rng.choice(base_tab_src))
    member("frame+figure", "single", [(fX, A)], figure=fig, **some(footnote=rng.choice(tx["footnotes"])))
    member("neither-frame-nor-figure", "figure", [], **some(title=tx["title"], footnote=rng.choice(tx["footnotes"])))
    member("more-bodies-than-frames", "multi", [(fX, A), (fY, B)], body_arg=[A, B, C], **some())
    member("fewer-bodies-than-frames", "multi", [(fX, A), (fY, B)], body_arg=[rng.choice([A, B])], **some())
    member("bare-body-for-frame-list", "multi", [(fX, A), (fY, B)], body_arg=dict(single=rng.choice([A, B])), **some())
    member("nested-headers-other-length", "multi", [(fX, A), (fY, B)],
           dict(nested=rng.choice([[[sh["headers"]["explicit"]]], [[sh["headers"]["widthless"]], [None], [sh["headers"]["textless"]]]])),
           **some())
    for key in ("page_by", "group_by", "subline_by"):
        if by_kw(key):
            member(key + "-column-not-in-frame", "single", [(fNoG, rng.choice(by_kw(key)))], **some())
    comps.append(dict(cls="RTFBody", kw=dict(group_by=["g"], page_by=["g"])))
    member("group_by-on-column-removed-by-page_by", "single", [(fX, len(comps) - 1)],
           **some(footnote=rng.choice(tx["footnotes"])))
    pool["refused"] = info
    return info


def _all_comp_ids(dd):
    ids = list(doc_comp_ids(dd))
    ba = dd.get("body_arg")
    if ba is not None:
        ids += [ba["single"]] if isinstance(ba, dict) else list(ba)
    return ids


def gen_refused_history(rng, pool, labels, j):
    """the j-th refused document is attempted around the operations on a live document that shares one of its objects
    (a text component rather than the figure, mostly): encode – attempt – encode again, construct – attempt – encode,
    attempt – construct – encode; now and then a second attempt and a failing encode in between"""
    info, docs, comps = pool["refused"], pool["docs"], pool["components"]
    fam = info["members"]
    r = fam[j % len(fam)]
    nd = pool.get("n_base", len(docs))
    cand = list(range(nd)) + list(pool["sharefamily"]["members"])
    failing = [i for i, l in enumerate(labels[:nd]) if "fail" in l or "IndexError" in l]
    users = {}
    for d in cand:
        for c in set(doc_comp_ids(docs[d])):
            users.setdefault(c, []).append(d)
    shared = [c for c in dict.fromkeys(_all_comp_ids(docs[r])) if users.get(c)]
    text = [c for c in shared if comps[c]["cls"] not in ("RTFFigure", "RTFBody", "RTFColumnHeader")]
    bodies = [c for c in shared if comps[c]["cls"] == "RTFBody"]
    about_body = "column" in labels[r] or "bodies" in labels[r] or "bare-body" in labels[r]
    if shared:
        # the object the refusal is about, mostly: the body for a refused column / body list, a text component otherwise
        if about_body and bodies and rng.random() < 0.7:
            c = rng.choice(bodies)
        else:
            c = rng.choice(text) if text and rng.random() < 0.8 else rng.choice(shared)
        fam_users = [d for d in users[c] if d >= nd]
        target = rng.choice(fam_users) if fam_users and rng.random() < 0.7 else rng.choice(users[c])
        via = comps[c]["cls"]
    else:
        target, via = rng.choice(pool["sharefamily"]["members"]), "nothing"
    mode = rng.choice(REFUSED_MODES + (["attempt-then-construct"] * 2 if about_body else []))
    ops, kinds = [], []

    def attempts():
        ops.append(["attempt", r])
        kinds.append("attempt:" + labels[r])
        if rng.random() < 0.4:
            r2 = rng.choice(fam)
            ops.append(["attempt", r2])
            kinds.append("attempt:" + labels[r2])

    reuse = None
    if rng.random() < 0.2 and failing:
        ops += [["construct", 1, rng.choice(failing)], ["encode", 1]]
        kinds.append("fail")
    if mode == "encode-attempt-encode":
        ops += [["construct", 0, target], ["encode", 0]]
        attempts()
        reuse = 0
    elif mode == "construct-attempt-encode":
        ops += [["construct", 0, target]]
        attempts()
        reuse = 0
    else:
        attempts()
    hist = dict(ops=ops, target=target, reuse=reuse, target_twice=rng.random() < 0.3, refused_mode=mode, refused_via=via)
    return hist, ("refused", tuple(kinds), labels[target], mode)


# ------------------------------------------------------------------ figure-files family (what an encode reads from disk)

FIG_NAMES =["fig.png", "plot.png", "km_curve.PNG", "logo.jpg"]
FIG_NDIRS = 3
REL_FORMS = ["str", "str", "Path", "dot"]
ABS_FORMS = ["str", "str", "Path", "dotdot", "sibling"]


def _jpeg(w, h, rgb):
    """a JFIF stub with a baseline frame header of w×h (what `_get_jpeg_dimensions` reads) and a few payload bytes"""
    app0 = b"\xff\xe0" + struct.pack(">H", 16) + b"JFIF\x00\x01\x01\x00\x00\x01\x00\x01\x00\x00"
    sof = b"\xff\xc0" + struct.pack(">HBHHB", 17, 8, h, w, 3) + b"\x01\x11\x00\x02\x11\x01\x03\x11\x01"
    return b"\xff\xd8" + app0 + sof + b"\xff\xda" + struct.pack(">H", 8) + bytes(rgb) + b"\x00\x3f\x00" + bytes(rgb) * 3 \
        + b"\xff\xd9"


class FsSim:
    """the generator's own book-keeping of the tree (steers the choice of events and keeps the target readable; what
    the files hold when is decided by the Lean model `Model.World.Fs` and checked against the real tree)"""

    def __init__(self, spec):
        self.cwd = spec["cwd"]
        self.files = {(d, n): c for d, n, c in spec["files"]}

    def key(self, ref):
        return (ref["abs"], ref["n"]) if "abs" in ref else (self.cwd, ref["rel"])

    def read(self, ref):
        return self.files.get(self.key(ref))

    def apply(self, ev):
        k = ev["ev"]
        if k == "chdir":
            self.cwd = ev["d"]
        elif k in ("write", "replace"):
            self.files[(ev["d"], ev["n"])] = ev["c"]
        elif k == "delete":
            self.files.pop((ev["d"], ev["n"]), None)
        elif k == "rename":
            if (ev["d"], ev["n"]) in self.files:
                self.files[(ev["d2"], ev["n2"])] = self.files.pop((ev["d"], ev["n"]))


def gen_figfs(rng, pool, labels):
    """Append to the pool a family of FIGURE documents whose image files live in a directory tree of the history's own
    (`c14_hist.FsWorld`): three directories that each hold their own, different `fig.png`, `plot.png`, `km_curve.PNG`,
    `logo.jpg`; documents name them by relative path (str, Path, `./`), by absolute path (str, Path, with `..`, as
    `../d<k>/name`), one file or several, the same path in several documents, one `RTFFigure` object in two documents;
    spare images per name (same pixel size and byte length with other bytes, other pixel size) for rewrites."""
    comps, docs = pool["components"], pool["docs"]
    by_cls = {}
    for i, c in enumerate(comps):
        by_cls.setdefault(c["cls"], []).append(i)
    images, files, spare = [], [], {}

    def image(name, w, h, rgb):
        b = _jpeg(w, h, rgb) if name.lower().endswith((".jpg", ".jpeg")) else _png(w, h, rgb)
        if b.hex() in images:
            return None
        images.append(b.hex())
        return len(images) - 1

    def colour():
        return tuple(rng.randrange(256) for _ in range(3))

    for n, name in enumerate(FIG_NAMES):
        dims = rng.sample([(w, h) for w in range(2, 9) for h in range(2, 7)], FIG_NDIRS + 1)
        for d in range(FIG_NDIRS):
            c = None
            while c is None:
                c = image(name, *dims[d], colour())
            files.append([d, n, c])
            # spares: same pixel size and the same number of bytes with other bytes; another pixel size
            same = []
            for _ in range(12):
                c2 = image(name, *dims[d], colour())
                if c2 is not None and len(images[c2]) == len(images[c]):
                    same.append(c2)
                if len(same) == 2:
                    break
            spare[(d, n)] = dict(same=same)
        other = []
        while len(other) < 2:
            c2 = image(name, *dims[FIG_NDIRS], colour())
            if c2 is not None:
                other.append(c2)
        for d in range(FIG_NDIRS):
            spare[(d, n)]["other"] = other
    cwd0 = rng.randrange(FIG_NDIRS)
    far = rng.choice([d for d in range(FIG_NDIRS) if d != cwd0])
    info = dict(ndirs=FIG_NDIRS, cwd=cwd0, names=FIG_NAMES, images=images, files=files, members=[],
                spare={f"{d},{n}": v for (d, n), v in spare.items()})

    def add(cls, **kw):
        comps.append(dict(cls=cls, kw=kw))
        return len(comps) - 1

    def size():
        return rng.choice([2, 3, 3.5, 4.25]), rng.choice([1.5, 2, 2.75])

    def figure(paths):
        w, h = size()
        kw = dict(paths=paths, fig_width=w, fig_height=h)
        if len(paths) > 1 and rng.random() < 0.5:
            kw["fig_width"] = [size()[0] for _ in paths]
        if rng.random() < 0.3:
            kw["fig_align"] = rng.choice(["left", "right"])
        return add("RTFFigure", **kw)

    def rel(n, form=None):
        return dict(rel=n, form=form or rng.choice(REL_FORMS))

    def ab(d, n, form=None):
        return dict(abs=d, n=n, form=form or rng.choice(ABS_FORMS))

    def shared():
        """text components of the base pool, shared by identity with its table documents"""
        o = {}
        if rng.random() < 0.6 and by_cls.get("RTFTitle"):
            o["title"] = rng.choice(by_cls["RTFTitle"])
        if rng.random() < 0.3:
            fns = [i for i in by_cls.get("RTFFootnote", []) if comps[i]["kw"].get("as_table") is False]
            if fns:
                o["footnote"] = rng.choice(fns)
        if rng.random() < 0.3:
            srcs = [i for i in by_cls.get("RTFSource", []) if not comps[i]["kw"].get("as_table")]
            if srcs:
                o["source"] = rng.choice(srcs)
        if rng.random() < 0.2 and by_cls.get("RTFPageFooter"):
            o["page_footer"] = rng.choice(by_cls["RTFPageFooter"])
        return o

    def member(label, fig, **others):
        d = dict(kind="figure", secs=[], headers="default")
        for k in ("page", "title", "subline", "footnote", "source", "page_header", "page_footer", "figure"):
            d[k] = others.get(k)
        d["figure"] = fig
        docs.append(d)
        labels.append(label)
        info["members"].append(len(docs) - 1)

    n0, n1, n2, n3 = 0, 1, 2, 3
    f_rel = figure([rel(n0, "str")])
    member("figfs-rel", f_rel, **shared())
    member("figfs-rel-same-component-other-document", f_rel, **shared())
    member("figfs-rel-other-spelling", figure([rel(n0, rng.choice(["Path", "dot"]))]), **shared())
    member("figfs-abs-start-dir", figure([ab(cwd0, n0, "str")]), **shared())
    member("figfs-abs-start-dir-other-spelling", figure([ab(cwd0, n0, rng.choice(["Path", "dotdot", "sibling"]))]), **shared())
    member("figfs-abs-other-dir", figure([ab(far, n0)]), **shared())
    member("figfs-several", figure(rng.sample([rel(n1), ab(rng.randrange(FIG_NDIRS), n0), rel(n0), ab(far, n1)], 3)), **shared())
    member("figfs-rel-two", figure([rel(n2), rel(n1)]), **shared())
    member("figfs-rel-jpeg", figure([rel(n3)]), **shared())
    member("figfs-same-file-twice", figure([rel(n1), ab(cwd0, n1)]), **shared())
    pool["figfs"] = info
    return info


def _refs_of(pool, did):
    return pool["components"][pool["docs"][did]["figure"]]["kw"].get("paths") or []


def _fmt_ev(pool, ev):
    nm = pool["figfs"]["names"]
    k = ev["ev"]
    if k == "chdir":
        return f"chdir d{ev['d']}"
    if k == "rename":
        return f"rename d{ev['d']}/{nm[ev['n']]} → d{ev['d2']}/{nm[ev['n2']]}"
    if k in ("write", "replace"):
        return f"{k} d{ev['d']}/{nm[ev['n']]} := image {ev['c']}"
    return f"{k} d{ev['d']}/{nm[ev['n']]}"


def gen_figfs_history(rng, pool, labels, j, mode=None):
    """target = the (j mod n)-th member of the figure-files family; 1–4 prior operations on members that name a file of
    the same name (mostly), other members, documents of the base pool, failing documents — with FILE-SYSTEM EVENTS in
    between.  mode 'cwd-only': no file ever changes, the process changes its working directory (and touches files):
    a history inside the quantifier of C14 as written.  mode 'files-changed': files are rewritten in place / replaced
    atomically (same byte length, another length), replaced by the same-named file of another directory, renamed away,
    deleted and written again, touched; the directory may change too.  The target's files exist when it is encoded."""
    info, docs = pool["figfs"], pool["docs"]
    fam = info["members"]
    mode = mode or ("cwd-only" if j % 2 == 0 else "files-changed")
    order = fam if mode == "files-changed" else [d for d in fam if any("rel" in r for r in _refs_of(pool, d))]
    target = order[(j // 2) % len(order)]
    trefs = _refs_of(pool, target)
    tnames = {r.get("rel", r.get("n")) for r in trefs}
    sim = FsSim(info)
    nd = pool.get("n_base", len(docs))
    failing = [i for i, l in enumerate(labels[:nd]) if "fail" in l or "IndexError" in l]
    relatives = [d for d in fam if {r.get("rel", r.get("n")) for r in _refs_of(pool, d)} & tnames]
    ops, kinds, evkinds, live, slot = [], [], [], {}, 0

    def emit(ev):
        ops.append(["fs", ev])
        sim.apply(ev)
        evkinds.append(ev["ev"])

    def chdir():
        emit(dict(ev="chdir", d=rng.choice([d for d in range(info["ndirs"]) if d != sim.cwd])))

    def event(focus):
        """one event of the mode, preferably on a file the documents in `focus` name now"""
        keys = [sim.key(r) for did in focus for r in _refs_of(pool, did)]
        if mode == "cwd-only":
            if rng.random() < 0.8 or not keys:
                chdir()
            else:
                d, n = rng.choice(keys)
                emit(dict(ev="touch", d=d, n=n))
            return
        d, n = rng.choice(keys) if keys and rng.random() < 0.85 else (rng.randrange(info["ndirs"]), rng.randrange(len(info["names"])))
        sp = info["spare"][f"{d},{n}"]
        kind = rng.choice(["write", "write", "replace", "replace", "swap-in", "rename-away", "delete", "touch", "chdir"])
        if kind in ("write", "replace"):
            cands = [c for c in (sp["same"] if rng.random() < 0.5 and sp["same"] else sp["other"]) if c != sim.files.get((d, n))]
            if cands:
                emit(dict(ev=kind, d=d, n=n, c=rng.choice(cands)))
        elif kind == "swap-in":
            # the same-named file of another directory takes its place
            d2 = rng.choice([x for x in range(info["ndirs"]) if x != d])
            if (d2, n) in sim.files:
                emit(dict(ev="rename", d=d2, n=n, d2=d, n2=n))
        elif kind == "rename-away":
            n2 = rng.choice([x for x in range(len(info["names"])) if x != n and info["names"][x].lower().endswith(
                info["names"][n].lower()[-4:])] or [n])
            if n2 != n:
                emit(dict(ev="rename", d=d, n=n, d2=d, n2=n2))
        elif kind == "delete":
            emit(dict(ev="delete", d=d, n=n))
        elif kind == "touch":
            emit(dict(ev="touch", d=d, n=n))
        else:
            chdir()

    nprior = rng.choice([1, 2, 2, 3, 3, 4])
    for i_op in range(nprior):
        r = rng.random()
        if r < 0.1 and failing:
            what, did = "fail", rng.choice(failing)
        elif r < 0.72:
            what, did = rng.choice(["encode", "encode", "encode", "twice", "construct"]), rng.choice(relatives)
        elif r < 0.9:
            what, did = rng.choice(["encode", "encode", "twice"]), rng.choice(fam)
        else:
            what, did = "encode", rng.randrange(nd)
        if i_op == 0 and what == "construct":
            what = "encode"
        use_live = [s_ for s_, d in live.items() if d == did]
        # `RTFDocument(rtf_figure=…)` validates the figure component again: it raises FileNotFoundError when a file is
        # missing at that moment (C19's business) — such a document can only be encoded through a live object
        readable = did not in fam or all(sim.read(x) is not None for x in _refs_of(pool, did))
        if not readable and not use_live:
            event([target, did])
            continue
        if use_live and (not readable or (what != "construct" and rng.random() < 0.4)):
            s_ = rng.choice(use_live)
            what = "encode" if what == "construct" else what
        else:
            if did in fam and rng.random() < 0.3:
                ops.append(["recreate", docs[did]["figure"]])
            s_ = slot
            slot += 1
            ops.append(["construct", s_, did])
            live[s_] = did
        if what in ("encode", "fail"):
            ops.append(["encode", s_])
        elif what == "twice":
            ops.append(["twice", s_])
        kinds.append(what + ":" + labels[did])
        if rng.random() < 0.2:
            ops.append(["drop", s_])
            live.pop(s_, None)
        # something happens to the tree / the working directory before the next operation (always before the target)
        for _ in range(rng.choice([1, 1, 2]) if (i_op == nprior - 1 or rng.random() < 0.45) else 0):
            event([target] + ([did] if did in fam else []))
    # the target must be readable when it is encoded
    for r in trefs:
        if sim.read(r) is None:
            d, n = sim.key(r)
            emit(dict(ev=rng.choice(["write", "replace"]), d=d, n=n, c=rng.choice(info["spare"][f"{d},{n}"]["other"])))
    reuse = None
    cand = [s_ for s_, d in live.items() if d == target]
    if cand and rng.random() < 0.5:
        reuse = rng.choice(cand)
    elif rng.random() < 0.3:
        ops.append(["recreate", docs[target]["figure"]])
    hist = dict(ops=ops, target=target, reuse=reuse, target_twice=rng.random() < 0.4, figfs_mode=mode)
    return hist, ("figfs", mode, tuple(kinds), tuple(evkinds), labels[target], reuse is not None)


# ------------------------------------------------------------------ measured family (string widths near a wrap edge)

SAME_FILE = {1: [2, 10], 2: [1, 10], 10: [1, 2], 3: [4, 5], 4: [3, 5], 5: [3, 4], 6: [], 7: [], 8: []}
LADDER = (0.0015, 0.003, 0.006, 0.012, 0.024, 0.048)


def greedy_pages(line_counts, avail):
    """`_assign_pages` without forced breaks"""
    out, page, cur = [], 1, 0
    for h in line_counts:
        if cur + h > avail and cur > 0:
            page, cur = page + 1, 0
        out.append(page)
        cur += h
    return out


def gen_measured(rng, pool, labels):
    """Append to the pool a family of documents whose page breaks depend on string widths within a fraction of a
    percent: members use ONE font file at nearby sizes that are not multiples of half a point (and the same size
    with another font, the same texts at another size, another RTF font number on the same file), two members fail
    to encode after pagination has measured their cells.  Every member's frame carries 'ladder' cells whose Pillow
    width at the member's own (font, size) is k·(1+δ) times its column width, δ = ±0.15 % … ±4.8 %, followed by
    one-line rows, in an order for which a drift of ±0.8 % or more of the measured widths moves a page break for
    every plausible number of rows available per page."""
    from . import c14_fit as F

    comps, frames, docs = pool["components"], pool["frames"], pool["docs"]

    def add(cls, **kw):
        comps.append(dict(cls=cls, kw=kw))
        return len(comps) - 1

    f = rng.choice([1, 1, 2, 4, 4, 6, 7, 8, 10, 3, 5])
    other = rng.choice([x for x in (1, 4, 6, 7, 8, 9) if F.font_file(x) != F.font_file(f)])
    s0 = rng.choice([8, 9, 9, 9.5, 10, 10.5, 11, 12])
    s_up = round(s0 + rng.choice([0.1, 0.2, 0.25, 0.3, 0.4, 0.45]), 2)       # same ⌊2s⌋, same ⌈s⌉ (or s0 integer)
    s_dn = round(s0 - rng.choice([0.05, 0.1, 0.2, 0.25, 0.3, 0.4]), 2)       # same round(2s) / round(s) / ⌈s⌉
    s_up2 = round(s_up + rng.choice([0.03, 0.05]), 2)                         # a hair apart
    nrow = rng.randint(7, 11)
    total = rng.choice([None, 5.8, 6.6])
    page = add("RTFPage", nrow=nrow, **({} if total is None else {"col_width": total}))
    tot = 6.25 if total is None else total
    info = dict(font=f, other_font=other, members=[], failing=[], texts=[])

    def frame_for(font, size, col):
        """rows: [g, id, ladder text]; ladder rows first (shuffled), then one-line rows"""
        fill = [(f"row {i}", F.width_in(f"row {i}", font, size)) for i in range(nrow + 2)]
        for _ in range(8):
            cells = []
            for d in LADDER:
                for sign in (-1, 1):
                    k = rng.choice([1, 1, 2])
                    for _try in range(12):
                        t, w = F.fit_text(rng, font, size, k * (1 + sign * d) * col)
                        got = w / (k * col) - 1
                        if got * sign > 0 and 0.55 * d <= abs(got) <= 1.6 * d:
                            cells.append((t, w))
                            break
            # any drift ≥ 0.8 % of the measured widths must move a break, whatever the rows available per page
            for _shuffle in range(60):
                rng.shuffle(cells)
                rows = cells + fill
                ok = True
                for avail in range(max(3, nrow - 4), nrow + 1):
                    base = greedy_pages([F.lines(w, col) for _, w in rows], avail)
                    for drift in (0.992, 1.008, 0.979, 1.021, 0.95, 1.05):
                        if greedy_pages([F.lines(w * drift, col) for _, w in rows], avail) == base:
                            ok = False
                if ok:
                    break
            if ok:
                break
        info["sensitive"] = info.get("sensitive", 0) + (1 if ok else 0)
        g = ["A", "B", "A"] + ["C"] * (len(rows) - 3)            # non-contiguous: group_by=['g'] raises ValueError
        return dict(cols=["g", "id", "txt"], rows=[[g[i], f"{i:02d}", t] for i, (t, _) in enumerate(rows)]), \
            [t for t, _ in cells]

    def member(label, font, size, frame=None, col=None, size_other=None, **body_kw):
        col = col if col is not None else round(rng.uniform(2.6, 3.6), 3)
        rest = tot - col
        a = round(rest * rng.uniform(0.3, 0.5), 3)
        widths = [a, round(rest - a, 3), col]
        if frame is None:
            fr, texts = frame_for(font, size, tot * col / sum(widths))
            frames.append(fr)
            frame = len(frames) - 1
            info["texts"].append(dict(frame=frame, font=font, size=size, texts=texts))
        fs = size if size_other is None else [[size_other, size_other, size]]
        b = add("RTFBody", col_rel_width=widths, text_font=[font], text_font_size=fs, **body_kw)
        docs.append(dict(kind="single", secs=[[frame, b]], headers="default", page=page, title=None, subline=None,
                         footnote=None, source=None, page_header=None, page_footer=None, figure=None))
        labels.append(label)
        did = len(docs) - 1
        (info["failing"] if "fail" in label else info["members"]).append(did)
        return did, frame, col, widths

    dA, fA, colA, _ = member("measured-base-size", f, s0)
    dB, fB, colB, _ = member("measured-size-above", f, s_up, size_other=rng.choice([None, s0]))
    member("measured-size-below", f, s_dn)
    member("measured-size-hair-above", f, s_up2)
    member("measured-same-texts-other-size", f, rng.choice([s_up, s_dn]), frame=fA, col=colA)
    member("measured-same-texts-other-column-width", f, s0, frame=fA,
           col=round(colA * (1 + rng.choice([-1, 1]) * rng.choice([0.004, 0.01, 0.03])), 4))
    sib = SAME_FILE.get(f) or []
    if sib:
        member("measured-same-file-other-font-number", rng.choice(sib), rng.choice([s_up, s_dn, s0]))
    member("measured-other-font-same-size", other, rng.choice([s0, s_up]))
    member("measured-other-font-same-texts", other, s_up, frame=fB, col=colB)
    # failing after pagination measured the cells: non-contiguous group_by (ValueError), widths shorter than the frame
    member("measured-fail-group_by", f, rng.choice([s_up, s_dn, s0]), frame=rng.choice([fA, fB]),
           col=rng.choice([colA, colB]), group_by=["g"])
    did, _, _, w = member("measured-fail-short-widths", f, rng.choice([s_up, s_dn]), frame=rng.choice([fA, fB]), col=colA)
    comps[docs[did]["secs"][0][1]]["kw"]["col_rel_width"] = w[:2]
    docs[did]["headers"] = dict(flat=[])
    info["sizes"] = dict(base=s0, above=s_up, below=s_dn, hair=s_up2)
    pool["measured"] = info
    return info


FONT_NAMES = {1: "Times New Roman", 2: "Times New Roman Greek", 3: "Arial Greek", 4: "Arial", 5: "Helvetica", 6: "Calibri",
              7: "Georgia", 8: "Cambria", 9: "Courier New", 10: "Symbol"}


def gen_measured_history(rng, pool, labels, j=None):
    """target = a member of the measured family; prior operations: other members (encode, twice, construct),
    failing members, direct `get_string_width` calls on the target's own texts (other size / font / unit / dpi, some
    raising), now and then a document of the base pool.  With `j` given, the history starts with an encode of the
    partner of the j-th ordered pair of members (both orders of every pair, enumerated across the run); without,
    all prior operations are random (so that histories made of failing encodes or direct measurements only exist)."""
    info, docs = pool["measured"], pool["docs"]
    fam = info["members"]
    target = rng.choice(fam + (info["failing"] if rng.random() < 0.08 else []))
    first = None
    if j is not None:
        pairs = [p for a in range(len(fam)) for b in range(a + 1, len(fam)) for p in ((fam[a], fam[b]), (fam[b], fam[a]))]
        target, first = pairs[j % len(pairs)]
    body = pool["components"][docs[target]["secs"][0][1]]["kw"]
    tfont = body["text_font"][0]
    tsize = body["text_font_size"] if not isinstance(body["text_font_size"], list) else body["text_font_size"][0][-1]
    tframe = docs[target]["secs"][0][0]
    texts = [r[2] for r in pool["frames"][tframe]["rows"]]
    sizes = sorted(set(list(info["sizes"].values()) + [tsize]))
    ops, kinds, live, slot = [], [], {}, 0
    nprior = rng.choice([1, 1, 2, 2, 3, 4])
    for i_op in range(nprior):
        r = rng.random()
        if first is not None and i_op == 0:
            r = 0.5
        if r < 0.22:
            # a direct measurement
            bad = rng.random() < 0.2
            q = dict(text=rng.choice(texts[:12] + texts[:12] + ["row 1", "x"]),
                     font=rng.choice([tfont, tfont, FONT_NAMES[tfont], info["other_font"]] + (SAME_FILE.get(tfont) or [])),
                     font_size=rng.choice(sizes + [tsize]), unit=rng.choice(["in", "mm", "px", "px"]),
                     dpi=rng.choice([72.0, 96.0, 300.0]))
            if rng.random() < 0.5:
                # the very request the target's pagination will make, in another unit / at another resolution
                q.update(font=rng.choice([tfont, FONT_NAMES[tfont]]), font_size=tsize)
                q.update(rng.choice([dict(unit="px"), dict(unit="mm"), dict(dpi=96.0), dict(unit="mm", dpi=300.0)]))
            if bad:
                q.update(rng.choice([dict(unit="cm"), dict(font=11), dict(font="Comic Sans")]))
            ops.append(["measure", q])
            kinds.append("measure:" + ("raises" if bad else f"{q['unit']}@{int(q['dpi'])}"
                                       + ("" if q["font_size"] == tsize else "-other-size")
                                       + ("" if q["font"] in (tfont, FONT_NAMES[tfont]) else "-other-font")))
            continue
        if r < 0.42:
            what, did = "fail", rng.choice(info["failing"])
        elif r < 0.92:
            what = rng.choice(["encode", "encode", "encode", "twice", "construct"])
            did = rng.choice([d for d in fam if d != target] or fam)
            if first is not None and i_op == 0:
                what, did = rng.choice(["encode", "encode", "twice"]), first
        else:
            what, did = "encode", rng.randrange(pool.get("n_base", len(docs)))
        use_live = [s for s, d in live.items() if d == did]
        if what != "construct" and use_live and rng.random() < 0.4:
            s = rng.choice(use_live)
        else:
            s = slot
            slot += 1
            ops.append(["construct", s, did])
            live[s] = did
        if what in ("encode", "fail"):
            ops.append(["encode", s])
        elif what == "twice":
            ops.append(["twice", s])
        kinds.append(what + ":" + labels[did])
        if rng.random() < 0.25:
            ops.append(["drop", s])
            live.pop(s, None)
    reuse = None
    cand = [s for s, d in live.items() if d == target]
    if cand and rng.random() < 0.5:
        reuse = rng.choice(cand)
    hist = dict(ops=ops, target=target, reuse=reuse, target_twice=rng.random() < 0.3)
    nt = None
    if any(o[0] in ("encode", "twice", "measure") for o in ops):
        nt = ("measured", tuple(kinds), labels[target], reuse is not None)
    return hist, nt


def corpus(names):
    """hand-written histories that reproduced D18, D22 and the shared-width defect on earlier trees"""
    comps = [dict(cls="RTFBody", kw={}),                                              # 0 shared width-less body
             dict(cls="RTFBody", kw=dict(text_color="blue", group_by=["g"])),          # 1
             dict(cls="RTFBody", kw=dict(text_color="red")),                           # 2
             dict(cls="RTFBody", kw=dict(text_color="blue")),                          # 3
             dict(cls="RTFColumnHeader", kw={}),                                       # 4 shared width-less header
             dict(cls="RTFBody", kw=dict(col_rel_width=[1, 3, 1])),                    # 5
             dict(cls="RTFBody", kw=dict(col_rel_width=[3, 1, 1])),                    # 6
             dict(cls="RTFFootnote", kw=dict(text="fn")),                              # 7
             dict(cls="RTFBody", kw={}),                                               # 8
             # round-7 seeded change (loaded fonts keyed by int(2*size)): a 9.7 pt listing whose comment cells are
             # within 2 % of their column, and an ordinary 9.5 pt listing
             dict(cls="RTFBody", kw=dict(col_rel_width=[3.15, 3.10], text_font_size=9.7)),   # 9
             dict(cls="RTFPage", kw=dict(nrow=10)),                                          # 10
             dict(cls="RTFBody", kw=dict(text_font_size=9.5)),                               # 11
             # round-8 seeded change (heading rows in the order of set(page_by) - set(subline_by)): a listing by site
             # with a two-level page_by hierarchy; no history needed, the interpreters differ
             dict(cls="RTFBody", kw=dict(subline_by=["site"], page_by=["region", "arm"])),   # 12
             dict(cls="RTFTitle", kw=dict(text="Listing by site, region and arm")),          # 13
             # round-11 seeded change (a per-section flag written into the section body): a body with explicit
             # full-length widths — the documents hold the caller's object itself — as the first of two sections and as
             # the body of a single-section document; a header with explicit widths likewise
             dict(cls="RTFBody", kw=dict(col_rel_width=[2, 1, 1])),                          # 14
             dict(cls="RTFBody", kw=dict(col_rel_width=[1, 1, 1])),                          # 15
             dict(cls="RTFColumnHeader", kw=dict(text=["G", "S", "C"], col_rel_width=[2, 1, 1])),   # 16
             # round-12 seeded change (a refusal of the constructor turned into an assignment into the caller's object): a
             # footnote with the default as_table=True under a table document, and handed to a figure document
             dict(cls="RTFFootnote", kw=dict(text="N = number of subjects")),                # 17
             dict(cls="RTFFigure", kw=dict(files=[dict(name="c.png", hex=_png(2, 2, (0, 128, 0)).hex())],
                                           fig_width=2, fig_height=2))]                      # 18
    f3 = dict(cols=["g", "s", "c0"], rows=[["A", "x", "1"], ["B", "x", "2"]])
    f4 = dict(cols=["g", "s", "c0", "c1"], rows=[["A", "x", "1", "2"], ["A", "x", "3", "4"]])
    fbad = dict(cols=["g", "s", "c0"], rows=[["A", "x", "1"], ["B", "x", "2"], ["A", "x", "3"]])
    f5 = dict(cols=["g", "s", "c0", "c1", "c2"], rows=[["A", "x", "1", "2", "3"]])
    fcom = dict(cols=["ID", "Comment"],
                rows=[[f"{i:03d}", "Subject discontinued study treatment because of a treatme"] for i in range(8)])
    fsite = dict(cols=["Site", "N"], rows=[["01", "10"], ["02", "12"]])
    flist = dict(cols=["site", "region", "arm", "subject", "value"],
                 rows=[[f"Site 0{1 + i // 4}", ["North", "South"][i // 2 % 2], ["Placebo", "Active"][i % 2], f"{i + 1:03d}",
                        str(11 + i)] for i in range(8)])

    def d(kind, secs, headers="default", **o):
        dd = dict(kind=kind, secs=secs, headers=headers)
        for k in ("page", "title", "subline", "footnote", "source", "page_header", "page_footer", "figure"):
            dd[k] = o.get(k)
        return dd
    docs = [d("single", [[0, 0]]),                       # 0: 3 columns around the shared body
            d("single", [[1, 0]]),                       # 1: 4 columns around the same body
            d("single", [[2, 1]]),                       # 2: fails (blue, non-contiguous g)
            d("multi", [[0, 2], [0, 3]]),                # 3: multi-section red/blue
            d("multi", [[0, 8], [3, 8]], footnote=7),    # 4: sections of 3 and 5 columns, one body object (D22 shape)
            d("single", [[0, 5]], dict(flat=[4])),       # 5: shared header, widths [1,3,1]
            d("single", [[0, 6]], dict(flat=[4])),       # 6: shared header, widths [3,1,1]
            d("single", [[4, 9]], page=10),              # 7: 9.7 pt, cells at the wrap edge, 10 rows per page
            d("single", [[5, 11]]),                      # 8: 9.5 pt
            d("single", [[6, 12]], title=13),            # 9: subline_by + two page_by columns
            d("single", [[0, 14]], dict(flat=[16])),                      # 10: explicit-width body and header
            d("multi", [[0, 14], [0, 15]], dict(nested=[[16], [None]])),  # 11: the same objects in the first of two sections
            d("single", [[0, 8]], footnote=17),                           # 12: table document, footnote closes the table
            d("figure", [], footnote=17, figure=18)]                      # 13: refused (figure + table-rendered footnote)
    pool = dict(components=comps, frames=[f3, f4, fbad, f5, fcom, fsite, flist], docs=docs)
    labels = ["shared-3col", "shared-4col", "fail-blue", "multi", "multi-2-5", "hdr-131", "hdr-311", "edge-9.7pt", "plain-9.5pt",
              "listing-subline+page_by2", "explicit-body-single", "explicit-body-first-of-two", "table-footnote",
              "refused-figure+table-footnote"]
    hs = [dict(ops=[["construct", 0, 0]], target=1, reuse=None, target_twice=False),
          dict(ops=[["construct", 0, 1]], target=0, reuse=None, target_twice=True),
          dict(ops=[["construct", 0, 2], ["encode", 0]], target=3, reuse=None, target_twice=False),
          dict(ops=[["construct", 0, 2], ["encode", 0], ["drop", 0]], target=0, reuse=None, target_twice=False),
          dict(ops=[["construct", 0, 4], ["twice", 0]], target=4, reuse=0, target_twice=True),
          dict(ops=[["construct", 0, 5], ["encode", 0]], target=6, reuse=None, target_twice=False),
          dict(ops=[["construct", 0, 6]], target=5, reuse=None, target_twice=False),
          dict(ops=[["construct", 0, 8], ["encode", 0]], target=7, reuse=None, target_twice=False),
          dict(ops=[["construct", 0, 7], ["encode", 0]], target=8, reuse=None, target_twice=True),
          dict(ops=[["measure", dict(text="x", font=1, font_size=9.5, unit="px", dpi=96.0)]], target=7, reuse=None,
               target_twice=False),
          dict(ops=[], target=9, reuse=None, target_twice=True),
          dict(ops=[["construct", 0, 9], ["encode", 0]], target=9, reuse=0, target_twice=False),
          dict(ops=[["construct", 0, 11], ["encode", 0]], target=10, reuse=None, target_twice=False),
          dict(ops=[["construct", 0, 10], ["construct", 1, 11], ["encode", 0], ["encode", 1]], target=10, reuse=0,
               target_twice=True),
          dict(ops=[["construct", 0, 10], ["encode", 0]], target=11, reuse=None, target_twice=True),
          dict(ops=[["construct", 0, 12], ["encode", 0], ["attempt", 13]], target=12, reuse=0, target_twice=False),
          dict(ops=[["attempt", 13]], target=12, reuse=None, target_twice=True)]
    return pool, labels, hs


def corpus_files():
    """hand-written figure-files histories (the two everyday shapes: a plot regenerated between two reports; two report
    directories with their own `fig.png`, the process changes from one into the other)"""
    import random

    pool = dict(components=[dict(cls="RTFTitle", kw=dict(text="Figure 1"))], frames=[], docs=[])
    labels = []
    gen_figfs(random.Random(14), pool, labels)
    fam = pool["figfs"]["members"]
    rel, ab = fam[labels.index("figfs-rel")], fam[labels.index("figfs-abs-start-dir")]
    cwd = pool["figfs"]["cwd"]
    other = (cwd + 1) % pool["figfs"]["ndirs"]
    new = pool["figfs"]["spare"][f"{cwd},0"]["other"][0]
    hs = [dict(ops=[["construct", 0, ab], ["encode", 0], ["fs", dict(ev="write", d=cwd, n=0, c=new)]], target=ab, reuse=None,
               target_twice=True, figfs_mode="files-changed"),
          dict(ops=[["construct", 0, rel], ["encode", 0], ["fs", dict(ev="chdir", d=other)]], target=rel, reuse=None,
               target_twice=False, figfs_mode="cwd-only"),
          dict(ops=[["construct", 0, rel], ["encode", 0], ["fs", dict(ev="chdir", d=other)]], target=rel, reuse=0,
               target_twice=False, figfs_mode="cwd-only")]
    return pool, labels, hs


# ------------------------------------------------------------------ model requests

def ctor_of(dd):
    others = [dd[k] for k in ("title", "subline", "footnote", "source", "page_header", "page_footer", "page", "figure")
              if dd.get(k) is not None]
    return dict(kind=dd["kind"], secs=dd["secs"], headers=dd["headers"], others=others)


def model_request(pool, hist, ob, hashseed=0, ref_seeds=()):
    ops = []
    for op in hist["ops"]:
        if op[0] in ("fs", "recreate"):
            # not operations of the base world: it has no file system, and a re-created component is equal-valued
            # (`files_request` sends the events to `Model.World.runF`)
            continue
        if op[0] == "construct":
            ops.append(dict(op="construct", n=op[1], ctor=ctor_of(pool["docs"][op[2]])))
        elif op[0] == "lookup":
            ops.append(dict(op="lookup", c=op[1]))
        elif op[0] in ("measure", "attempt"):
            # a refused `RTFDocument(...)` raises in the validator before anything is stored: no document, no state —
            # a step that leaves the world alone (that the library does refuse is checked in `judge`)
            ops.append(dict(op="measure"))
        else:
            ops.append(dict(op=op[0], n=op[1]))
    return dict(op="c14_world", heap=[[i, h] for i, h in enumerate(ob["heap0"])],
                frames=[[i, f] for i, f in enumerate(ob["frames"])], ops=ops,
                target=ctor_of(pool["docs"][hist["target"]]), seed=int(hashseed), ref_seeds=[int(x) for x in ref_seeds])


def _jref(r):
    return dict(abs=r["abs"], n=r["n"]) if "abs" in r else dict(rel=r["rel"])


def files_request(pool, hist, ob, hashseed=0):
    """the history WITH its file-system events for `Model.World.runF` (op `c14_files`): one trace entry per operation"""
    base = model_request(pool, hist, ob, hashseed)
    it = iter(base["ops"])
    ops = []
    for op in hist["ops"]:
        if op[0] == "fs":
            ev = dict(op[1])
            ev["ev"] = "write" if ev["ev"] == "replace" else ev["ev"]
            ops.append(dict(ev, op="ev"))
        elif op[0] == "recreate":
            ops.append(dict(op="measure"))          # a step that leaves the world alone
        else:
            ops.append(next(it))
    info = pool["figfs"]
    figs = [[i, [_jref(r) for r in c["kw"]["paths"]]] for i, c in enumerate(pool["components"])
            if c["cls"] == "RTFFigure" and "paths" in c["kw"]]
    return dict(op="c14_files", heap=base["heap"], frames=base["frames"], ops=ops, target=base["target"], seed=base["seed"],
                fs=dict(cwd=info["cwd"], files=info["files"]), figs=figs)


def obs_out(o):
    """implementation outcome → the oracle's ObsOut JSON"""
    if o is None:
        return dict(cls="<none>", msg="")
    if "ok" in o:
        return dict(ok=f"{o['ok']}:{o['len']}")
    return dict(cls=o["cls"], msg=o["msg"])


def target_obs(t):
    if "construct" in t:
        return dict(cls="construct:" + t["construct"]["cls"], msg=t["construct"]["msg"])
    return obs_out(t.get("out"))


def oracle_request(ob, fresh, others=()):
    """`fresh` = the reference interpreter (PYTHONHASHSEED=0); `others` = [(hash seed, observation)] of fresh
    interpreters started with other hash seeds"""
    tw = [[obs_out(o["a"]), obs_out(o["b"])] for o in ob["obs"] if o["kind"] == "twice" and not o.get("missing")]
    if "out2" in ob["target"]:
        tw.append([obs_out(ob["target"]["out"]), obs_out(ob["target"]["out2"])])
    return dict(op="c14_oracle", target=target_obs(ob["target"]), fresh=target_obs(fresh), twice=tw,
                frames=ob["frame_digests"], others=[target_obs(o) for _, o in others])


_CT = re.compile(r"\{\\colortbl;((?:\n[^\n}]*)*)\n\}")


def parse_colors(s):
    m = _CT.search(s)
    codes = m.group(1).split("\n")[1:] if m else []
    rest = s[m.end():] if m else s
    used = set(int(x) for x in re.findall(r"\\(?:cf|chcbpat|cb)(\d+)", rest))
    brd = set(int(x) for x in re.findall(r"\\brdrcf(\d+)", rest))
    return codes, used - {0}, brd - {0}


def expected_measure(q):
    from . import c14_fit as F

    valid_font = q["font"] in FONT_NAMES or q["font"] in FONT_NAMES.values()
    if not valid_font or q["unit"] not in ("in", "mm", "px"):
        return dict(cls="ValueError")
    return dict(val=float(F.pure_string_width(q["text"], q["font"], q["font_size"], q["unit"], q["dpi"])))


def kind_of_model(o):
    return "ok" if "ok" in o else o["err"]


def kind_of_impl(o):
    return "ok" if "ok" in o else o["cls"]


def typeset_note(pool, hist, labels):
    """font / size of the bodies of the documents a history touches (what the measured family varies)"""
    def ts(did):
        out = []
        for _, b in pool["docs"][did]["secs"]:
            kw = pool["components"][b]["kw"]
            if "text_font" in kw or "text_font_size" in kw:
                out.append(f"font {kw.get('text_font', [1])} size {kw.get('text_font_size', 9)}")
        return "; ".join(out)
    dids = [o[2] for o in hist["ops"] if o[0] == "construct"]
    notes = [f"{labels[d]}: {ts(d)}" for d in dict.fromkeys(dids + [hist["target"]]) if ts(d)]
    ms = [o[1] for o in hist["ops"] if o[0] == "measure"]
    if ms:
        notes.append("direct get_string_width calls: " + "; ".join(
            f"font {q['font']!r} size {q['font_size']} unit {q['unit']} dpi {q['dpi']}" for q in ms))
    return ("  [typesetting — " + " | ".join(notes) + "]") if notes and ts(hist["target"]) else ""


def pages_note(t, f):
    a, b = (t.get("out") or {}).get("pages"), (f.get("out") or {}).get("pages")
    return f"  (pages: {a} after the history, {b} fresh)" if a is not None and b is not None else ""


def order_note(obs_list):
    """heading orders observed in the outputs (where they can be read off), per interpreter"""
    seen = [f"{who}: {o.get('order')}" for who, o in obs_list if o.get("order")]
    return ("  [order of the page_by spanning rows / subline values — " + " | ".join(seen) + "]") if seen else ""


def files_note(pool, hist, ob, fresh, fm):
    """what a figure-files history did to the tree and which images ended up in the outputs"""
    if not pool.get("figfs") or fm is None:
        return ""
    evs = fs_events(hist)
    t, f = ob["target"].get("out") or {}, fresh.get("out") or {}
    cls = ("no file-system event" if not evs else
           "files were rewritten between the operations (a history outside the quantifier of C14 as written; the "
           "reference is the fresh interpreter in the file system as it is when the target is encoded)" if fm["files_changed"]
           else "NO FILE CHANGED during the history, only the working directory / time stamps (a history of "
                "construct / encode operations as C14 quantifies them)")
    names = pool["figfs"]["names"]
    paths = ", ".join(("d%d/%s" % (r["abs"], names[r["n"]]) if "abs" in r else names[r["rel"]]) + f" [{r.get('form', 'str')}]"
                      for r in _refs_of(pool, hist["target"])) if pool["docs"][hist["target"]].get("figure") is not None \
        and "paths" in pool["components"][pool["docs"][hist["target"]]["figure"]]["kw"] else "-"
    return (f"  [figure files — target paths: {paths}; events: {'; '.join(_fmt_ev(pool, e) for e in evs) or 'none'}; "
            f"images embedded after the history: {t.get('pics')}, by the fresh interpreter in the same tree and directory: "
            f"{f.get('pics')}, the files hold now (model of the tree): {fm['fresh']}; {cls}]")


def judge_files(res, pool, hist, ob, fresh, fm):
    """figure-files histories: the model of the tree (`Model.World.Fs`) against the real one, and what every encode
    embedded against what the paths designate at that moment (`Model.World.traceF` of the code as it is: no store).
    → (disagreements, indices of the operations whose encode the model expects to raise FileNotFoundError)"""
    dis, fnf = [], set()
    if not fm["pure"]:
        raise common.MachineryError("files model: target after the history differs from the fresh world (C14files_code_purity)")
    real, fr = ob.get("fs_final"), fresh.get("fs_final")
    mfin = dict(cwd=fm["final"]["cwd"], files=sorted(fm["final"]["files"]))
    if real != mfin or (fr is not None and fr != mfin):
        raise common.MachineryError(f"file tree after the history: real {real} / fresh run {fr} / model {mfin}")
    fam = set(pool["figfs"]["members"])
    slot_doc = {}
    for i, (op, o, tr) in enumerate(zip(hist["ops"], ob["obs"], fm["trace"])):
        if op[0] == "construct":
            slot_doc[op[1]] = op[2]
            if op[2] in fam and tr and None in tr[0]:
                # the generator constructs figure documents only while their files exist (`FsSim`)
                raise common.MachineryError(f"operation {i}: figure document {op[2]} constructed while a file is missing "
                                            f"(model {tr[0]}, implementation {o})")
        if op[0] not in ("encode", "twice") or o.get("missing"):
            continue
        did = slot_doc.get(op[1])
        if did is None or (pool["docs"][did]["kind"] == "figure" and did not in fam):
            continue        # the base pool's figure document keeps its files outside the tree
        outs = [o["out"]] if op[0] == "encode" else [o["a"], o["b"]]
        for out, reads in zip(outs, tr):
            if None in reads:
                fnf.add(i)
                if out.get("cls") != "FileNotFoundError":
                    dis.append(f"operation {i} ({op[0]} of {did}): a file of the document does not exist now (model reads "
                               f"{reads}) but the implementation returned {out}")
            elif "ok" in out and out.get("pics") != reads:
                dis.append(f"operation {i} ({op[0]} of {did}): images embedded {out.get('pics')} vs what the document's "
                           f"paths designate at that moment (model) {reads}")
            elif out.get("cls") == "FileNotFoundError":
                dis.append(f"operation {i} ({op[0]} of {did}): FileNotFoundError ({out.get('msg')}) but every file exists (model "
                           f"reads {reads})")
    t = ob["target"]
    tdoc = pool["docs"][hist["target"]]
    if "out" in t and "ok" in t["out"] and (tdoc["kind"] != "figure" or hist["target"] in fam):
        if t["out"].get("pics") != fm["target"]:
            dis.append(f"target: images embedded {t['out'].get('pics')} vs what its paths designate now (model) {fm['target']}")
        if "out" in fresh and "ok" in fresh["out"] and fresh["out"].get("pics") != fm["fresh"]:
            dis.append(f"fresh interpreter: images embedded {fresh['out'].get('pics')} vs model {fm['fresh']}")
    return dis, fnf


def judge(res, case, pool, hist, ob, fresh, mdl, orc, others=(), fm=None):
    """returns nothing; records failures (property false on the implementation) and disagreements"""
    hseed = case.get("hashseed")
    # --- oracle: the property itself, decided by the Lean-defined predicate on the observations
    if orc["violations"]:
        t, f = target_obs(ob["target"]), target_obs(fresh)
        why = []
        if "history-dependent" in orc["violations"]:
            why.append(f"target after the history (interpreter with PYTHONHASHSEED={hseed}): {t}  vs fresh "
                       f"interpreter (PYTHONHASHSEED=0): {f}" + pages_note(ob["target"], fresh)
                       + order_note([(f"history, seed {hseed}", ob["target"]), ("fresh, seed 0", fresh)])
                       + typeset_note(pool, hist, case.get("labels") or [])
                       + files_note(pool, hist, ob, fresh, fm))
        if "interpreter-dependent" in orc["violations"]:
            why.append("fresh interpreters started with different string-hash seeds produce different outputs for the "
                       "same constructor call on equal-valued objects (no history involved): "
                       + "; ".join(f"PYTHONHASHSEED={sd}: {target_obs(o)}" for sd, o in [(0, fresh)] + list(others))
                       + order_note([(f"seed {sd}", o) for sd, o in [(0, fresh)] + list(others)]))
        if "encode-twice-differs" in orc["violations"]:
            why.append("two consecutive rtf_encode() calls on one document differ")
        if "frame-modified" in orc["violations"]:
            bad = [i for i, (a, b) in enumerate(ob["frame_digests"]) if a != b]
            why.append(f"caller-owned DataFrame(s) {bad} changed during the history")
        res.fail(case, f"C14 violated {orc['violations']}: " + "; ".join(why))
        return
    if mdl["violations"]:
        raise common.MachineryError(f"model observation violates its own spec: {mdl['violations']}")
    # --- correspondence with the model
    dis, fnf = [], set()
    if fm is not None:
        dis, fnf = judge_files(res, pool, hist, ob, fresh, fm)
    # the base world sees neither file-system events nor re-created (equal-valued) components
    base = [(i, o) for i, (op, o) in enumerate(zip(hist["ops"], ob["obs"])) if op[0] not in ("fs", "recreate")]
    for (mi, o), mo in zip(base, mdl["outs"]):
        k = o["kind"]
        if k == "construct":
            if mo.get("constructed") != o["ok"]:
                dis.append(f"construct: model {mo} vs implementation {o}")
        elif k in ("encode", "twice") and mi in fnf:
            pass                    # a file is missing now: the outcome kind was `judge_files`' business
        elif k == "encode" and not o.get("missing"):
            if kind_of_model(mo["encoded"]) != kind_of_impl(o["out"]):
                dis.append(f"encode outcome: model {kind_of_model(mo['encoded'])} vs implementation {o['out']}")
        elif k == "twice" and not o.get("missing"):
            if kind_of_model(mo["twice"][0]) != kind_of_impl(o["a"]):
                dis.append(f"encode-twice outcome: model {kind_of_model(mo['twice'][0])} vs implementation {o['a']}")
        elif k == "lookup":
            if o["idx"] != "unavailable" and mo.get("looked") != o["idx"]:
                dis.append(f"colour lookup outside an encode: model {mo.get('looked')} vs implementation {o['idx']}")
        elif k == "attempt":
            if o["ok"]:
                did = hist["ops"][mi][1]
                dis.append(f"RTFDocument(...) accepted a combination it refuses ({(case.get('labels') or {did: did})[did]}): "
                           f"model: ValueError raised by the validator, nothing constructed, no object touched")
        elif k == "measure":
            # the model: no state behind a measurement, i.e. the stateless Pillow function of the call's arguments
            q = hist["ops"][mi][1]          # one observation per operation, in order
            exp = expected_measure(q)
            got = dict(val=o["val"]) if "val" in o else dict(cls=o["cls"])
            if got != exp:
                dis.append(f"get_string_width({q}) after the history: {got}  vs the stateless measurement: {exp}")
        if k in ("encode", "twice") and not o.get("missing"):
            if o.get("ctx") == "unavailable":
                res.count("ctx_peek_unavailable")
            elif o.get("ctx") is not None:
                dis.append(f"colour context left behind after an encode ({o['out'] if k == 'encode' else o['a']}): {o['ctx']}")
            if o.get("registry") not in ("unavailable", None) and o["registry"] != mdl["registry"]:
                dis.append(f"registry after an encode: {o['registry']} vs model {mdl['registry']}")
    t = ob["target"]
    if "construct" in t:
        if "err" not in mdl["target_doc"]:
            dis.append(f"target construction failed ({t['construct']}) but the model constructs it")
    else:
        if t.get("ctx") not in (None, "unavailable"):
            dis.append(f"colour context left behind after the target: {t['ctx']}")
        if kind_of_model(mdl["target"]) != kind_of_impl(t["out"]):
            dis.append(f"target outcome: model {kind_of_model(mdl['target'])} vs implementation {t['out']}")
        md = mdl["target_doc"]
        if "err" in md:
            dis.append(f"model cannot construct the target: {md}")
        else:
            if md["bodies"] != t["widths"]["bodies"] or md["headers"] != t["widths"]["headers"]:
                dis.append(f"col_rel_width of the target document: model {md} vs implementation {t['widths']}")
        if "ok" in mdl["target"] and t.get("string") is not None:
            codes, used, brd = parse_colors(t["string"])
            mo = mdl["target"]["ok"]
            if codes != mo["codes"]:
                dis.append(f"colour table: model {mo['table']} {mo['codes']} vs implementation {codes}")
            midx = set(n for _, n in mo["indices"]) - {0}
            tdoc = pool["docs"][hist["target"]]
            strict = all(isinstance(pool["components"][b]["kw"].get(f), (str, type(None)))
                         for _, b in tdoc["secs"] for f in ("text_color", "text_background_color"))
            if not used <= midx or (strict and used != midx):
                dis.append(f"colour indices written: implementation {sorted(used)} vs model {sorted(midx)} "
                           f"(table {mo['table']})")
            if any(b > len(codes) for b in brd):
                dis.append(f"border colour index outside the table: {sorted(brd)}")
    # order of the heading rows: the user's lists, in every interpreter (model: `headingCols`, `sublineBy`; the model's
    # outcomes under the history's seed and under every reference seed are one and the same, `C14_seed_irrelevant`)
    if any(o != mdl["fresh"] for o in mdl.get("fresh_others", [])):
        raise common.MachineryError("model outcome depends on the hash seed")
    if "ok" in mdl["target"] and "construct" not in t and pool["docs"][hist["target"]]["kind"] == "single":
        sec = mdl["target"]["ok"]["secs"][0]
        exp = dict(page_by=sec["headings"], subline_by=sec["sublines"])
        for who, o in [(f"after the history (PYTHONHASHSEED={hseed})", t), ("fresh interpreter (PYTHONHASHSEED=0)", fresh)] \
                + [(f"fresh interpreter (PYTHONHASHSEED={sd})", o) for sd, o in others]:
            for key, got in (o.get("order") or {}).items():
                res.count("heading_order_compared:" + key + (":2+" if len(got) > 1 else ":1"))
                if got != exp[key]:
                    dis.append(f"order in which the values of the {key} columns are written, {who}: {got}  vs the "
                               f"body's {key} list (model): {exp[key]}")
    # caller-owned components unchanged (model: heap never written)
    m_heap = [[w, r] for _, w, r in mdl["heap_widths"]]
    if m_heap != ob["heap1"]:
        changed = [i for i, (a, b) in enumerate(zip(m_heap, ob["heap1"])) if a != b]
        dis.append(f"caller-owned component(s) {changed} changed during the history: "
                   f"{[(pool['components'][i]['cls'], m_heap[i], ob['heap1'][i]) for i in changed[:3]]}")
    if mdl["ctx"] is not None:
        raise common.MachineryError("model context not cleared")
    for d_ in dis[:1]:
        res.disagree(case, d_)


# ------------------------------------------------------------------ unit level

def _unit_worker(case):
    try:
        from rtflite.row import Utils
        from rtflite.services.color_service import ColorValidationError, color_service
    except Exception as e:  # noqa: BLE001
        return ("unavailable", f"{type(e).__name__}: {e}")
    ctx, cols = case
    out = dict(idx=[], util=[])
    try:
        color_service.set_document_context(used_colors=ctx)
        for c in cols:
            try:
                out["idx"].append(color_service.get_rtf_color_index(c))
            except ColorValidationError:
                out["idx"].append("invalid")
            out["util"].append(Utils._get_color_index(c))
        if ctx is not None:
            try:
                t = color_service.generate_rtf_color_table(ctx)
                out["table"] = _CT.search(t).group(1).split("\n")[1:] if t else []
            except ColorValidationError:
                out["table"] = "invalid"
    except (AttributeError, TypeError) as e:
        return ("unavailable", f"{type(e).__name__}: {e}")
    finally:
        color_service.clear_document_context()
    return out


def run_unit(res, rng, names, codes):
    cases = [(None, names[i:i + 73] + ["black", "", "nosuchcolour"]) for i in range(0, len(names), 73)]
    n = 300 if res.tier == "quick" else 4000
    for _ in range(n):
        k = rng.choice([0, 1, 2, 3, 5, 8])
        ctx = rng.sample(names, k)
        if rng.random() < 0.3:
            ctx.insert(rng.randint(0, len(ctx)), rng.choice(["", "black"]))
        if rng.random() < 0.15 and ctx:
            ctx.append(rng.choice(ctx))           # duplicate
        if rng.random() < 0.08:
            ctx.append("nosuchcolour")
        rng.shuffle(ctx)
        cols = list(dict.fromkeys(ctx + rng.sample(names, 2) + ["black", ""]))
        cases.append((ctx, cols))
    obs = common.pool_map(_unit_worker, cases, chunksize=32)
    if obs and isinstance(obs[0], tuple):
        res.notes.append("unit correspondence unavailable: " + obs[0][1])
        res.count("unit_unavailable", len(cases))
        return
    outs = common.driver_batch([dict(op="c14_color_index", ctx=c[0], colors=c[1]) for c in cases])
    for c, o, m in zip(cases, obs, outs):
        case = dict(level="unit", ctx=c[0], colors=c[1], observed=o)
        res.case(case, ("u", tuple(c[0] or ()))) if c[0] else res.case(case, None)
        res.count("unit")
        res.corr_checked += 1
        mt = m["table"]
        if isinstance(mt, list):
            mt = [codes[x] for x in mt]
        if o["idx"] != m["idx"] or o["util"] != m["util"] or (c[0] is not None and o.get("table") != mt):
            res.disagree(case, f"colour index under context {c[0]}: implementation {o} vs model {m}")


# ------------------------------------------------------------------ run

def ref_key(pk, h):
    """what a fresh reference depends on: the pool, the target, and the file-system events of the history (the
    reference is computed in the tree and the working directory they lead to)"""
    evs = fs_events(h)
    return (pk, h["target"], json.dumps(evs, sort_keys=True) if evs else "")


def execute(res, groups, fresh_cache, others_cache=None, ref_seeds=()):
    """groups = [(work, hash seed of the interpreter the histories run in)], work = [(pool_key, pool, labels, hist,
    nt)] → run histories; references: every target in a new interpreter with PYTHONHASHSEED=0 and, per seed of
    `ref_seeds`, in a forked child of an interpreter started with that seed (after the history's file-system events,
    if any); model, oracle; judge"""
    others_cache = {} if others_cache is None else others_cache
    work, obs, seed_of = [], [], []
    for wk, hashseed in groups:
        o = run_histories([dict(pool=p, history=h) for _, p, _, h, _ in wk], hashseed)
        work += wk
        obs += o
        seed_of += [hashseed] * len(wk)
    need, need_others = {}, {}
    for (pk, p, _, h, _), ob in zip(work, obs):
        key = ref_key(pk, h)
        if key not in fresh_cache and key not in need:
            need[key] = (p, h["target"], fs_events(h))
        if ref_seeds and key not in others_cache and key not in need_others:
            need_others[key] = (p, h["target"])
    pools = {pk: p for pk, p, _, _, _ in work}
    with ThreadPoolExecutor(common.NCPU + len(ref_seeds)) as ex:
        keys_o = list(need_others)
        many = [ex.submit(run_fresh_many, {k: v for k, v in pools.items() if any(k == ko[0] for ko in keys_o)},
                          keys_o, sd, max(2, common.NCPU // 2)) for sd in ref_seeds] if keys_o else []
        futs = {k: ex.submit(run_fresh, p, t, 0, False, evs) for k, (p, t, evs) in need.items()}
        for k, f in futs.items():
            fresh_cache[k] = f.result()
        for sd, f in zip(ref_seeds, many):
            for k, o in zip(keys_o, f.result()):
                others_cache.setdefault(k, []).append((sd, o))
    reqs, where = [], []
    for (pk, p, _, h, _), ob, hashseed in zip(work, obs, seed_of):
        key = ref_key(pk, h)
        where.append(len(reqs))
        reqs.append(model_request(p, h, ob, hashseed, [0] + [sd for sd, _ in others_cache.get(key, [])]))
        reqs.append(oracle_request(ob, fresh_cache[key], others_cache.get(key, [])))
        if h.get("figfs_mode") is not None and p.get("figfs"):
            reqs.append(files_request(p, h, ob, hashseed))
    outs = common.driver_batch(reqs)
    for i, ((pk, p, labels, h, nt), ob, hashseed) in enumerate(zip(work, obs, seed_of)):
        mdl, orc = outs[where[i]], outs[where[i] + 1]
        fm = outs[where[i] + 2] if h.get("figfs_mode") is not None and p.get("figfs") else None
        key = ref_key(pk, h)
        others = others_cache.get(key, [])
        case = dict(level="history", hashseed=hashseed, ref_seeds=[sd for sd, _ in others], pool=p, history=h,
                    labels=labels)
        res.case(case, nt)
        res.count("references_per_target:" + str(1 + len(others)))
        res.corr_checked += 1
        res.count("target:" + labels[h["target"]])
        res.count(f"prior_primitive_ops:{min(len(h['ops']), 9)}")
        for o in ob["obs"]:
            if o["kind"] == "encode" and not o.get("missing"):
                res.count("prior_encode:" + ("ok" if "ok" in o["out"] else o["out"]["cls"]))
            elif o["kind"] in ("twice", "construct", "drop", "lookup", "recreate"):
                res.count("prior_" + o["kind"])
            elif o["kind"] == "measure":
                res.count("prior_measure:" + ("value" if "val" in o else o["cls"]))
            elif o["kind"] == "fs":
                res.count("figfs_event:" + o["ev"])
            elif o["kind"] == "attempt":
                res.count("prior_attempt:" + ("constructed" if o["ok"] else "refused:" + o["cls"]))
        t = ob["target"]
        res.count("target_outcome:" + ("construct-error" if "construct" in t else kind_of_impl(t["out"])))
        if h.get("reuse") is not None:
            res.count("target_reuses_live_document")
        if fm is not None:
            count_files(res, p, h, fm)
        if h.get("share_mode") is not None and p.get("sharefamily"):
            count_share(res, p, h)
        if h.get("refused_mode") is not None:
            res.count("refused_history:" + h["refused_mode"] + ":shares-" + h.get("refused_via", "?"))
            for op in h["ops"]:
                if op[0] == "attempt":
                    res.count("attempted:" + labels[op[1]])
        judge(res, case, p, h, ob, fresh_cache[key], mdl, orc, others, fm)


def count_files(res, pool, hist, fm):
    """evidence labels of a figure-files history: its class (did any file change?) and whether it could tell the code
    from a store of image bytes keyed by the path as spelled / by the resolved path (computed by the Lean model)"""
    evs = fs_events(hist)
    cls = ("no-fs-event" if not evs else "files-rewritten(outside-the-quantifier-as-written)" if fm["files_changed"]
           else "no-file-changed(cwd/touch-only)")
    res.count("figfs_history:" + cls)
    for r in _refs_of(pool, hist["target"]):
        res.count("figfs_target_path:" + ("rel" if "rel" in r else "abs") + ":" + r.get("form", "str"))
    if fm["target_spelling_keyed_store"] != fm["target"]:
        res.count("figfs_history_exposes_store_keyed_by_path-as-spelled:" + cls)
    if fm["target_resolved_keyed_store"] != fm["target"]:
        res.count("figfs_history_exposes_store_keyed_by_resolved-path:" + cls)
    seen = [c for tr in fm["trace"] for reads in tr for c in reads if c is not None]
    if any(c is not None and c not in seen for c in fm["target"]):
        res.count("figfs_target_embeds_an_image_no_earlier_encode_read")


def run(res: common.Result, build) -> int:
    rng = sub_rng(res.seed, "c14")
    names = color_names()
    from rtflite.dictionary.color_table import name_to_rtf

    run_unit(res, sub_rng(res.seed, "c14unit"), names, dict(name_to_rtf))
    quick = res.tier == "quick"
    rounds = 6 if quick else 32
    per_round = 25 if quick else 100
    per_measured = 18 if quick else 36
    per_figfs = 14 if quick else 24
    per_share = 16 if quick else 32
    per_refused = 8 if quick else 15
    pairs = share_pairs(res.seed)
    fresh_cache = {}
    work = []
    cpool, clabels, chists = corpus(names)
    for h in chists:
        work.append(("corpus", cpool, clabels, h, ("corpus", json.dumps(h["ops"]), h["target"])))
    fpool, flabels, fhists = corpus_files()
    for h in fhists:
        work.append(("corpus-files", fpool, flabels, h, ("corpus-files", json.dumps(h["ops"]), h["target"])))
    for r in range(rounds):
        pool, labels = gen_round(sub_rng(res.seed, "c14pool", r), names)
        pool["n_base"] = len(pool["docs"])
        pool["n_base_comps"] = len(pool["components"])
        info = gen_measured(sub_rng(res.seed, "c14measured", r), pool, labels)
        res.count("measured_family_frames", len(info["texts"]))
        res.count("measured_family_frames_break_moves_under_0.8pct_drift", info["sensitive"])
        for k in range(per_round):
            h, nt = gen_history(sub_rng(res.seed, "c14hist", r, k), pool, labels)
            work.append((r, pool, labels, h, nt))
        for k in range(per_measured):
            # two of three histories start with the next ordered pair of family members
            n_pair = (r * per_measured + k) // 3 * 2 + k % 3
            h, nt = gen_measured_history(sub_rng(res.seed, "c14mhist", r, k), pool, labels,
                                         None if k % 3 == 2 else n_pair + 29 * res.seed)
            res.count("measured_history:" + ("random-ops" if k % 3 == 2 else "ordered-pair-first"))
            work.append((r, pool, labels, h, nt))
        # hash-order family (appended after the measured family): every member is a target once (thorough: twice)
        hinfo = gen_hashfamily(sub_rng(res.seed, "c14hash", r), pool, labels, names)
        for k in range(len(hinfo["members"]) * (1 if quick else 2)):
            h, nt = gen_hash_history(sub_rng(res.seed, "c14hhist", r, k), pool, labels, k)
            res.count("hash_order_history")
            work.append((r, pool, labels, h, nt))
        # figure-files family (appended last): histories with file-system events between the operations, alternately
        # without any file change (working directory / time stamps only) and with rewritten / replaced / renamed files
        finfo = gen_figfs(sub_rng(res.seed, "c14figfs", r), pool, labels)
        res.count("figfs_family_documents", len(finfo["members"]))
        for k in range(per_figfs):
            h, nt = gen_figfs_history(sub_rng(res.seed, "c14fhist", r, k), pool, labels, r * per_figfs + k + 7 * res.seed)
            res.count("figfs_history_generated:" + h["figfs_mode"])
            work.append((r, pool, labels, h, nt))
        # shared-sections family (appended after the figure-files family): three body objects and three header objects
        # in single- and multi-section documents at every section position; the run walks through all ordered pairs of
        # its document roles (earlier document, target)
        sinfo = gen_sharefamily(sub_rng(res.seed, "c14share", r), pool, labels, names, r + res.seed)
        res.count("share_family_documents", len(sinfo["members"]))
        for k in range(per_share):
            pair = pairs[(r * per_share + k) % len(pairs)]
            h, nt = gen_share_history(sub_rng(res.seed, "c14shist", r, k), pool, labels, pair)
            work.append((r, pool, labels, h, nt))
        # refused constructions (appended last): attempts the validator rejects, on objects live documents use
        rinfo = gen_refused(sub_rng(res.seed, "c14refused", r), pool, labels)
        res.count("refused_family_documents", len(rinfo["members"]))
        for k in range(per_refused):
            h, nt = gen_refused_history(sub_rng(res.seed, "c14rhist", r, k), pool, labels, r * per_refused + k + 5 * res.seed)
            work.append((r, pool, labels, h, nt))
    seeds = [1 + rng.randrange(4_000_000_000)]
    # the histories run in interpreters with two different hash seeds (alternating), every reference is computed
    # under PYTHONHASHSEED=0 and under two more seeds: 4 interpreters per target that must agree
    srng = sub_rng(res.seed, "c14seeds")
    seeds.append(1 + srng.randrange(4_000_000_000))
    ref_seeds = [1 + srng.randrange(4_000_000_000) for _ in range(2)]
    others_cache = {}
    execute(res, [(work[0::2], seeds[0]), (work[1::2], seeds[1])], fresh_cache, others_cache, ref_seeds)
    if not quick:
        # the same histories (a quarter of them) under two more hash seeds, and the baselines under another one
        for extra in range(2):
            hs = 1 + rng.randrange(4_000_000_000)
            seeds.append(hs)
            sub = [w for i, w in enumerate(work) if i % 4 == extra or w[0] == "corpus"]
            execute(res, [(sub, hs)], fresh_cache, others_cache, ref_seeds)
        keys = list(fresh_cache)[:: max(1, len(fresh_cache) // 150)]
        pools = {w[0]: w[1] for w in work}
        with ThreadPoolExecutor(common.NCPU) as ex:
            again = list(ex.map(lambda k: run_fresh(pools[k[0]], k[1], 987654321, False, json.loads(k[2]) if k[2] else []),
                                keys))
        for k, a in zip(keys, again):
            res.count("baseline_under_second_hashseed")
            if target_obs(a) != target_obs(fresh_cache[k]):
                case = dict(level="fresh-hashseed", pool=pools[k[0]], target=k[1], events=json.loads(k[2]) if k[2] else [])
                res.fail(case, f"fresh-interpreter output depends on PYTHONHASHSEED: {target_obs(a)} vs "
                               f"{target_obs(fresh_cache[k])}")
    # the replay names the failing history with the fewest operations — one in which no file changed (a history of
    # the property's own quantifier) before one with rewritten files
    def _rank(cw):
        h = cw[0].get("history") or {}
        return (1 if files_rewritten(h) else 0, len(h.get("ops", ())))
    res.failures.sort(key=_rank)
    if any(cw[0].get("history", {}).get("figfs_mode") for cw in res.failures):
        res.extra["figure_files_failures"] = {
            "no file changed (working directory / time stamps only)": sum(
                1 for c, _ in res.failures if (c.get("history") or {}).get("figfs_mode") and not files_rewritten(c["history"])),
            "files rewritten between the operations": sum(
                1 for c, _ in res.failures if (c.get("history") or {}).get("figfs_mode") and files_rewritten(c["history"]))}
    res.extra["hashseeds"] = dict(histories=seeds, baseline=0, further_references=ref_seeds)
    res.extra["fresh_subprocesses"] = len(fresh_cache)
    return common.finish(
        res, build, RULE, TRUSTED, ASSUME,
        explanation="C14_inv_step / C14_inv_reachable: the invariant (context None, registry constant after "
                    "initialisation, caller-owned objects and frames unwritten, live documents = their constructor's "
                    "result) holds after every operation, failing encodes included, for histories of any length. "
                    "C14_purity, C14_purity_constructed, C14_encode_twice, C14_frames_unchanged, C14_heap_unchanged, "
                    "C14_equal_valued, C14_hashseed(_table), C14_spec_of_model follow. The hash seed is a component of "
                    "the world, constant along every history (C14_seed_unchanged); the outcome is independent of it "
                    "(C14_seed_irrelevant(_table,_doc)), hence equal to that of a fresh interpreter with ANY seed "
                    "(C14_purity_any_interpreter, C14_equal_valued_any_seed, C14_seed_spec_of_model); heading rows follow "
                    "the user's lists (C14_headings_user_order); C14_seed_witness: a set of two column names is "
                    "enumerated differently under two seeds. C14_legacy_*_witness show that "
                    "the model distinguishes the pre-repair behaviours (D18, shared widths). C14memo_*: a process-global "
                    "keyed store (cache) in front of a stateless function keeps every answer history-independent iff "
                    "its key determines the value (C14memo_pure_iff); lifted to the world with encodes and direct "
                    "measurements filling the store (C14memo_world_purity); loaded fonts keyed by (file, int(2*size)) "
                    "or by size alone are witnesses of the other kind. C14files_*: the world with a file system (working "
                    "directory, file contents) and events between the operations; the target's outcome and the images it "
                    "embeds after any history are those of a fresh process in the file system reached (C14files_code_purity, "
                    "C14files_purity, C14files_reads_current), iff the key of a store of file contents determines the content "
                    "(C14files_pure_iff); the path as spelled does not, with no file changing (C14files_spelling_cwd_witness), "
                    "the resolved path does exactly while no file changes (C14files_resolved_pure_readonly, "
                    "C14files_resolved_rewrite_witness). C14share_*: a document holds the caller's body object itself iff "
                    "the body has explicit widths that need no broadcasting (C14share_body_by_reference_iff; otherwise a "
                    "copy no history can reach, C14share_body_copy_isolated), a header iff it has widths of its own "
                    "(C14share_header_by_reference_iff); what is read through such a reference after any history is the "
                    "caller's object as created (C14share_reference_reads_callers_object); purity for constructor calls "
                    "with any number of sections, any of them references (C14share_purity_any_position).")


def replay(payload) -> int:
    case = payload.get("case") or {}
    if not case and payload.get("broken"):
        for b in payload["broken"]:
            if b.get("kind") == "correspondence":
                case = b["case"]
    if case.get("level") == "unit":
        o = _unit_worker((case["ctx"], case["colors"]))
        m = common.driver_batch([dict(op="c14_color_index", ctx=case["ctx"], colors=case["colors"])])[0]
        print("implementation:", o)
        print("model         :", m)
        bad = isinstance(o, tuple) or o["idx"] != m["idx"] or o["util"] != m["util"]
    elif case.get("level") == "fresh-hashseed":
        a = run_fresh(case["pool"], case["target"], 0, False, case.get("events"))
        b = run_fresh(case["pool"], case["target"], 987654321, False, case.get("events"))
        print("hash seed 0        :", target_obs(a))
        print("hash seed 987654321:", target_obs(b))
        bad = target_obs(a) != target_obs(b)
    else:
        pool, hist = case["pool"], case["history"]
        hseed = case.get("hashseed", 1)
        ob = run_histories([dict(pool=pool, history=hist)], hseed)[0]
        evs = fs_events(hist)
        fresh = run_fresh(pool, hist["target"], 0, True, evs)
        # on replay every further reference is a new interpreter of its own
        others = [(sd, run_fresh(pool, hist["target"], sd, False, evs)) for sd in case.get("ref_seeds", [])]
        with_files = hist.get("figfs_mode") is not None and pool.get("figfs")
        outs = common.driver_batch([model_request(pool, hist, ob, hseed, [0] + [sd for sd, _ in others]),
                                    oracle_request(ob, fresh, others)]
                                   + ([files_request(pool, hist, ob, hseed)] if with_files else []))
        mdl, orc = outs[0], outs[1]
        fm = outs[2] if with_files else None
        print("history            :", hist)
        print("kinds              :", [case["labels"][o[2]] for o in hist["ops"] if o[0] == "construct"],
              "→ target", case["labels"][hist["target"]])
        print("prior observations :", [{k: v for k, v in o.items() if k != "registry"} for o in ob["obs"]])
        print("target (history)   :", target_obs(ob["target"]))
        print("target (fresh)     :", target_obs(fresh), "(PYTHONHASHSEED=0)")
        for sd, o in others:
            print("target (fresh)     :", target_obs(o), f"(PYTHONHASHSEED={sd})")
        print("heading order      :", dict(history=ob["target"].get("order"), fresh=fresh.get("order"),
                                           **{f"fresh_{sd}": o.get("order") for sd, o in others}))
        if fm is not None:
            print("file-system events :", [_fmt_ev(pool, e) for e in evs])
            print("images embedded    :", dict(history=(ob["target"].get("out") or {}).get("pics"),
                                               fresh=(fresh.get("out") or {}).get("pics"), files_hold_now=fm["fresh"]))
        print("violated clauses   :", orc["violations"])
        tmp = common.Result("C14", "quick", 0)
        judge(tmp, case, pool, hist, ob, fresh, mdl, orc, others, fm)
        for _, why in tmp.failures:
            print("FAIL:", why)
        for _, why in tmp.disagreements:
            print("MODEL DISAGREES:", why)
        bad = bool(tmp.failures or tmp.disagreements)
    if bad:
        print("VIOLATION property=C14 replay=<given>")
        return 1
    print("property holds on this input")
    return 0
