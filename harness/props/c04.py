"""C04 — page breaks occur only when required, and always when required.

Theorems: lean/Props/C04.lean about `Model.Paginate.assignPages`.
Tie to the code on every run:
  unit level        real `PageBreakCalculator._assign_pages`  vs  model (driver op `assign_pages`)
  observation level whole documents through `rtf_encode()`; the page of every tagged data row is read
                    back from the RTF; the Lean-defined oracle `checkBreaks` (the decidable form of the
                    theorem's clauses) is evaluated on the *observed* pagination with row costs computed
                    here from the document (never from rtflite internals).
  (d) rows of two subline_by / (new_page) page_by groups never share a page — checked on the observation
  (e) prefix stability — metamorphic on the implementation: the table cut after m rows paginates its rows
      exactly as the full table did.
"""
from __future__ import annotations

import itertools
import re

from .. import common, docgen, rtfread
from ..common import sub_rng

RULE = ("unit: metadata vectors (total 1..4, group/subline flags, nrow, additional, new_page) — exhaustive for "
        "small n, random above; docs: tagged tables under plain/page_by/subline_by pagination with 1..3-line rows "
        "well inside a band; non-trivial = at least 2 pages and at least one break caused by overflow or by a "
        "grouping rule; distinct by (strategy, nrow, additional, page vector)")
TRUSTED = [
    "Lean 4.33 kernel; axioms ⊆ {propext, Classical.choice, Quot.sound} (audited per theorem on every run)",
    "Lean compiler for the driver executable (compiled evaluation agrees with kernel reduction)",
    "harness/rtfread.py (Python RTF reader used to observe the page of each tagged row)",
    "row costs fed to the oracle are computed by the harness from the document: 1 line per short cell, k lines "
    "for texts measured with get_string_width to lie well inside the k-line band, +1 per rendered group heading",
]
MANIFEST = dict(
    text="Lean theorems over the model of _assign_pages + group-change detection (all row lists, nrow, "
         "reservations, flag patterns, by induction): numbering from 1 without gaps, a break only when the row "
         "does not fit or a grouping rule demands it, always then, prefix stability. The model is tied to the code "
         "on every run by unit correspondence (exhaustive small vectors + random) and by observation of whole "
         "documents whose observed pagination is judged by the Lean-defined oracle checkBreaks; in addition the "
         "loop of _assign_pages is translated from its Python source on every run (harness/pytranslate.py) and proved "
         "equal to the model for all inputs (Props/C04py.lean).",
    note="Row costs in the document-level oracle come from the harness (texts well inside a line band, measured "
         "with the real get_string_width); Pillow, polars and pydantic are parameters.",
    technique="Lean 4 proof (induction over rows) + source-to-Lean translation of _assign_pages with an equality theorem + "
              "differential correspondence model/implementation",
    design="7/C04",
)
ASSUME = [
    "Pillow/FreeType string width is a parameter (measured, not modelled)",
    "polars row order and slicing; pydantic construction",
    "float division in int(w/cw): generated widths stay ≥ 0.2 line away from band edges",
]


# ------------------------------------------------------------------ unit level

def _unit_worker(case):
    """case = (nrow, add, np, rows[(total, grp, sub)]) → observed page list or ('unavailable', msg)"""
    try:
        import polars as pl
        from rtflite.pagination.core import PageBreakCalculator, RTFPagination

        nrow, add, np_, rows = case
        calc = PageBreakCalculator(pagination=RTFPagination(
            page_width=8.5, page_height=11, margin=[1.25, 1, 1.75, 1.25, 1.75, 1.00625], nrow=nrow,
            orientation="portrait"))
        schema = {"row_index": pl.Int64, "data_rows": pl.Int64, "pageby_header_rows": pl.Int64,
                  "subline_header_rows": pl.Int64, "column_header_rows": pl.Int64, "total_rows": pl.Int64,
                  "page": pl.Int64, "is_group_start": pl.Boolean, "is_subline_start": pl.Boolean}
        recs = [dict(row_index=i, data_rows=t, pageby_header_rows=0, subline_header_rows=0, column_header_rows=0,
                     total_rows=t, page=0, is_group_start=g, is_subline_start=s) for i, (t, g, s) in enumerate(rows)]
        meta = pl.DataFrame(recs, schema=schema, orient="row")
        out = calc._assign_pages(meta, add, np_)
        return [int(x) for x in out["page"].to_list()]
    except (ImportError, AttributeError, TypeError) as e:
        return ("unavailable", f"{type(e).__name__}: {e}")


def unit_cases(rng, tier):
    cases = []
    nmax = 4 if tier == "quick" else 6
    # exhaustive small vectors: heights {1,2,3}^n, all group-change patterns, avail 1..6
    for n in range(0, nmax + 1):
        for hs in itertools.product((1, 2, 3), repeat=n):
            for gmask in range(1 << max(0, n - 1)) if n else [0]:
                for avail in ((1, 2, 3, 4, 6) if tier == "quick" else range(1, 9)):
                    grp = [True] + [bool(gmask >> k & 1) for k in range(n - 1)]
                    for mode in (0, 1, 2):  # 0: page_by new_page, 1: page_by no new_page, 2: subline
                        rows = [(h, (g if mode < 2 else False), (g if mode == 2 else False)) for h, g in zip(hs, grp)]
                        cases.append((avail + 2, 2, mode == 0, rows))
    n_rand = 4000 if tier == "quick" else 120000
    for k in range(n_rand):
        n = rng.randint(0, 40)
        rows = [(rng.choice((1, 1, 1, 2, 3, 4)), rng.random() < 0.25, rng.random() < 0.1) for _ in range(n)]
        if rows:
            rows[0] = (rows[0][0], True, rows[0][2] or rng.random() < 0.5)
        cases.append((rng.randint(1, 14), rng.randint(0, 5), rng.random() < 0.5, rows))
    return cases


def run_unit(res: common.Result, rng, tier):
    cases = unit_cases(rng, tier)
    obs = common.pool_map(_unit_worker, cases, chunksize=256)
    if obs and isinstance(obs[0], tuple) and obs[0][0] == "unavailable":
        res.notes.append("unit correspondence unavailable: " + obs[0][1])
        res.count("unit_unavailable", len(cases))
        return
    reqs = [dict(op="assign_pages", nrow=c[0], add=c[1], np=c[2], rows=[[t, g, s] for t, g, s in c[3]], observed=o)
            for c, o in zip(cases, obs) if not isinstance(o, tuple)]
    outs = common.driver_batch(reqs)
    for c, o, r in zip(cases, obs, outs):
        case = dict(level="unit", nrow=c[0], additional=c[1], new_page=c[2], rows=[list(x) for x in c[3]], observed=o)
        nt = None
        if o and max(o) >= 2:
            nt = ("u", c[0], c[1], c[2], tuple(o), tuple(x[0] for x in c[3]))
        res.case(case, nt)
        res.count("unit")
        res.corr_checked += 1
        if r["viol"]:
            res.fail(case, f"_assign_pages violates C04 clauses {r['viol'][:3]}")
        elif r["pages"] != o:
            res.disagree(case, f"model pages {r['pages']} != implementation {o}")


# ------------------------------------------------------------------ observation level

_MEASURE_CACHE = {}


def measure(text: str) -> float:
    from rtflite.strwidth import get_string_width

    if text not in _MEASURE_CACHE:
        _MEASURE_CACHE[text] = get_string_width(text, font=1, font_size=9)
    return _MEASURE_CACHE[text]


def text_in_band(rng, tag: str, k: int, col_width: float) -> str:
    """a text starting with `tag` whose width lies well inside the k-line band of col_width"""
    if k == 1:
        return tag
    lo, hi = (k - 1 + 0.25) * col_width, (k - 0.25) * col_width
    words = ["lorem", "ipsum", "dolor", "sit", "amet", "elit", "sed", "do"]
    s = tag
    if rng.random() < 0.3:
        # wide glyphs only (no blanks): few characters, much width — a character count says nothing about the width
        s += " "
        while measure(s) < lo:
            s += rng.choice("WMWM@%")
    while measure(s) < lo:
        s += " " + rng.choice(words)
    if measure(s) > hi:  # overshoot (narrow column): trim characters
        while measure(s) > hi and len(s) > len(tag):
            s = s[:-1]
        if measure(s) < lo:
            return tag  # cannot place; stay 1-line
    return s


def gen_doc(rng, tier):
    """spec + expectation for one observation-level case"""
    strategy = rng.choice(["plain", "plain", "page_by", "page_by_np", "page_by_np_first", "subline", "subline_page_by"])
    n = rng.choice([0, 1, 2, 3]) if rng.random() < 0.08 else rng.randint(4, 45)
    ndata = rng.randint(2, 4)
    cols = [f"c{j}" for j in range(ndata)]
    keycols = []
    page_by = subline_by = None
    if strategy.startswith("page_by"):
        nlev = rng.choice([1, 1, 2])
        page_by = [f"g{l}" for l in range(nlev)]
        keycols = page_by
    elif strategy == "subline":
        # one heading paragraph per page whatever the number of subline_by columns: one reserved line
        subline_by = ["s0", "s1"] if rng.random() < 0.35 else ["s0"]
        keycols = subline_by
    elif strategy == "subline_page_by":
        subline_by = ["s0", "s1"] if rng.random() < 0.35 else ["s0"]
        page_by = ["g0"]
        keycols = subline_by + page_by
    nrow = rng.randint(2, 30)
    # group keys as runs, hierarchical for multi-level
    keyvals = {}
    if keycols:
        outer = docgen.run_keys(rng, n, ["K" + x for x in "ABCDEFGH"], 1, max(2, nrow))
        keyvals[keycols[0]] = outer
        for lvl, kc in enumerate(keycols[1:], 1):
            inner = []
            i = 0
            while i < n:
                j = i
                while j < n and outer[j] == outer[i]:
                    j += 1
                inner += docgen.run_keys(rng, j - i, [f"L{lvl}" + x for x in "pqrstu"], 1, max(1, nrow // 2))
                i = j
            keyvals[kc] = inner
            outer = [a + "|" + b for a, b in zip(outer, inner)]
    # sometimes one outer group value is so long that its heading text needs two lines (the estimate the code makes
    # for heading rows: max(1, int(width("col: val | col: val") / table width) + 1)), well inside the two-line band
    def heading_text(sel, i):
        return " | ".join(f"{c}: {keyvals[c][i]}" for c in sel if str(keyvals[c][i]) != "-----")

    W_TABLE = 6.25
    # (only for key columns that are not displayed as data columns: a long value in a narrow data column is a row height)
    pb_hidden = bool(page_by) and strategy != "page_by_np"
    cands = ([subline_by] if subline_by else []) + ([page_by] if pb_hidden else [])
    if cands and n and rng.random() < 0.3:
        sel = rng.choice(cands)
        kc0 = sel[0]
        v0 = rng.choice(sorted(set(keyvals[kc0])))
        idx = [i for i in range(n) if keyvals[kc0][i] == v0]
        words = ["lorem", "ipsum", "dolor", "sit", "amet", "elit", "sed", "do"]
        long_v, ok = v0, False
        for _ in range(80):
            long_v += " " + rng.choice(words)
            for i in idx:
                keyvals[kc0][i] = long_v
            ws = [measure(heading_text(sel, i)) / W_TABLE for i in idx]
            if min(ws) >= 1.3:
                ok = max(ws) <= 1.7
                break
        if not ok:
            for i in idx:
                keyvals[kc0][i] = v0
    all_cols = keycols + cols
    # col widths: equal relative widths → each displayed column width
    removed = set()
    if subline_by:
        removed |= set(subline_by)
    if page_by:
        new_page = strategy in ("page_by_np", "page_by_np_first")
        pageby_row = "first_row" if strategy == "page_by_np_first" else "column"
        if not new_page or pageby_row != "column":
            removed |= set(page_by)
    else:
        new_page, pageby_row = False, "column"
    displayed = [c for c in all_cols if c not in removed]
    col_total = 6.25  # portrait default col_width = 8.5 - 2.25
    cw = col_total / len(displayed)
    lines = []
    rows = []
    for i in range(n):
        k = 1
        r = rng.random()
        if r < 0.15:
            k = 2
        elif r < 0.22:
            k = 3
        row = [keyvals[kc][i] for kc in keycols]
        jlong = rng.randrange(ndata)
        klines = 1
        for j in range(ndata):
            tag = f"r{i}c{j}"
            if j == jlong and k > 1:
                t = text_in_band(rng, tag, k, cw)
                klines = max(1, int(measure(t) / cw) + 1)
                row.append(t)
            else:
                row.append(tag)
        lines.append(klines)
        rows.append(row)
    hdr_mode = rng.choice(["explicit", "explicit2", "none"])
    if hdr_mode == "none":
        headers = []
    elif hdr_mode == "explicit":
        headers = [dict(text=[f"H{j}" for j in range(len(displayed))])]
    else:
        headers = [dict(text=["TOP"], col_rel_width=[1]), dict(text=[f"H{j}" for j in range(len(displayed))])]
    fn = rng.random() < 0.5
    src = rng.random() < 0.4
    body = {}
    if page_by:
        body["page_by"] = page_by
        body["new_page"] = new_page
        body["pageby_row"] = pageby_row
    if subline_by:
        body["subline_by"] = subline_by
    if rng.random() < 0.5:
        body["pageby_header"] = rng.random() < 0.5
    spec = dict(kind="table", df=dict(cols=all_cols, rows=rows), page=dict(nrow=nrow), headers=headers, body=body,
                footnote=dict(text="FOOTNOTE", as_table=rng.random() < 0.6) if fn else None,
                source=dict(text="SOURCE", as_table=rng.random() < 0.5) if src else None)
    additional = (1 if subline_by else 0) + len(headers) + (1 if fn else 0) + (1 if src else 0)
    # group-change flags on str(value)
    def chg(colsel):
        out = []
        for i in range(n):
            out.append(True if i == 0 else any(str(keyvals[c][i]) != str(keyvals[c][i - 1]) for c in colsel))
        return out
    pch = chg(page_by) if page_by else [False] * n
    sch = chg(subline_by) if subline_by else [False] * n
    meta = []
    def hrows(sel, i):
        txt = heading_text(sel, i)
        return max(1, int(measure(txt) / W_TABLE) + 1) if txt else 0

    for i in range(n):
        t = lines[i] + (hrows(page_by, i) if (page_by and pch[i]) else 0) + (hrows(subline_by, i) if (subline_by and sch[i]) else 0)
        meta.append([t, bool(page_by and pch[i]), bool(subline_by and sch[i])])
    np_eff = True if subline_by else bool(new_page)
    exp = dict(nrow=nrow, additional=additional, np=np_eff, rows=meta, strategy=strategy,
               skeys=["|".join(keyvals[c][i] for c in subline_by) for i in range(n)] if subline_by else None,
               pkeys=["|".join(keyvals[c][i] for c in page_by) for i in range(n)] if page_by else None)
    return dict(spec=spec, exp=exp)


_TAG = re.compile(r"^\s*r(\d+)c(\d+)")


def observe_pages(rtf_text: str, n: int):
    """page number (1-based) of every tagged data row; None if a row is missing"""
    doc = rtfread.read(rtf_text)
    pages = [None] * n
    seen = {}
    for pno, page in enumerate(doc.pages, 1):
        for b in page.blocks:
            if b.kind != "row":
                continue
            for c in b.cells:
                m = _TAG.match(c.text)
                if m:
                    i = int(m.group(1))
                    seen[i] = seen.get(i, 0) + 1
                    if i < n:
                        pages[i] = pno
                    break
    return pages, seen


def _doc_worker(case):
    st = docgen.encode(case["spec"])
    if st[0] != "ok":
        return dict(status=st[0], exc=st[1], msg=st[2])
    n = len(case["spec"]["df"]["rows"])
    try:
        pages, seen = observe_pages(st[1], n)
    except rtfread.RtfError as e:
        return dict(status="unreadable", msg=str(e))
    out = dict(status="ok", pages=pages, dup=[i for i, k in seen.items() if k != 1])
    m = case.get("prefix_m")
    if m is not None:
        spec2 = dict(case["spec"])
        spec2["df"] = dict(cols=spec2["df"]["cols"], rows=spec2["df"]["rows"][:m])
        st2 = docgen.encode(spec2)
        if st2[0] == "ok":
            out["prefix_pages"] = observe_pages(st2[1], m)[0]
        else:
            out["prefix_error"] = st2[1:]
    return out


def judge_doc(res, case, ob, drv):
    exp = case["exp"]
    n = len(exp["rows"])
    if ob["status"] != "ok":
        res.fail(case, f"encode failed: {ob}")
        return
    pages = ob["pages"]
    if n and (any(p is None for p in pages) or ob["dup"]):
        res.fail(case, f"data rows missing or duplicated in output (pages={pages}, dup={ob['dup']})")
        return
    if n:
        # (a)(b)(c) — Lean-defined oracle on the observed pagination
        if drv["viol"]:
            res.fail(case, f"observed pagination {pages} violates {drv['viol'][:4]} (model: {drv['pages']})")
            return
        if drv["pages"] != pages:
            res.disagree(case, f"model pages {drv['pages']} != observed {pages}")
        # (d) no page mixes groups
        for keys, on in ((exp["skeys"], True), (exp["pkeys"], exp["np"])):
            if keys and on:
                byp = {}
                for i, p in enumerate(pages):
                    byp.setdefault(p, set()).add(keys[i])
                mixed = {p: sorted(v) for p, v in byp.items() if len(v) > 1}
                if mixed:
                    res.fail(case, f"a page mixes rows of several groups: {mixed}")
                    return
    # (e) prefix stability on the implementation
    if "prefix_pages" in ob:
        m = case["prefix_m"]
        if ob["prefix_pages"] != pages[:m]:
            res.fail(case, f"appending rows changed earlier pagination: first {m} rows alone {ob['prefix_pages']} "
                           f"vs inside full table {pages[:m]}")
    elif "prefix_error" in ob:
        res.fail(case, f"prefix table failed to encode: {ob['prefix_error']}")


def run_docs(res, rng, tier, corpus=()):
    ndocs = 260 if tier == "quick" else 3000
    cases = list(corpus)
    for k in range(ndocs):
        c = gen_doc(sub_rng(res.seed, "c04doc", k), tier)
        n = len(c["exp"]["rows"])
        if n >= 2 and k % 3 == 0:
            c["prefix_m"] = sub_rng(res.seed, "c04pm", k).randint(1, n - 1)
        cases.append(c)
    obs = common.pool_map(_doc_worker, cases, chunksize=4)
    reqs = [dict(op="assign_pages", nrow=c["exp"]["nrow"], add=c["exp"]["additional"], np=c["exp"]["np"],
                 rows=c["exp"]["rows"],
                 observed=[p or 0 for p in (o.get("pages") or [])] if o["status"] == "ok" else [])
            for c, o in zip(cases, obs)]
    drv = common.driver_batch(reqs)
    for c, o, d in zip(cases, obs, drv):
        pages = o.get("pages") or []
        nt = None
        if o["status"] == "ok" and pages and max(p or 0 for p in pages) >= 2:
            nt = ("d", c["exp"]["strategy"], c["exp"]["nrow"], c["exp"]["additional"], tuple(pages))
        res.case(dict(level="doc", spec=c["spec"], exp=c["exp"], prefix_m=c.get("prefix_m")), nt)
        res.count("doc:" + c["exp"]["strategy"])
        res.count(f"doc_pages:{min(9, max([0] + [p or 0 for p in pages]))}")
        res.corr_checked += 1
        judge_doc(res, dict(level="doc", spec=c["spec"], exp=c["exp"], prefix_m=c.get("prefix_m")), o, d)


def run(res: common.Result, build) -> int:
    rng = sub_rng(res.seed, "c04")
    run_unit(res, rng, res.tier)
    run_docs(res, rng, res.tier)
    if res.failures or res.disagreements or not build["proof_ok"]:
        pass  # intensified search would go here; the streams above already cover the small space exhaustively
    return common.finish(
        res, build, RULE, TRUSTED, ASSUME,
        explanation="Theorems C04_a_*, C04_bc, C04_c_always, C04_e_* hold for every row list, nrow, reservation and "
                    "flag pattern (induction over the row list). (d) is checked on the observation and follows in "
                    "the model from C04_c_always + monotone page numbers.")


def replay(payload) -> int:
    case = payload.get("case") or {}
    if case.get("level") == "unit":
        c = (case["nrow"], case["additional"], case["new_page"], [tuple(x) for x in case["rows"]])
        o = _unit_worker(c)
        r = common.driver_batch([dict(op="assign_pages", nrow=c[0], add=c[1], np=c[2],
                                      rows=[list(x) for x in c[3]], observed=o)])[0]
        print("implementation pages:", o)
        print("model pages         :", r["pages"])
        print("violated clauses    :", r["viol"])
        bad = bool(r["viol"])
    else:
        o = _doc_worker(case)
        exp = case["exp"]
        r = common.driver_batch([dict(op="assign_pages", nrow=exp["nrow"], add=exp["additional"], np=exp["np"],
                                      rows=exp["rows"], observed=[p or 0 for p in (o.get("pages") or [])])])[0]
        print("observed pages:", o)
        print("model pages   :", r["pages"])
        print("violations    :", r["viol"])
        tmp = common.Result("C04", "quick", 0)
        judge_doc(tmp, case, o, r)
        for _, why in tmp.failures:
            print("FAIL:", why)
        bad = bool(tmp.failures)
    if bad:
        print("VIOLATION property=C04 replay=<given>")
        return 1
    print("property holds on this input")
    return 0
