"""C04 — page breaks occur only when required, and always when required.

Theorems: lean/Props/C04.lean about `Model.Paginate.assignPages`.
Tie to the code on every run:
  unit level        real `PageBreakCalculator._assign_pages`  vs  model (driver op `assign_pages`)
  observation level whole documents through `rtf_encode()`; the page of every tagged data row is read
                    back from the RTF; the Lean-defined oracle `checkBreaks` (the decidable form of the
                    theorem's clauses) is evaluated on the *observed* pagination with row costs computed
                    here from the document (never from rtflite internals).  Three streams: equal widths / one font
                    (`gen_doc`), general geometry (`gen_doc_w`), and fonts / sizes that vary BY ROW over columns that
                    repeat their texts (`gen_doc_r`: the height of a cell is a function of its text, of the font and
                    size at its own row and column, and of its own column's width — of nothing else).  Each stream
                    has a second part, the NULL CLASS: nulls, empty strings and numbers at random positions of every data
                    column over unequal column widths (`_blank_row`): such a cell still is a displayed column of the row.
  (d) rows of two subline_by / (new_page) page_by groups never share a page — checked on the observation
  (e) prefix stability — metamorphic on the implementation: the table cut after m rows paginates its rows
      exactly as the full table did.
"""
from __future__ import annotations

import itertools
import re

from .. import common, docgen, laygen, rtfread
from ..common import sub_rng

RULE = ("unit: metadata vectors (total 1..4, group/subline flags, nrow, additional, new_page) — exhaustive for "
        "small n, random above; docs: tagged tables under plain/page_by/subline_by pagination with 1..3-line rows "
        "well inside a band — (i) equal column widths, one font, key columns first; (ii) `w/…` general geometry: "
        "col_rel_width vectors (int / float / equal, over the frame's columns or over the displayed columns only), "
        "custom table width, font and font size per table / per column / per cell, key columns first / last / between "
        "the data columns, every grouping option (page_by 0..2 levels × new_page × pageby_row, subline_by 0..2 levels, "
        "both) — so that the set of columns leaving the table, and whether a page_by column STAYS in it, runs over all "
        "cases; every displayed cell (tags, long texts, kept key values) is ≥ 0.2 line inside a band at the width, "
        "font and size of its OWN column, long texts in any number of columns, also long 1-line texts; (iii) `r/…` the "
        "same geometry with text_font_size and / or text_font varying BY ROW (tuple, n×1 matrix, full matrix with equal "
        "rows, per-cell matrix over a palette of 2-3 values, tuples and matrices SHORTER than the table that are repeated "
        "cyclically) and with data columns that repeat their texts: every data column but the one that carries the row "
        "tags draws from a pool of 1-3 texts of the column plus near-repeats (one character more / less / changed, case "
        "swapped), so the same text stands in one column at two sizes / fonts with two different line counts; values of a "
        "page_by column that stays in the table long enough to wrap at the larger size; every cell ≥ 0.2 line inside a "
        "band at the font and size of its OWN ROW AND COLUMN; (iv) the null class, a second part of each of the three "
        "streams (default font / general geometry / row-varying), always over unequal col_rel_width: every data column draws "
        "a share of nulls and a share of empty strings (0 … 0.9: columns without any, sparse ones, almost-all-null ones; "
        "first / inner / last displayed column, several per row, in 1-, 2- and 3-line rows), optionally one data column "
        "holds numbers (Int64 or Float64 with nulls); one tagged cell per row is kept (a random column per row; the tag "
        "column in r/); a null stands only where the text \"None\" at the font and size of that very cell is ≤ 0.8 line of "
        "its own column, numbers likewise, so these cells need one line whether a null is measured as \"None\" (what the "
        "code does) or as the empty text it is rendered as, and the row's height is that of its other cells, each in its "
        "own column; "
        "non-trivial = at least 2 pages and at least one break caused by overflow or by a "
        "grouping rule; distinct by (strategy, nrow, additional, page vector)")
TRUSTED = [
    "Lean 4.33 kernel; axioms ⊆ {propext, Classical.choice, Quot.sound} (audited per theorem on every run)",
    "Lean compiler for the driver executable (compiled evaluation agrees with kernel reduction)",
    "harness/rtfread.py (Python RTF reader used to observe the page of each tagged row)",
    "row costs fed to the oracle are computed by the harness from the document: the height of a row is the largest "
    "int(width / column width) + 1 over its displayed cells, each text measured with get_string_width at the font and "
    "size of its own cell (row AND column: laygen.attr_at on the attribute as given, cyclic broadcast; nothing is "
    "remembered per text) against the width of its own column (col_rel_width share of the table width) and "
    "generated to lie well inside that band; + the heading lines of the groups the row starts; a null cell, an empty "
    "string and a number count one line (they are generated only where str(value) — \"None\" for a null — is ≤ 0.8 line "
    "of the cell's own column at its own font and size)",
]
MANIFEST = dict(
    text="Lean theorems over the model of _assign_pages + group-change detection (all row lists, nrow, "
         "reservations, flag patterns, by induction): numbering from 1 without gaps, a break only when the row "
         "does not fit or a grouping rule demands it, always then, prefix stability. The model is tied to the code "
         "on every run by unit correspondence (exhaustive small vectors + random) and by observation of whole "
         "documents whose observed pagination is judged by the Lean-defined oracle checkBreaks; in addition the "
         "loop of _assign_pages is translated from its Python source on every run (harness/pytranslate.py) and proved "
         "equal to the model for all inputs (Props/C04py.lean). Null cells: Props/C04null.lean (a null counts the lines "
         "of the text \"None\"; where that text fits its column the row's data lines are 1 or those of ANOTHER displayed "
         "cell at its own width — the null neither adds lines nor moves its neighbours to another column).",
    note="Row costs in the document-level oracle come from the harness (texts well inside a line band of their own "
         "column — its width, font and size —, measured with the real get_string_width; unequal col_rel_width, "
         "per-column / per-cell / per-ROW fonts and sizes (tuples, column matrices, cyclic short values) with texts that "
         "repeat within a column, so one text has several heights in one column; page_by columns kept in or removed from "
         "the table, key columns at any position; null / empty-string / numeric cells at any position of any data column "
         "over unequal widths, a null only where \"None\" fits well inside one line of its cell, so that the height of the "
         "row does not depend on how a null is measured); Pillow, polars and pydantic are parameters.",
    technique="Lean 4 proof (induction over rows) + source-to-Lean translation of _assign_pages with an equality theorem + "
              "differential correspondence model/implementation",
    design="7/C04",
)
ASSUME = [
    "Pillow/FreeType string width is a parameter (measured, not modelled)",
    "polars row order and slicing; pydantic construction",
    "float division in int(w/cw): generated widths stay ≥ 0.2 line away from band edges",
    "a null cell is measured by calculate_row_metadata as the text \"None\" and rendered as an empty cell: the documents "
    "hold nulls only in cells where \"None\" (font and size of the cell) is ≤ 0.8 line of the cell's column, so a row's "
    "height is the same under both readings; rows whose height would rest on the measurement of a null are outside the "
    "property's quantifier (unambiguous heights) and are not generated",
]


# ------------------------------------------------------------------ unit level

def _unit_worker(case):
    """case = (nrow, add, np, rows[(total, grp, sub)]) → observed page list or ('unavailable', msg)"""
    try:
        import polars as pl
        from rtflite.pagination.core import PageBreakCalculator, RTFPagination

        nrow, add, np_, rows = case
        calc = PageBreakCalculator(pagination=RTFPagination(
            page_width=8.5, page_height=11, margin=[1.25, 1, 1.75, 1.25, 1.75, 1.00625], nrow=nrow,
            orientation="portrait"))
        schema = {"row_index": pl.Int64, "data_rows": pl.Int64, "pageby_header_rows": pl.Int64,
                  "subline_header_rows": pl.Int64, "column_header_rows": pl.Int64, "total_rows": pl.Int64,
                  "page": pl.Int64, "is_group_start": pl.Boolean, "is_subline_start": pl.Boolean}
        recs = [dict(row_index=i, data_rows=t, pageby_header_rows=0, subline_header_rows=0, column_header_rows=0,
                     total_rows=t, page=0, is_group_start=g, is_subline_start=s) for i, (t, g, s) in enumerate(rows)]
        meta = pl.DataFrame(recs, schema=schema, orient="row")
        out = calc._assign_pages(meta, add, np_)
        return [int(x) for x in out["page"].to_list()]
    except (ImportError, AttributeError, TypeError) as e:
        return ("unavailable", f"{type(e).__name__}: {e}")


def unit_cases(rng, tier):
    cases = []
    nmax = 4 if tier == "quick" else 6
    # exhaustive small vectors: heights {1,2,3}^n, all group-change patterns, avail 1..6
    for n in range(0, nmax + 1):
        for hs in itertools.product((1, 2, 3), repeat=n):
            for gmask in range(1 << max(0, n - 1)) if n else [0]:
                for avail in ((1, 2, 3, 4, 6) if tier == "quick" else range(1, 9)):
                    grp = [True] + [bool(gmask >> k & 1) for k in range(n - 1)]
                    for mode in (0, 1, 2):  # 0: page_by new_page, 1: page_by no new_page, 2: subline
                        rows = [(h, (g if mode < 2 else False), (g if mode == 2 else False)) for h, g in zip(hs, grp)]
                        cases.append((avail + 2, 2, mode == 0, rows))
    n_rand = 4000 if tier == "quick" else 120000
    for k in range(n_rand):
        n = rng.randint(0, 40)
        rows = [(rng.choice((1, 1, 1, 2, 3, 4)), rng.random() < 0.25, rng.random() < 0.1) for _ in range(n)]
        if rows:
            rows[0] = (rows[0][0], True, rows[0][2] or rng.random() < 0.5)
        cases.append((rng.randint(1, 14), rng.randint(0, 5), rng.random() < 0.5, rows))
    return cases


def run_unit(res: common.Result, rng, tier):
    cases = unit_cases(rng, tier)
    obs = common.pool_map(_unit_worker, cases, chunksize=256)
    if obs and isinstance(obs[0], tuple) and obs[0][0] == "unavailable":
        res.notes.append("unit correspondence unavailable: " + obs[0][1])
        res.count("unit_unavailable", len(cases))
        return
    reqs = [dict(op="assign_pages", nrow=c[0], add=c[1], np=c[2], rows=[[t, g, s] for t, g, s in c[3]], observed=o)
            for c, o in zip(cases, obs) if not isinstance(o, tuple)]
    outs = common.driver_batch(reqs)
    for c, o, r in zip(cases, obs, outs):
        case = dict(level="unit", nrow=c[0], additional=c[1], new_page=c[2], rows=[list(x) for x in c[3]], observed=o)
        nt = None
        if o and max(o) >= 2:
            nt = ("u", c[0], c[1], c[2], tuple(o), tuple(x[0] for x in c[3]))
        res.case(case, nt)
        res.count("unit")
        res.corr_checked += 1
        if r["viol"]:
            res.fail(case, f"_assign_pages violates C04 clauses {r['viol'][:3]}")
        elif r["pages"] != o:
            res.disagree(case, f"model pages {r['pages']} != implementation {o}")


# ------------------------------------------------------------------ observation level

_MEASURE_CACHE = {}


def measure(text: str) -> float:
    from rtflite.strwidth import get_string_width

    if text not in _MEASURE_CACHE:
        _MEASURE_CACHE[text] = get_string_width(text, font=1, font_size=9)
    return _MEASURE_CACHE[text]


def text_in_band(rng, tag: str, k: int, col_width: float) -> str:
    """a text starting with `tag` whose width lies well inside the k-line band of col_width"""
    if k == 1:
        return tag
    lo, hi = (k - 1 + 0.25) * col_width, (k - 0.25) * col_width
    words = ["lorem", "ipsum", "dolor", "sit", "amet", "elit", "sed", "do"]
    s = tag
    if rng.random() < 0.3:
        # wide glyphs only (no blanks): few characters, much width — a character count says nothing about the width
        s += " "
        while measure(s) < lo:
            s += rng.choice("WMWM@%")
    while measure(s) < lo:
        s += " " + rng.choice(words)
    if measure(s) > hi:  # overshoot (narrow column): trim characters
        while measure(s) > hi and len(s) > len(tag):
            s = s[:-1]
        if measure(s) < lo:
            return tag  # cannot place; stay 1-line
    return s


def gen_doc(rng, tier, nulls=False):
    """spec + expectation for one observation-level case; nulls: the null class (see `_blank_row`) — unequal integer
    col_rel_width, nulls / empty strings at random positions of every data column, optionally one column of numbers"""
    strategy = rng.choice(["plain", "plain", "page_by", "page_by_np", "page_by_np_first", "subline", "subline_page_by"])
    n = rng.choice([0, 1, 2, 3]) if rng.random() < 0.08 else rng.randint(4, 45)
    ndata = rng.randint(2, 4)
    cols = [f"c{j}" for j in range(ndata)]
    keycols = []
    page_by = subline_by = None
    if strategy.startswith("page_by"):
        nlev = rng.choice([1, 1, 2])
        page_by = [f"g{l}" for l in range(nlev)]
        keycols = page_by
    elif strategy == "subline":
        # one heading paragraph per page whatever the number of subline_by columns: one reserved line
        subline_by = ["s0", "s1"] if rng.random() < 0.35 else ["s0"]
        keycols = subline_by
    elif strategy == "subline_page_by":
        subline_by = ["s0", "s1"] if rng.random() < 0.35 else ["s0"]
        page_by = ["g0"]
        keycols = subline_by + page_by
    nrow = rng.randint(2, 30)
    # group keys as runs, hierarchical for multi-level
    keyvals = {}
    if keycols:
        outer = docgen.run_keys(rng, n, ["K" + x for x in "ABCDEFGH"], 1, max(2, nrow))
        keyvals[keycols[0]] = outer
        for lvl, kc in enumerate(keycols[1:], 1):
            inner = []
            i = 0
            while i < n:
                j = i
                while j < n and outer[j] == outer[i]:
                    j += 1
                inner += docgen.run_keys(rng, j - i, [f"L{lvl}" + x for x in "pqrstu"], 1, max(1, nrow // 2))
                i = j
            keyvals[kc] = inner
            outer = [a + "|" + b for a, b in zip(outer, inner)]
    # sometimes one outer group value is so long that its heading text needs two lines (the estimate the code makes
    # for heading rows: max(1, int(width("col: val | col: val") / table width) + 1)), well inside the two-line band
    def heading_text(sel, i):
        return " | ".join(f"{c}: {keyvals[c][i]}" for c in sel if str(keyvals[c][i]) != "-----")

    W_TABLE = 6.25
    # (only for key columns that are not displayed as data columns: a long value in a narrow data column is a row height)
    pb_hidden = bool(page_by) and strategy != "page_by_np"
    cands = ([subline_by] if subline_by else []) + ([page_by] if pb_hidden else [])
    if cands and n and rng.random() < 0.3:
        sel = rng.choice(cands)
        kc0 = sel[0]
        v0 = rng.choice(sorted(set(keyvals[kc0])))
        idx = [i for i in range(n) if keyvals[kc0][i] == v0]
        words = ["lorem", "ipsum", "dolor", "sit", "amet", "elit", "sed", "do"]
        long_v, ok = v0, False
        for _ in range(80):
            long_v += " " + rng.choice(words)
            for i in idx:
                keyvals[kc0][i] = long_v
            ws = [measure(heading_text(sel, i)) / W_TABLE for i in idx]
            if min(ws) >= 1.3:
                ok = max(ws) <= 1.7
                break
        if not ok:
            for i in idx:
                keyvals[kc0][i] = v0
    all_cols = keycols + cols
    # col widths: equal relative widths → each displayed column width
    removed = set()
    if subline_by:
        removed |= set(subline_by)
    if page_by:
        new_page = strategy in ("page_by_np", "page_by_np_first")
        pageby_row = "first_row" if strategy == "page_by_np_first" else "column"
        if not new_page or pageby_row != "column":
            removed |= set(page_by)
    else:
        new_page, pageby_row = False, "column"
    displayed = [c for c in all_cols if c not in removed]
    col_total = 6.25  # portrait default col_width = 8.5 - 2.25
    cw = col_total / len(displayed)
    cwl = [cw] * len(displayed)
    rel_all = numcol = None
    if nulls:
        # unequal widths, one per frame column (the removed columns' entries drop out); every tag and every kept key
        # value stays well inside the 1-line band of its column (else the spread of the widths is cut down)
        draw = [rng.choice([1, 1, 2, 3, 4, 5]) for _ in all_cols]
        for cap in (5, 3, 2, 1):
            rel_all = [min(r, cap) for r in draw]
            rel_disp = [rel_all[all_cols.index(c)] for c in displayed]
            cwl = [col_total * r / sum(rel_disp) for r in rel_disp]
            short = [(f"r{max(n - 1, 0)}c{j}", cwl[displayed.index(c)]) for j, c in enumerate(cols)]
            short += [(v, cwl[displayed.index(kc)]) for kc in keycols if kc in displayed for v in set(keyvals[kc])]
            if all(measure(t) / w <= 0.7 for t, w in short):
                break
        rates = _draw_null_rates(rng, ndata)
        if rng.random() < 0.35:
            numcol = rng.randrange(ndata)
            numvals = [rng.choice(_INTS if rng.random() < 0.5 else _FLOATS) for _ in range(3)]
            numvals = [v for v in numvals if type(v) is type(numvals[0])]
    cwd = [cwl[displayed.index(c)] for c in cols]      # width of every data column
    lines = []
    rows = []
    for i in range(n):
        k = 1
        r = rng.random()
        if r < 0.15 or (nulls and r < 0.4):
            k = 2
        elif r < 0.22 or (nulls and r < 0.5):
            k = 3
        row = [keyvals[kc][i] for kc in keycols]
        jlong = rng.randrange(ndata)
        klines = 1
        data = []
        for j in range(ndata):
            tag = f"r{i}c{j}"
            if j == jlong and k > 1:
                t = text_in_band(rng, tag, k, cwd[j])
                klines = max(1, int(measure(t) / cwd[j]) + 1)
                data.append(t)
            else:
                data.append(tag)
        if nulls:
            def none_fits(j):
                return measure("None") / cwd[j] <= 0.8

            if numcol is not None:
                fit = [v for v in numvals if measure(str(v)) / cwd[numcol] <= 0.8]
                data[numcol] = rng.choice(fit) if fit else ""
            keeper = rng.choice([j for j in range(ndata) if j != numcol])
            data = _blank_row(rng, data, rates, keeper, none_fits, numcol)
            # a null needs one line whether it is taken as "" or as "None" (it stands only where "None" fits)
            klines = max([1] + [int(measure(str(v)) / cwd[j]) + 1 for j, v in enumerate(data) if v is not None])
        lines.append(klines)
        rows.append(row + data)
    hdr_mode = rng.choice(["explicit", "explicit2", "none"])
    if hdr_mode == "none":
        headers = []
    elif hdr_mode == "explicit":
        headers = [dict(text=[f"H{j}" for j in range(len(displayed))])]
    else:
        headers = [dict(text=["TOP"], col_rel_width=[1]), dict(text=[f"H{j}" for j in range(len(displayed))])]
    fn = rng.random() < 0.5
    src = rng.random() < 0.4
    body = {}
    if page_by:
        body["page_by"] = page_by
        body["new_page"] = new_page
        body["pageby_row"] = pageby_row
    if subline_by:
        body["subline_by"] = subline_by
    if rng.random() < 0.5:
        body["pageby_header"] = rng.random() < 0.5
    if rel_all is not None:
        body["col_rel_width"] = rel_all
    spec = dict(kind="table", df=dict(cols=all_cols, rows=rows), page=dict(nrow=nrow), headers=headers, body=body,
                footnote=dict(text="FOOTNOTE", as_table=rng.random() < 0.6) if fn else None,
                source=dict(text="SOURCE", as_table=rng.random() < 0.5) if src else None)
    additional = (1 if subline_by else 0) + len(headers) + (1 if fn else 0) + (1 if src else 0)
    # group-change flags on str(value)
    def chg(colsel):
        out = []
        for i in range(n):
            out.append(True if i == 0 else any(str(keyvals[c][i]) != str(keyvals[c][i - 1]) for c in colsel))
        return out
    pch = chg(page_by) if page_by else [False] * n
    sch = chg(subline_by) if subline_by else [False] * n
    meta = []
    def hrows(sel, i):
        txt = heading_text(sel, i)
        return max(1, int(measure(txt) / W_TABLE) + 1) if txt else 0

    for i in range(n):
        t = lines[i] + (hrows(page_by, i) if (page_by and pch[i]) else 0) + (hrows(subline_by, i) if (subline_by and sch[i]) else 0)
        meta.append([t, bool(page_by and pch[i]), bool(subline_by and sch[i])])
    np_eff = True if subline_by else bool(new_page)
    exp = dict(nrow=nrow, additional=additional, np=np_eff, rows=meta, strategy=strategy,
               skeys=["|".join(keyvals[c][i] for c in subline_by) for i in range(n)] if subline_by else None,
               pkeys=["|".join(keyvals[c][i] for c in page_by) for i in range(n)] if page_by else None)
    if nulls:
        def line_at(i, p, p2):
            return int(measure(str(rows[i][all_cols.index(displayed[p])])) / cwl[p2]) + 1

        exp["shape"] = (["nulls"] + (["nulls_numeric_column"] if numcol is not None else [])
                        + _null_labels([[r[all_cols.index(c)] for c in displayed] for r in rows], cwl, line_at))
        exp["col_widths"] = [round(x, 6) for x in cwl]
        exp["data_lines"] = lines
    return dict(spec=spec, exp=exp)


# ------------------------------------------------------------------ observation level, general table geometry
#
# The documents of `gen_doc` have equal column widths, one font, key columns first.  `gen_doc_w` drops all three
# restrictions: every displayed column has its OWN width (col_rel_width vectors over all columns or over the displayed
# columns only, custom table width), its own font and font size (scalar / per column / per cell), the key columns stand
# anywhere in the frame, and the grouping options run over the whole product (page_by levels × new_page × pageby_row ×
# subline_by levels) that decides which columns leave the table.  Every displayed cell — the tags, the long texts AND
# the values of a page_by column that stays in the table — is placed well inside a line band at the width, font and
# size of its own column, so the height of every row is unambiguous (the property's quantifier).

GROUPINGS = [  # (label, page_by levels, new_page, pageby_row, subline?)
    ("plain", 0, False, "column", False),
    ("page_by", (1, 2), False, "column", False),
    ("page_by_first", (1, 2), False, "first_row", False),
    ("page_by_np", (1, 2), True, "column", False),            # the page_by columns STAY in the table
    ("page_by_np_first", (1, 2), True, "first_row", False),
    ("subline", 0, False, "column", True),
    ("subline_page_by", (1,), False, "column", True),
    ("subline_page_by_first", (1,), False, "first_row", True),
    ("subline_page_by_np", (1,), True, "column", True),       # subline column leaves, page_by column stays
    ("subline_page_by_np_first", (1,), True, "first_row", True),
]
_GROUPING_WEIGHTS = [2, 2, 1, 6, 2, 2, 1, 1, 3, 1]
SIZES = [6, 7.5, 8, 9, 10, 12, 14]
_WORDS = ["lorem", "ipsum", "dolor", "sit", "amet", "elit", "sed", "do"]


def well_inside(q: float) -> bool:
    """q = text width / column width lies ≥ 0.2 line away from every band edge"""
    k = int(q)
    return q <= 0.8 if k == 0 else 0.2 <= q - k <= 0.8


def place(rng, base: str, cw: float, font, size, k=None, fill="words"):
    """a text starting with `base` that is well inside the k-line band of ITS column (width cw, font, size);
    k=None: leave `base` as it is when it already is well inside a band, else grow it into the next band.
    Returns None when no such text exists at this width (column too narrow for the glyph steps)."""
    def q(s):
        return laygen.measure(s, font, size) / cw

    q0 = q(base)
    if k is None:
        if well_inside(q0):
            return base
        k = int(q0) + 1 if q0 - int(q0) < 0.2 else int(q0) + 2
    while q0 > k - 0.25:           # the base alone is beyond the requested band: the next band that can hold it
        k += 1
    lo, hi = (0.3 if k == 1 else k - 1 + 0.25), k - 0.25
    s = base
    if fill == "wide":
        s += " "
        while q(s) < lo:
            s += rng.choice("WMWM@%")
    while q(s) < lo:
        s += " " + rng.choice(_WORDS)
    while q(s) > hi and len(s) > len(base):
        s = s[:-1]
    s = s.rstrip() if len(s.rstrip()) >= len(base) else s
    for _ in range(200):
        if q(s) >= lo:
            break
        s += "i"
    return s if lo <= q(s) <= hi and well_inside(q(s)) else None


# ---- the row-varying class: attributes that feed the height measurement vary BY ROW, cell texts repeat in a column
#
# `text_font_size` and `text_font` are looked up per (row, displayed column); a row-shaped value (flat list) gives every
# column its own value, a column-shaped one (tuple, n×1 matrix) every ROW, a matrix every cell, and a value shorter than
# the table is repeated cyclically.  The documents of this class draw both attributes over all of these shapes from a
# SMALL palette (so that one (font, size) recurs in many rows and several stand side by side in one column), and fill the
# data columns but one from a small pool of texts per column (the same text, and texts one character away from it, in
# many rows; sometimes two columns share a pool): the height of a cell depends on its text AND on the font and size of its
# own row AND on the width of its own column, so the same text has different heights in one column, and in two columns.
# One data column keeps the row tags.

ROWVAR_SIZES = [6, 7.5, 8, 9, 10, 12, 14, 16, 18]
ROW_SHAPES = ["row_tuple", "row_tuple", "row_colmatrix", "row_matrix", "row_cycle", "cell_few", "cell_cycle"]


def _by_row(rng, n, palette, shape, ncols):
    """attribute value of the given row-varying shape over `palette`"""
    def runs():
        if rng.random() < 0.5:
            return [rng.choice(palette) for _ in range(n)]
        out = []
        while len(out) < n:
            out += [rng.choice(palette)] * rng.randint(1, 6)
        return out[:n]

    if shape == "row_tuple":
        return {"__tuple__": runs()}
    if shape == "row_colmatrix":
        return [[v] for v in runs()]
    if shape == "row_matrix":
        return [[v] * ncols for v in runs()]
    if shape == "row_cycle":           # shorter than the table: repeated cyclically down the rows
        m = rng.randint(2, 4)
        vals = [rng.choice(palette) for _ in range(m)]
        if len(set(vals)) == 1 and len(palette) > 1:
            vals[-1] = rng.choice([v for v in palette if v != vals[0]])
        return {"__tuple__": vals} if rng.random() < 0.5 else [[v] for v in vals]
    if shape == "cell_few":
        return [[rng.choice(palette) for _ in range(ncols)] for _ in range(n)]
    if shape == "cell_cycle":          # a small matrix repeated cyclically in both directions
        w = rng.randint(1, ncols)
        return [[rng.choice(palette) for _ in range(w)] for _ in range(rng.randint(2, 4))]
    raise ValueError(shape)


def _draw_rowvar_attrs(rng, body, n, ncols):
    """text_font_size / text_font of the row-varying class, written into `body`; at least one of them varies by row"""
    which = rng.choice(["size", "size", "size", "font", "both", "both"])
    smode = fmode = "default"
    if which in ("size", "both"):
        smode = rng.choice(ROW_SHAPES)
        a = rng.choice(ROWVAR_SIZES)
        # two or three sizes, one of them at least 1.5 times another: the same text changes its line count
        big = [v for v in ROWVAR_SIZES if v >= 1.5 * a or a >= 1.5 * v]
        palette = [a, rng.choice(big)] + ([rng.choice(ROWVAR_SIZES)] if rng.random() < 0.4 else [])
        body["text_font_size"] = _by_row(rng, max(n, 1), palette, smode, ncols)
    else:
        smode = rng.choice(["default", "scalar", "col"])
        if smode == "scalar":
            body["text_font_size"] = rng.choice(SIZES)
        elif smode == "col":
            body["text_font_size"] = [rng.choice(SIZES) for _ in range(ncols)]
    if which in ("font", "both"):
        fmode = rng.choice(ROW_SHAPES)
        # fonts of different width classes (1 Times, 4 Arial, 9 Courier New, …): the same text, another width
        palette = rng.sample(range(1, 11), rng.choice([2, 2, 3]))
        body["text_font"] = _by_row(rng, max(n, 1), palette, fmode, ncols)
    else:
        fmode = rng.choice(["default", "default", "scalar", "col"])
        if fmode == "scalar":
            body["text_font"] = rng.randint(1, 10)
        elif fmode == "col":
            body["text_font"] = [rng.randint(1, 10) for _ in range(ncols)]
    return smode, fmode


_STARTS = ["Dose interrupted", "Not done", "Adverse event", "Placebo", "N", "-", "Week 12 visit", "MISSING", "0.05 (0.01)"]


def _text_pool(rng, cwc, combos):
    """a small pool of texts for one column (width cwc) whose cells are shown at the (font, size) pairs `combos`: texts that
    are well inside a band at as many of the pairs as possible — preferably with DIFFERENT line counts at two of them —,
    each followed by near-repeats (one character more, one less, one changed)"""
    def qs(s):
        return [laygen.measure(s, f, z) / cwc for f, z in combos]

    pool = []
    for _ in range(rng.choice([1, 1, 2, 3])):
        s = rng.choice(_STARTS)
        target = rng.choice([1, 2, 2, 3])          # lines wanted at the widest pair
        best = None
        for _ in range(60):
            q = qs(s)
            inside = sum(well_inside(x) for x in q)
            differ = len({int(x) for x in q if well_inside(x)}) > 1
            score = (inside == len(q) and differ, differ, inside)
            if best is None or score > best[0]:
                best = (score, s)
            if (score[0] and int(max(q)) + 1 >= target) or max(q) > 3.6:
                break
            s += (" " + rng.choice(_WORDS)) if rng.random() < 0.8 else rng.choice("WM@%il.")
        t = best[1]
        pool.append(t)
        for _ in range(rng.choice([0, 1, 2, 2, 3])):
            kind = rng.choice(["more", "less", "changed", "case"])
            if kind == "more":
                pool.append(t + rng.choice(".isW"))
            elif kind == "less" and len(t) > 1:
                pool.append(t[:-1])
            elif kind == "changed":
                pool.append(t[:-1] + rng.choice("xo0."))
            else:
                pool.append(t.swapcase())
    out = []
    for t in pool:
        if t not in out and not _TAG.match(t):
            out.append(t)
    return out


def _repeat_labels(all_cols, displayed, rows, cw, fs):
    """what the row-varying document exhibits: a text repeated in one column, at two (font, size) pairs, with two heights"""
    labs = set()
    for k, c in enumerate(displayed):
        ci = all_cols.index(c)
        seen = {}
        for i, row in enumerate(rows):
            f, z = fs(i, c)
            seen.setdefault(str(row[ci]), set()).add((f, z, int(laygen.measure(str(row[ci]), f, z) / cw[k]) + 1))
        for t, v in seen.items():
            if len(v) > 1:
                labs.add("repeat_text_two_fontsizes")
                if len({x[2] for x in v}) > 1:
                    labs.add("repeat_text_two_heights")
        if len(seen) < len(rows):
            labs.add("repeat_text_in_column")
    by_text = {}
    for k, c in enumerate(displayed):
        ci = all_cols.index(c)
        for i, row in enumerate(rows):
            f, z = fs(i, c)
            by_text.setdefault((str(row[ci]), f, z), set()).add(
                (k, int(laygen.measure(str(row[ci]), f, z) / cw[k]) + 1))
    for v in by_text.values():
        if len({x[0] for x in v}) > 1:
            labs.add("same_text_font_size_in_two_columns")
            if len({x[1] for x in v}) > 1:
                labs.add("same_text_font_size_two_heights_by_width")
    return ["rowvar_" + x for x in sorted(labs)]


# ---- the null class: cells that are null, empty, or typed values — at any position of any data column
#
# A frame cell need not be a non-empty string.  A null is RENDERED as an empty cell, while `calculate_row_metadata`
# measures `str(value)` = "None"; an empty string is rendered and measured as nothing; an Int64 / Float64 column hands
# out python numbers whose `str()` is measured.  The height of a row is unambiguous (the property's quantifier) when every
# such cell needs ONE line however it is looked at: a cell is made null only where the text "None", at the font and size
# of that very cell, is well inside the 1-line band of the cell's own column (q ≤ 0.8), numbers likewise; so neither the
# cell's own line count nor the row's depends on what a null is measured as, and the oracle counts one line for it.  What
# the class exercises is everything AROUND such a cell: it still is a displayed column with its own width, font and
# size, and every other cell of the row — left and right of it — keeps being measured against ITS OWN column.  The
# documents of the class draw, per data column, a share of nulls and a share of empty strings (0 … 0.9: columns without
# any, sparse ones, columns that are almost all null), optionally turn one data column into numbers (all int / all float,
# with nulls), keep one tagged cell per row (a random column in every row; in the `r/` stream the tag column), and have
# unequal column widths.

_NULL_SHARES = [0, 0, 0.1, 0.3, 0.6, 0.9]
_EMPTY_SHARES = [0, 0, 0, 0.1, 0.3]
_INTS = [0, 7, 12, 100, -3, 2024]
_FLOATS = [0.5, 3.25, 12.0, 100.125, -1.5]


def _draw_null_rates(rng, ndata, never=()):
    """per data column (share of nulls, share of empty strings); at least one column that may be blanked has nulls"""
    rates = [(rng.choice(_NULL_SHARES), rng.choice(_EMPTY_SHARES)) for _ in range(ndata)]
    free = [j for j in range(ndata) if j not in never]
    if free and not any(rates[j][0] for j in free):
        j = rng.choice(free)
        rates[j] = (rng.choice([0.2, 0.5, 0.9]), rates[j][1])
    return rates


def _blank_row(rng, vals, rates, keeper, none_fits, numcol=None):
    """`vals` (one value per data column) with nulls / empty strings drawn by the columns' shares; column `keeper` keeps
    its (tagged) text; a null only where `none_fits(j)` — the text "None" is well inside the 1-line band of that cell"""
    out = list(vals)
    for j, (a, b) in enumerate(rates):
        if j == keeper:
            continue
        u = rng.random()
        if u < a:
            if none_fits(j):
                out[j] = None
            elif j != numcol:
                out[j] = ""
        elif u < a + b and j != numcol:
            out[j] = ""
    return out


def _null_labels(disp_vals, cw, line_at):
    """what a document of the null class exhibits.  disp_vals[i][p] value of row i at displayed position p;
    line_at(i, p, p2) = lines of the cell (i, p) if it were measured with the width, font and size of position p2"""
    labs = set()
    unequal = len(set(round(x, 6) for x in cw)) > 1
    for i, vs in enumerate(disp_vals):
        nd = len(vs)
        for p, v in enumerate(vs):
            if v is None:
                labs.add("null_cell")
                labs.add("null_first_column" if p == 0 else "null_last_column" if p == nd - 1 else "null_inner_column")
                if p < nd - 1 and unequal:
                    labs.add("null_not_last+unequal_widths")
            elif v == "":
                labs.add("empty_string_cell")
            elif not isinstance(v, str):
                labs.add("number_cell")
        if sum(v is None for v in vs) > 1:
            labs.add("several_nulls_in_row")
        if any(v is None for v in vs):
            own = max([1] + [line_at(i, p, p) for p, v in enumerate(vs) if v is not None])
            if own > 1:
                labs.add("null_in_tall_row")
            # does the row's height rest on every cell being measured in its OWN column?  (the cells right of the
            # first null taken one column to the left, or all cells one to the right, give another height)
            first = min(p for p, v in enumerate(vs) if v is None)
            left = max([1] + [line_at(i, p, p - 1 if p > first else p) for p, v in enumerate(vs) if v is not None])
            right = max([1] + [line_at(i, p, min(p + 1, nd - 1)) for p, v in enumerate(vs) if v is not None])
            if left != own or right != own:
                labs.add("null_row_height_depends_on_own_column")
    return ["nulls_" + x for x in sorted(labs)]



def _gen_doc_w_once(rng, rowvar=False, nulls=False):
    label, levels, new_page, pageby_row, has_sub = rng.choices(GROUPINGS, weights=_GROUPING_WEIGHTS)[0]
    n = rng.choice([0, 1, 2, 3]) if rng.random() < 0.08 else rng.randint(4, 45)
    ndata = rng.randint(2, 4)
    cols = [f"c{j}" for j in range(ndata)]
    page_by = [f"g{l}" for l in range(rng.choice(levels))] if levels else None
    subline_by = (["s0", "s1"] if rng.random() < 0.35 else ["s0"]) if has_sub else None
    keycols = (subline_by or []) + (page_by or [])
    nrow = rng.randint(2, 30)
    keyvals = {}
    if keycols:
        outer = docgen.run_keys(rng, n, ["K" + x for x in "ABCDEFGH"], 1, max(2, nrow))
        keyvals[keycols[0]] = outer
        for lvl, kc in enumerate(keycols[1:], 1):
            inner = []
            i = 0
            while i < n:
                j = i
                while j < n and outer[j] == outer[i]:
                    j += 1
                inner += docgen.run_keys(rng, j - i, [f"L{lvl}" + x for x in "pqrstu"], 1, max(1, nrow // 2))
                i = j
            keyvals[kc] = inner
            outer = [a + "|" + b for a, b in zip(outer, inner)]

    # column order: key columns first, last, or anywhere between the data columns
    order = rng.choice(["keys_first", "keys_first", "mixed", "keys_last"])
    if order == "keys_first" or not keycols:
        all_cols = keycols + cols
    elif order == "keys_last":
        all_cols = cols + keycols
    else:
        all_cols = keycols + cols
        rng.shuffle(all_cols)
    ncols = len(all_cols)
    removed = set(subline_by or [])
    if page_by and (not new_page or pageby_row != "column"):
        removed |= set(page_by)
    displayed = [c for c in all_cols if c not in removed]
    nd = len(displayed)

    # table width and relative widths
    page = dict(nrow=nrow)
    W = 6.25
    if rng.random() < 0.25:
        W = rng.choice([4.5, 5.0, 7.0, 7.5])
        page["col_width"] = W
    wmode = rng.choice(["int", "int", "float", "displayed" if removed else "int", "equal"])
    if nulls and wmode == "equal":
        wmode = rng.choice(["int", "float"])     # the null class has unequal widths (an equal draw may still occur)
    body = {}
    if wmode == "equal":
        rel_all = [1] * ncols
        if rng.random() < 0.5:
            body["col_rel_width"] = [rng.choice([1, 2, 0.5])] * ncols
    elif wmode == "displayed":
        rel_d = [rng.choice([1, 1, 2, 3, 4, 5]) for _ in range(nd)]
        body["col_rel_width"] = rel_d            # one width per DISPLAYED column: used as it stands
        rel_all = None
    else:
        pick = (lambda: rng.choice([1, 1, 2, 3, 4, 5])) if wmode == "int" else (lambda: round(rng.uniform(0.5, 4.0), 2))
        rel_all = [pick() for _ in range(ncols)]
        body["col_rel_width"] = rel_all          # one width per frame column: the removed columns' widths drop out
    rel_disp = rel_d if rel_all is None else [rel_all[all_cols.index(c)] for c in displayed]
    cw = [W * r / sum(rel_disp) for r in rel_disp]

    # fonts and sizes: attribute vectors run over the FRAME's columns (rtflite slices them with the columns)
    if rowvar:
        # … and, in the row-varying class, over its ROWS as well (tuple / column matrix / full matrix / short cycle)
        smode, fmode = _draw_rowvar_attrs(rng, body, n, ncols)
    else:
        smode = rng.choice(["default", "default", "scalar", "col", "col", "cell" if n else "col"])
        if smode == "scalar":
            body["text_font_size"] = rng.choice(SIZES)
        elif smode == "col":
            body["text_font_size"] = [rng.choice(SIZES) for _ in range(ncols)]
        elif smode == "cell":
            body["text_font_size"] = [[rng.choice(SIZES) for _ in range(ncols)] for _ in range(n)]
        fmode = rng.choice(["default", "default", "scalar", "col"])
        if fmode == "scalar":
            body["text_font"] = rng.randint(1, 10)
        elif fmode == "col":
            body["text_font"] = [rng.randint(1, 10) for _ in range(ncols)]

    def fs(i, c):
        ci = all_cols.index(c)
        return (laygen.attr_at(body.get("text_font"), i, ci, 1), laygen.attr_at(body.get("text_font_size"), i, ci, 9))

    # a long outer value of a key column that is shown as a heading (two heading lines, well inside the band)
    def heading_text(sel, i):
        return " | ".join(f"{c}: {keyvals[c][i]}" for c in sel if str(keyvals[c][i]) != "-----")

    pb_hidden = bool(page_by) and not (new_page and pageby_row == "column")
    cands = ([subline_by] if subline_by else []) + ([page_by] if pb_hidden else [])
    if cands and n and rng.random() < 0.3:
        sel = rng.choice(cands)
        kc0 = sel[0]
        v0 = rng.choice(sorted(set(keyvals[kc0])))
        idx = [i for i in range(n) if keyvals[kc0][i] == v0]
        long_v, ok = v0, False
        for _ in range(80):
            long_v += " " + rng.choice(_WORDS)
            for i in idx:
                keyvals[kc0][i] = long_v
            ws = [measure(heading_text(sel, i)) / W for i in idx]
            if min(ws) >= 1.3:
                ok = max(ws) <= 1.7
                break
        if not ok:
            for i in idx:
                keyvals[kc0][i] = v0

    # values of key columns that stay in the table are cells like any other: pad each value (the same way in every
    # row, so the groups stay what they are) until it is well inside a band of its column in every row it stands in
    for kc in keycols:
        if kc in removed:
            continue
        k = displayed.index(kc)
        mapping = {}
        for v in sorted(set(keyvals[kc])):
            rows_v = [i for i in range(n) if keyvals[kc][i] == v]
            v2 = v
            if rowvar and rng.random() < 0.5:
                # a longer value: the SAME text stands in every row of the group, and may need more lines in the rows
                # that show it at a larger size / a wider font
                v2 += "".join(" " + rng.choice(_WORDS) for _ in range(rng.randint(1, 5)))
            for _ in range(60):
                if all(well_inside(laygen.measure(v2, *fs(i, kc)) / cw[k]) for i in rows_v):
                    break
                v2 += "."
            else:
                return None
            mapping[v] = v2
        if len(set(mapping.values())) != len(mapping):
            return None
        keyvals[kc] = [mapping[v] for v in keyvals[kc]]

    # data cells
    rows, lines = [], []
    long_left_of_kept = False
    # row-varying class: one data column carries the row tags, the others (most of them) show texts drawn from a small
    # pool of the column — the same text, and texts that differ from it in one character, in many rows of one column
    pools = {}
    tagcol = numcol = None
    if rowvar and n:
        tagcol = rng.randrange(ndata)
    if nulls and n:
        # null class: shares of nulls / empty strings per data column; one column of numbers (never the only tagged one)
        rates = _draw_null_rates(rng, ndata, never=() if tagcol is None else (tagcol,))
        if ndata >= 2 and rng.random() < 0.35:
            numcol = rng.choice([j for j in range(ndata) if j != tagcol])
            numvals = [rng.choice(_INTS if rng.random() < 0.5 else _FLOATS) for _ in range(3)]
            numvals = [v for v in numvals if type(v) is type(numvals[0])]
    if rowvar and n:
        for j, c in enumerate(cols):
            if j != tagcol and j != numcol and rng.random() < 0.8:
                if pools and rng.random() < 0.3:
                    # the texts of another column: the same text in two columns of different width (font, size)
                    pools[c] = list(pools[rng.choice(sorted(pools))])
                    continue
                combos = sorted({fs(i, c) for i in range(n)})
                pools[c] = _text_pool(rng, cw[displayed.index(c)], combos)
    for i in range(n):
        row = {kc: keyvals[kc][i] for kc in keycols}
        tall = rng.random() < 0.45
        for j, c in enumerate(cols):
            f, s = fs(i, c)
            if c in pools:
                cwc = cw[displayed.index(c)]
                fit = [t for t in pools[c] if well_inside(laygen.measure(t, f, s) / cwc)]
                if fit:
                    # mostly the pool's first text that fits: long runs of one text, at whatever size the row has
                    t = fit[0] if rng.random() < 0.6 else rng.choice(fit)
                else:
                    t = place(rng, pools[c][0], cwc, f, s, None)     # the pool text, grown into a band: near-repeat
                if t is None:
                    return None
                row[c] = t
                continue
            tag = f"r{i}c{j}"
            k = None
            if tall and rng.random() < 0.45:
                k = rng.choice([1, 1, 2, 2, 3])
            t = place(rng, tag, cw[displayed.index(c)], f, s, k, fill="wide" if rng.random() < 0.2 else "words")
            if t is None:
                return None
            row[c] = t
        if nulls:
            def one_line(j, text):
                f, s = fs(i, cols[j])
                return laygen.measure(text, f, s) / cw[displayed.index(cols[j])] <= 0.8

            if numcol is not None:
                fit = [v for v in numvals if one_line(numcol, str(v))]
                row[cols[numcol]] = rng.choice(fit) if fit else None
                if not fit and not one_line(numcol, "None"):
                    return None
            keeper = tagcol if tagcol is not None else rng.choice([j for j in range(ndata) if j != numcol])
            blanked = _blank_row(rng, [row[c] for c in cols], rates, keeper, lambda j: one_line(j, "None"), numcol)
            row.update(zip(cols, blanked))
        ln = 1
        for k, c in enumerate(displayed):
            f, s = fs(i, c)
            # a null is measured as str(None) = "None" by the code and rendered as "": it stands only where "None" is
            # well inside the 1-line band of this cell, so it needs one line either way (as do "" and the numbers)
            qv = laygen.measure(str(row[c]), f, s) / cw[k]
            if not well_inside(qv) or (not isinstance(row[c], str) and qv > 0.8):
                return None
            ln = max(ln, int(qv) + 1)
        lines.append(ln)
        rows.append([row[c] for c in all_cols])

    hdr_mode = rng.choice(["explicit", "explicit2", "none"])
    if hdr_mode == "none":
        headers = []
    else:
        bottom = dict(text=[f"H{j}" for j in range(nd)])
        if rng.random() < 0.5:
            bottom["col_rel_width"] = list(rel_disp)
        headers = [bottom] if hdr_mode == "explicit" else [dict(text=["TOP"], col_rel_width=[1]), bottom]
    fn = rng.random() < 0.5
    src = rng.random() < 0.4
    if page_by:
        body.update(page_by=page_by, new_page=new_page, pageby_row=pageby_row)
    if subline_by:
        body["subline_by"] = subline_by
    if rng.random() < 0.5:
        body["pageby_header"] = rng.random() < 0.5
    spec = dict(kind="table", df=dict(cols=all_cols, rows=rows), page=page, headers=headers, body=body,
                footnote=dict(text="FOOTNOTE", as_table=rng.random() < 0.6) if fn else None,
                source=dict(text="SOURCE", as_table=rng.random() < 0.5) if src else None)
    additional = (1 if subline_by else 0) + len(headers) + (1 if fn else 0) + (1 if src else 0)

    def chg(colsel):
        return [True if i == 0 else any(str(keyvals[c][i]) != str(keyvals[c][i - 1]) for c in colsel) for i in range(n)]

    pch = chg(page_by) if page_by else [False] * n
    sch = chg(subline_by) if subline_by else [False] * n

    def hrows(sel, i):
        txt = heading_text(sel, i)
        if not txt:
            return 0
        qh = measure(txt) / W
        if not well_inside(qh):
            raise _Ambiguous
        return max(1, int(qh) + 1)

    meta = []
    try:
        for i in range(n):
            t = (lines[i] + (hrows(page_by, i) if (page_by and pch[i]) else 0)
                 + (hrows(subline_by, i) if (subline_by and sch[i]) else 0))
            meta.append([t, bool(page_by and pch[i]), bool(subline_by and sch[i])])
    except _Ambiguous:
        return None
    kept = [c for c in (page_by or []) if c not in removed]
    shape = ["w:" + wmode, "size:" + smode, "font:" + fmode, "order:" + (order if keycols else "nokeys"),
             "tablew:" + ("default" if W == 6.25 else "custom")]
    if rowvar:
        shape = ["rowvar"] + ["rowvar_" + x for x in shape] + _repeat_labels(all_cols, displayed, rows, cw, fs)
    if nulls:
        def line_at(i, p, p2):
            f, z = fs(i, displayed[p2])
            return int(laygen.measure(str(rows[i][all_cols.index(displayed[p])]), f, z) / cw[p2]) + 1

        shape = (["nulls"] + (["nulls_numeric_column"] if numcol is not None else [])
                 + _null_labels([[r[all_cols.index(c)] for c in displayed] for r in rows], cw, line_at) + shape)
    if kept:
        shape.append("pageby_col_kept")
        if len(set(round(x, 6) for x in cw)) > 1:
            shape.append("pageby_col_kept+unequal_widths")
            if any(ln > 1 for ln in lines):
                shape.append("pageby_col_kept+unequal_widths+tall_rows")
    if removed and len(set(round(x, 6) for x in cw)) > 1:
        shape.append("cols_removed+unequal_widths")
    np_eff = True if subline_by else bool(new_page)
    exp = dict(nrow=nrow, additional=additional, np=np_eff, rows=meta, strategy=("r/" if rowvar else "w/") + label,
               shape=shape,
               col_widths=[round(x, 6) for x in cw], data_lines=lines,
               skeys=["|".join(keyvals[c][i] for c in subline_by) for i in range(n)] if subline_by else None,
               pkeys=["|".join(keyvals[c][i] for c in page_by) for i in range(n)] if page_by else None)
    return dict(spec=spec, exp=exp)


class _Ambiguous(Exception):
    pass


def gen_doc_w(seed, k, tier, nulls=False):
    """general-geometry document number k of the seed's stream (deterministic; retried with fresh sub-streams while a
    cell cannot be placed unambiguously, e.g. a column too narrow for its font); nulls: the null class, its own stream"""
    tag = "c04docwn" if nulls else "c04docw"
    for attempt in range(25):
        c = _gen_doc_w_once(sub_rng(seed, tag, k, attempt), nulls=nulls)
        if c is not None:
            c["exp"]["attempts"] = attempt + 1
            return c
    c = gen_doc(sub_rng(seed, tag + "-fallback", k), tier, nulls=nulls)
    c["exp"]["shape"] = ["fallback_equal_widths"] + (c["exp"].get("shape") or [])
    return c


def gen_doc_r(seed, k, tier, nulls=False):
    """row-varying document number k of the seed's stream (see `_draw_rowvar_attrs`, `_text_pool`)"""
    tag = "c04docrn" if nulls else "c04docr"
    for attempt in range(40):
        c = _gen_doc_w_once(sub_rng(seed, tag, k, attempt), rowvar=True, nulls=nulls)
        if c is not None:
            c["exp"]["attempts"] = attempt + 1
            return c
    c = gen_doc(sub_rng(seed, tag + "-fallback", k), tier, nulls=nulls)
    c["exp"]["shape"] = ["rowvar_fallback_equal_widths"] + (c["exp"].get("shape") or [])
    return c


_TAG = re.compile(r"^\s*r(\d+)c(\d+)")


def observe_pages(rtf_text: str, n: int):
    """page number (1-based) of every tagged data row; None if a row is missing"""
    doc = rtfread.read(rtf_text)
    pages = [None] * n
    seen = {}
    for pno, page in enumerate(doc.pages, 1):
        for b in page.blocks:
            if b.kind != "row":
                continue
            for c in b.cells:
                m = _TAG.match(c.text)
                if m:
                    i = int(m.group(1))
                    seen[i] = seen.get(i, 0) + 1
                    if i < n:
                        pages[i] = pno
                    break
    return pages, seen


def _doc_worker(case):
    st = docgen.encode(case["spec"])
    if st[0] != "ok":
        return dict(status=st[0], exc=st[1], msg=st[2])
    n = len(case["spec"]["df"]["rows"])
    try:
        pages, seen = observe_pages(st[1], n)
    except rtfread.RtfError as e:
        return dict(status="unreadable", msg=str(e))
    out = dict(status="ok", pages=pages, dup=[i for i, k in seen.items() if k != 1])
    m = case.get("prefix_m")
    if m is not None:
        spec2 = dict(case["spec"])
        spec2["df"] = dict(cols=spec2["df"]["cols"], rows=spec2["df"]["rows"][:m])
        st2 = docgen.encode(spec2)
        if st2[0] == "ok":
            out["prefix_pages"] = observe_pages(st2[1], m)[0]
        else:
            out["prefix_error"] = st2[1:]
    return out


def judge_doc(res, case, ob, drv):
    exp = case["exp"]
    n = len(exp["rows"])
    if ob["status"] != "ok":
        res.fail(case, f"encode failed: {ob}")
        return
    pages = ob["pages"]
    if n and (any(p is None for p in pages) or ob["dup"]):
        res.fail(case, f"data rows missing or duplicated in output (pages={pages}, dup={ob['dup']})")
        return
    if n:
        # (a)(b)(c) — Lean-defined oracle on the observed pagination
        if drv["viol"]:
            geo = ""
            if exp.get("col_widths"):
                geo = (f"; {exp['strategy']}, nrow {exp['nrow']}, {exp['additional']} reserved; displayed column widths "
                       f"{[round(x, 3) for x in exp['col_widths']]} in; data lines of the rows, every cell at its own "
                       f"column's width and at the font / size of its own row and column: {exp['data_lines']}")
            res.fail(case, f"observed pagination {pages} violates {drv['viol'][:4]} (model: {drv['pages']}){geo}")
            return
        if drv["pages"] != pages:
            res.disagree(case, f"model pages {drv['pages']} != observed {pages}")
        # (d) no page mixes groups
        for keys, on in ((exp["skeys"], True), (exp["pkeys"], exp["np"])):
            if keys and on:
                byp = {}
                for i, p in enumerate(pages):
                    byp.setdefault(p, set()).add(keys[i])
                mixed = {p: sorted(v) for p, v in byp.items() if len(v) > 1}
                if mixed:
                    res.fail(case, f"a page mixes rows of several groups: {mixed}")
                    return
    # (e) prefix stability on the implementation
    if "prefix_pages" in ob:
        m = case["prefix_m"]
        if ob["prefix_pages"] != pages[:m]:
            res.fail(case, f"appending rows changed earlier pagination: first {m} rows alone {ob['prefix_pages']} "
                           f"vs inside full table {pages[:m]}")
    elif "prefix_error" in ob:
        res.fail(case, f"prefix table failed to encode: {ob['prefix_error']}")


def _judge_all(res, cases, obs):
    reqs = [dict(op="assign_pages", nrow=c["exp"]["nrow"], add=c["exp"]["additional"], np=c["exp"]["np"],
                 rows=c["exp"]["rows"],
                 observed=[p or 0 for p in (o.get("pages") or [])] if o["status"] == "ok" else [])
            for c, o in zip(cases, obs)]
    drv = common.driver_batch(reqs)
    for c, o, d in zip(cases, obs, drv):
        pages = o.get("pages") or []
        nt = None
        if o["status"] == "ok" and pages and max(p or 0 for p in pages) >= 2:
            nt = ("d", c["exp"]["strategy"], c["exp"]["nrow"], c["exp"]["additional"], tuple(pages))
        res.case(dict(level="doc", spec=c["spec"], exp=c["exp"], prefix_m=c.get("prefix_m")), nt)
        res.count("doc:" + c["exp"]["strategy"])
        if "nulls" in (c["exp"].get("shape") or ()):
            st = c["exp"]["strategy"]
            res.count("doc_null_class:" + (st[:2] if st[1:2] == "/" else "m/"))
        for lab in c["exp"].get("shape") or ():
            res.count("docw_shape:" + lab)
        res.count(f"doc_pages:{min(9, max([0] + [p or 0 for p in pages]))}")
        res.corr_checked += 1
        judge_doc(res, dict(level="doc", spec=c["spec"], exp=c["exp"], prefix_m=c.get("prefix_m")), o, d)


def run_docs(res, rng, tier, corpus=()):
    ndocs = 260 if tier == "quick" else 3000
    cases = list(corpus)
    for k in range(ndocs):
        c = gen_doc(sub_rng(res.seed, "c04doc", k), tier)
        n = len(c["exp"]["rows"])
        if n >= 2 and k % 3 == 0:
            c["prefix_m"] = sub_rng(res.seed, "c04pm", k).randint(1, n - 1)
        cases.append(c)
    # the null class in the first stream: default font, unequal integer col_rel_width, nulls / empty strings / numbers
    for k in range(120 if tier == "quick" else 1200):
        c = gen_doc(sub_rng(res.seed, "c04docn", k), tier, nulls=True)
        n = len(c["exp"]["rows"])
        if n >= 2 and k % 3 == 0:
            c["prefix_m"] = sub_rng(res.seed, "c04pmn", k).randint(1, n - 1)
        cases.append(c)
    obs = common.pool_map(_doc_worker, cases, chunksize=4)
    _judge_all(res, cases, obs)


def _docw_worker(arg):
    """generate (in the worker: every placement measures with the real get_string_width) and observe"""
    seed, k, tier = arg[:3]
    nulls = len(arg) > 3 and arg[3]
    c = gen_doc_w(seed, k, tier, nulls=nulls)
    n = len(c["exp"]["rows"])
    if n >= 2 and k % 3 == 0:
        c["prefix_m"] = sub_rng(seed, "c04pmwn" if nulls else "c04pmw", k).randint(1, n - 1)
    return c, _doc_worker(c)


def run_docs_w(res, tier):
    """tables of general geometry: own width / font / size per column, key columns anywhere, every grouping option"""
    ndocs = 280 if tier == "quick" else 3000
    nnull = 200 if tier == "quick" else 2000       # the null class (nulls / empty strings / numbers in the data columns)
    args = [(res.seed, k, tier) for k in range(ndocs)] + [(res.seed, k, tier, True) for k in range(nnull)]
    out = common.pool_map(_docw_worker, args, chunksize=2)
    _judge_all(res, [c for c, _ in out], [o for _, o in out])


def _docr_worker(arg):
    seed, k, tier = arg[:3]
    nulls = len(arg) > 3 and arg[3]
    c = gen_doc_r(seed, k, tier, nulls=nulls)
    n = len(c["exp"]["rows"])
    if n >= 2 and k % 3 == 0:
        c["prefix_m"] = sub_rng(seed, "c04pmrn" if nulls else "c04pmr", k).randint(1, n - 1)
    return c, _doc_worker(c)


def run_docs_r(res, tier):
    """tables whose fonts / sizes vary BY ROW and whose columns repeat their texts (the height of a cell is a function of
    its text and of the font and size of its own row)"""
    ndocs = 200 if tier == "quick" else 2400
    nnull = 140 if tier == "quick" else 1600       # the null class over row-varying fonts / sizes
    args = [(res.seed, k, tier) for k in range(ndocs)] + [(res.seed, k, tier, True) for k in range(nnull)]
    out = common.pool_map(_docr_worker, args, chunksize=2)
    _judge_all(res, [c for c, _ in out], [o for _, o in out])


def run(res: common.Result, build) -> int:
    rng = sub_rng(res.seed, "c04")
    run_unit(res, rng, res.tier)
    run_docs(res, rng, res.tier)
    run_docs_w(res, res.tier)
    run_docs_r(res, res.tier)
    if res.failures or res.disagreements or not build["proof_ok"]:
        pass  # intensified search would go here; the streams above already cover the small space exhaustively
    return common.finish(
        res, build, RULE, TRUSTED, ASSUME,
        explanation="Theorems C04_a_*, C04_bc, C04_c_always, C04_e_* hold for every row list, nrow, reservation and "
                    "flag pattern (induction over the row list). (d) is checked on the observation and follows in "
                    "the model from C04_c_always + monotone page numbers.")


def replay(payload) -> int:
    case = payload.get("case") or {}
    if case.get("level") == "unit":
        c = (case["nrow"], case["additional"], case["new_page"], [tuple(x) for x in case["rows"]])
        o = _unit_worker(c)
        r = common.driver_batch([dict(op="assign_pages", nrow=c[0], add=c[1], np=c[2],
                                      rows=[list(x) for x in c[3]], observed=o)])[0]
        print("implementation pages:", o)
        print("model pages         :", r["pages"])
        print("violated clauses    :", r["viol"])
        bad = bool(r["viol"])
    else:
        o = _doc_worker(case)
        exp = case["exp"]
        r = common.driver_batch([dict(op="assign_pages", nrow=exp["nrow"], add=exp["additional"], np=exp["np"],
                                      rows=exp["rows"], observed=[p or 0 for p in (o.get("pages") or [])])])[0]
        print("observed pages:", o)
        print("model pages   :", r["pages"])
        print("violations    :", r["viol"])
        tmp = common.Result("C04", "quick", 0)
        judge_doc(tmp, case, o, r)
        for _, why in tmp.failures:
            print("FAIL:", why)
        bad = bool(tmp.failures)
    if bad:
        print("VIOLATION property=C04 replay=<given>")
        return 1
    print("property holds on this input")
    return 0
