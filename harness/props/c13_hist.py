"""C13 over HISTORIES — every group_by evaluation is judged by the rule for ITS OWN frame, whatever the process did before.

The unit and document streams of `c13.py` judge every case alone (the unit worker makes a new `GroupingService()` per
case, the pool workers run unrelated documents one after another).  A service that *remembers* an earlier verdict or an
earlier result (accepted tables by a fingerprint, the suppressed frame by its key columns, the restored pages by the
frame …) passes all of them: the first evaluation of any table in a process is right.  Here a case is a history
executed in ONE fresh process: a sequence of evaluations over frames that are RELATED —

  row permutations      the same rows in another order: contiguous (whole groups moved, reversed), non-contiguous
                        (two rows swapped, groups interleaved, a row moved, shuffled), re-grouped (stable sort by key)
  same key multiset     the same keys with other values in the other columns, rows shuffled inside their group
  sub- / supersets      rows dropped, a row duplicated elsewhere, a row with a new key added
  same column values    two cells of one level exchanged (per-column multisets kept, row keys not), a value replaced
                        by null / null by a value / null by "" (null is a key of its own)
  same frame            another group_by list (prefix, one inner level, reversed, permuted), another column order /
                        another set of other columns, the same document object encoded again, the same frame object
                        handed to the service again

— mixing valid-then-invalid and invalid-then-valid, 1–3 group_by levels, nulls, and three routes to the code:
`RTFDocument(...).rtf_encode()` (read back page by page), direct `enhance_group_by` + `restore_page_context` calls on
the module singleton the encoder uses / on one instance kept for the whole history / on a new instance per call, and
direct `validate_data_sorting` calls.  Every step is judged exactly like a lone case of `c13.py`: the Lean-defined
oracle (`cellViolations`, `fillViolations`, `allLevelsContiguousB`) on the real output of THAT step for THAT frame —
blank exactly the true repeats, ValueError exactly for non-contiguous keys — plus the model correspondence.
Lean side: `Model/GroupByHist.lean` (`run`: the service folded over any sequence of calls; `runMemo`: the same with
remembered acceptances under a key), theorems `Props/C13hist.lean`.

Every history runs in a fresh fork of the main process (which has imported rtflite and called nothing), so a failing
history is self-contained and replays alone; it is shrunk by dropping steps, then rows (the same row identity in every
step, so the relation between the frames is kept), then document features — each attempt again in a fresh process.
"""
from __future__ import annotations

import contextlib
import copy
import io

from .. import common, docgen
from ..common import sub_rng
from . import c13 as B

# ------------------------------------------------------------------ frames of a history (abstract rows → concrete case)
#
# history = dict(level="hist", theme, mode, L, layout=dict(order=[column names], …), steps=[step…])
# step    = dict(route="encode"|"svc"|"validate", holder="singleton"|"kept"|"fresh", rows=[[k0..k(L-1), id]…],
#                gb=[names], rel="<op><-<source step|B>", starts=[[…]…] (svc), doc=dict(strategy, nrow, hdr, footnote,
#                outer=[…]) (encode), reuse=j (the document / frame OBJECT of step j again), layout=… (override))
# A row is its key cells followed by a row identity; the identity is shown in the column "w" (when the layout has
# one) and lets the shrinker remove "the same row" from every step.  The other data columns hold position sentinels
# (`r<i>c<j>`) — the same values in every frame of the history, wherever the keys went.


def _cell(c, i, r, L):
    if c[0] == "g":
        return r[int(c[1:])]
    if c == "w":
        return f"id{r[L]}"
    return f"r{i}c{c[1:]}"


def concretize(hist, st):
    """the concrete case of a step, in the format of the stateless streams of `c13.py` (`level` doc / unit)"""
    if "case" in st:
        return st["case"]
    L = hist["L"]
    lay = st.get("layout") or hist["layout"]
    order, rows, gb = lay["order"], st["rows"], list(st["gb"])
    n = len(rows)
    if st["route"] != "encode":
        cols = [[c, [_cell(c, i, r, L) for i, r in enumerate(rows)]] for c in order]
        return dict(level="unit", stream="hist", cols=cols, gb=gb, starts=st.get("starts") or [[]])
    d = st["doc"]
    strategy = d["strategy"]
    outer_name = None if strategy == "plain" else ("s0" if strategy == "subline" else "p0")
    cols = ([outer_name] if outer_name else []) + list(order)
    frows = [([d["outer"][i]] if outer_name else []) + [_cell(c, i, r, L) for c in order] for i, r in enumerate(rows)]
    body = dict(group_by=gb)
    removed = set()
    if strategy == "subline":
        body["subline_by"] = ["s0"]
        removed.add("s0")
    elif strategy.startswith("page_by"):
        new_page = strategy != "page_by"
        pageby_row = "first_row" if strategy == "page_by_np_first" else "column"
        body.update(page_by=["p0"], new_page=new_page, pageby_row=pageby_row)
        if not new_page or pageby_row != "column":
            removed.add("p0")
    displayed = [c for c in cols if c not in removed]
    hdr = d.get("hdr", "default")
    headers = "default" if hdr == "default" else ([] if hdr == "none" else [dict(text=[f"H{j}" for j in range(len(displayed))])])
    spec = dict(kind="table", df=dict(cols=cols, rows=frows), page=dict(nrow=d["nrow"]), headers=headers, body=body,
                footnote=dict(text="FOOTNOTE") if d.get("footnote") else None)
    exp = dict(L=len(gb), strategy=strategy, kind=st.get("rel", "?"), displayed=displayed, gnames=gb, n=n,
               gcols=[[None if r[int(g[1:])] is None else str(r[int(g[1:])]) for r in rows] for g in gb])
    others = [c for c in order if c == "w" or (c[0] == "g" and c not in gb)]
    if others:
        exp["others"] = {c: ["" if _cell(c, i, r, L) is None else str(_cell(c, i, r, L)) for i, r in enumerate(rows)]
                         for c in others}
    return dict(level="doc", spec=spec, exp=exp)


def _frame_dict(case):
    cols = case["cols"]
    n = len(cols[0][1]) if cols else 0
    return dict(cols=[c for c, _ in cols], rows=[[v[i] for _, v in cols] for i in range(n)])


def _text(v):
    return None if v is None else str(v)


def _text_frame(df):
    return [[c, [_text(v) for v in df[c].to_list()]] for c in df.columns]


# ------------------------------------------------------------------ generator: related frames

def _keys(rows, L, gb=None):
    idx = list(range(L)) if gb is None else [int(g[1:]) for g in gb]
    return [tuple(r[j] for j in idx) for r in rows]


def _contig(rows, L, gb=None):
    ks = _keys(rows, L, gb)
    return B._all_levels_contig(ks, len(ks[0]) if ks else 0)


def _base(rng, L, n, as_int, empties):
    """hierarchical runs (contiguous at every level); few distinct values, so that key multisets recur"""
    pool0 = [1, 2, 3, None] if as_int else (["a", "b", "c", None] + ([""] if empties else []))
    pooln = ["x", "y", None] + ([""] if empties else [])
    rows = [[None] * L + [i] for i in range(n)]

    def fill(lo, hi, l):
        if l >= L or lo >= hi:
            return
        pool = list(pool0 if l == 0 else pooln)
        rng.shuffle(pool)
        i, k = lo, 0
        while i < hi:
            run = rng.randint(1, max(1, (hi - lo) // 2 if l == 0 else 3))
            v = pool[k % len(pool)]
            if k >= len(pool):
                v = (100 + k) if (as_int and l == 0) else f"u{k}"
            j = min(hi, i + run)
            for r in range(i, j):
                rows[r][l] = v
            fill(i, j, l + 1)
            i, k = j, k + 1

    fill(0, n, 0)
    return rows


def _runs(rows, keyf):
    out = []
    for r in rows:
        if out and keyf(out[-1][-1]) == keyf(r):
            out[-1].append(r)
        else:
            out.append([r])
    return out


def _op_scatter(rng, rows, L):
    """a permutation of the rows that is NOT contiguous, if one of the usual slips produces one"""
    n = len(rows)
    r = [list(x) for x in rows]
    if n < 3:
        return r
    for _ in range(10):
        r = [list(x) for x in rows]
        how = rng.choice(("swap", "interleave", "move", "shuffle", "tail"))
        if how == "swap":
            i, j = rng.sample(range(n), 2)
            r[i], r[j] = r[j], r[i]
        elif how == "interleave":
            lv = rng.randrange(L)
            groups = _runs(r, lambda x: tuple(x[:lv + 1]))
            r = []
            while any(groups):
                for g in groups:
                    if g:
                        r.append(g.pop(0))
        elif how == "move":
            i = rng.randrange(n)
            x = r.pop(i)
            r.insert(rng.randrange(n), x)
        elif how == "tail":
            r.append(r.pop(0))
        else:
            rng.shuffle(r)
        if not _contig(r, L):
            return r
    return r


def _op_blocks(rng, rows, L):
    r = [list(x) for x in rows]
    if rng.random() < 0.3:
        return r[::-1]
    lv = rng.randrange(L)
    # groups of level lv inside each parent run are moved as wholes (every level stays contiguous)
    out = []
    for parent in _runs(r, lambda x: tuple(x[:lv])):
        blocks = _runs(parent, lambda x: tuple(x[:lv + 1]))
        rng.shuffle(blocks)
        out += [x for b in blocks for x in b]
    return out


def _op_within(rng, rows, L):
    out = []
    for run in _runs([list(x) for x in rows], lambda x: tuple(x[:L])):
        ids = [x[L] for x in run]
        rng.shuffle(ids)
        for x, i in zip(run, ids):
            x[L] = i
        out += run
    return out


def _op_sorted(rng, rows, L):
    first = {}
    for r in rows:
        for l in range(L):
            first.setdefault((l, tuple(r[:l + 1])), len(first))
    return sorted(([*x] for x in rows), key=lambda r: tuple(first[(l, tuple(r[:l + 1]))] for l in range(L)))


def _op_drop(rng, rows, L):
    r = [list(x) for x in rows]
    for _ in range(rng.randint(1, max(1, len(r) // 3))):
        if len(r) > 2:
            r.pop(rng.randrange(len(r)))
    return r


def _op_prefix(rng, rows, L):
    r = [list(x) for x in rows]
    if len(r) <= 2:
        return r
    k = rng.randint(2, len(r) - 1)
    return r[:k] if rng.random() < 0.5 else r[-k:]


def _op_cellswap(rng, rows, L):
    r = [list(x) for x in rows]
    lv = rng.randrange(L)
    for _ in range(8):
        i, j = rng.sample(range(len(r)), 2) if len(r) >= 2 else (0, 0)
        if r[i][lv] != r[j][lv]:
            r[i][lv], r[j][lv] = r[j][lv], r[i][lv]
            break
    return r


def _op_revalue(rng, rows, L):
    """one value of one level replaced everywhere: by null, null by a value, null by "" (or back)"""
    r = [list(x) for x in rows]
    lv = rng.randrange(L)
    vals = []
    for x in r:
        if x[lv] not in vals:
            vals.append(x[lv])
    old = rng.choice(vals)
    if any(isinstance(v, int) for v in vals):
        new = 7 if old is None else rng.choice((None, vals[0]))
    elif old is None:
        new = rng.choice(("", "q"))
    elif old == "":
        new = None
    else:
        new = rng.choice((None, None, "", vals[0]))
    for x in r:
        if x[lv] == old:
            x[lv] = new
    return r


class _Gen:
    """one history being generated (row identities are unique over the whole history)"""

    def __init__(self, rng, L, as_int):
        self.rng, self.L, self.as_int, self.next_id = rng, L, as_int, 1000

    def fresh_id(self):
        self.next_id += 1
        return self.next_id

    def apply(self, op, rows):
        rng, L = self.rng, self.L
        if op in ("same", "reuse"):
            return [list(x) for x in rows]
        if op == "scatter":
            return _op_scatter(rng, rows, L)
        if op == "blocks":
            return _op_blocks(rng, rows, L)
        if op == "within":
            return _op_within(rng, rows, L)
        if op == "sorted":
            return _op_sorted(rng, rows, L)
        if op == "drop":
            return _op_drop(rng, rows, L)
        if op == "prefix":
            return _op_prefix(rng, rows, L)
        if op == "cellswap":
            return _op_cellswap(rng, rows, L)
        if op == "revalue":
            return _op_revalue(rng, rows, L)
        if op == "payload":
            return [list(x[:L]) + [self.fresh_id()] for x in rows]
        if op == "dup":
            r = [list(x) for x in rows]
            x = list(rng.choice(r))
            x[L] = self.fresh_id()
            r.insert(rng.choice((len(r), len(r), 0, rng.randrange(len(r) + 1))), x)
            return r
        if op == "newrow":
            r = [list(x) for x in rows]
            x = list(rng.choice(r))
            lv = rng.randrange(L)
            x[lv] = (500 + self.next_id) if (self.as_int and lv == 0) else f"n{self.next_id}"
            x[L] = self.fresh_id()
            r.insert(rng.choice((len(r), len(r), rng.randrange(len(r) + 1))), x)
            return r
        raise common.MachineryError(f"unknown history operation {op}")


WALK_OPS = ["same", "scatter", "scatter", "blocks", "within", "sorted", "drop", "prefix", "cellswap", "revalue",
            "payload", "dup", "newrow"]

# (source, operation): source "B" = the history's base frame, "P" = the previous step's frame, j = step j's frame
TEMPLATES = {
    "valid-then-permuted": [("B", "same"), ("B", "scatter")],
    "permuted-valid-permuted": [("B", "scatter"), ("B", "same"), (0, "same")],
    "moved-groups-then-permuted": [("B", "same"), ("B", "blocks"), ("B", "scatter"), ("P", "sorted")],
    "other-values-same-keys": [("B", "same"), ("B", "payload"), ("P", "scatter"), ("B", "within")],
    "shuffled-inside-groups": [("B", "within"), ("B", "scatter"), ("B", "same")],
    "invalid-then-regrouped": [("B", "scatter"), ("P", "sorted"), (0, "within"), ("P", "blocks")],
    "subsets": [("B", "same"), ("B", "drop"), ("B", "scatter"), ("P", "drop"), ("B", "prefix")],
    "supersets": [("B", "same"), ("B", "dup"), ("B", "newrow"), ("P", "scatter"), ("B", "scatter")],
    "column-values-kept": [("B", "same"), ("B", "cellswap"), ("B", "revalue"), ("P", "sorted")],
    "same-object-again": [("B", "same"), (0, "reuse"), ("B", "scatter"), (2, "reuse"), (0, "reuse")],
    "other-group_by": [("B", "same"), ("B", "same"), ("B", "scatter"), ("B", "same")],
    "other-columns": [("B", "same"), ("B", "scatter"), ("B", "same"), ("B", "scatter")],
    "valid-many-then-permuted": [("B", "same"), ("B", "blocks"), ("B", "within"), ("B", "scatter")],
    "walk": [],
}
THEMES = list(TEMPLATES)


def _gb_variant(rng, L):
    full = [f"g{l}" for l in range(L)]
    if L == 1:
        return full
    how = rng.choice(("prefix", "inner", "reversed", "reversed", "perm", "perm_full", "full"))
    if how == "perm_full":
        p = list(full)
        rng.shuffle(p)
        return p
    if how == "prefix":
        return full[:rng.randint(1, L - 1)]
    if how == "inner":
        return [full[rng.randint(1, L - 1)]]
    if how == "reversed":
        return full[::-1]
    if how == "perm":
        p = list(full)
        rng.shuffle(p)
        return p[:rng.randint(1, L)]
    return full


def _layout(rng, L):
    ndata = rng.randint(1, 2)
    order = [f"g{l}" for l in range(L)] + [f"c{j}" for j in range(ndata)] + (["w"] if rng.random() < 0.75 else [])
    if rng.random() < 0.5:
        rng.shuffle(order)
    return dict(order=order)


def _starts(rng, n):
    out = [[]] if rng.random() < 0.5 else []
    while len(out) < 2:
        p = rng.choice((0.1, 0.3, 0.6, 1.0))
        st = [i for i in range(1, n) if rng.random() < p]
        if rng.random() < 0.1:
            st.append(n + rng.randint(0, 2))
        out.append(st)
    return out


def gen_history(rng, k):
    theme = THEMES[k % len(THEMES)]
    mode = rng.choice(("unit", "unit", "doc", "mixed", "mixed"))
    L = rng.choice((1, 1, 2, 2, 3))
    n = rng.randint(3, 9) if rng.random() < 0.8 else rng.randint(10, 24)
    as_int = rng.random() < 0.1
    g = _Gen(rng, L, as_int)
    base = _base(rng, L, n, as_int, empties=rng.random() < 0.25)
    layout = _layout(rng, L)
    plan = list(TEMPLATES[theme])
    for _ in range(rng.randint(3, 6) if theme == "walk" else rng.choice((0, 0, 1, 2))):
        plan.append((rng.choice(("B", "P", "P")), rng.choice(WALK_OPS)))
    full = [f"g{l}" for l in range(L)]
    home = rng.choice(("singleton", "singleton", "singleton", "kept", "kept", "fresh"))
    strategy = rng.choice(("plain", "plain", "plain", "plain", "page_by", "page_by_np", "page_by_np_first", "subline"))
    hdr = rng.choice(("default", "explicit", "none"))
    footnote = rng.random() < 0.2
    gb_home = full if theme != "other-group_by" or rng.random() < 0.5 else _gb_variant(rng, L)
    steps = []
    for src, op in plan:
        if op == "reuse" and (not isinstance(src, int) or src >= len(steps)):
            op = "same"
        if op == "reuse":
            st = copy.deepcopy(steps[src])
            st.update(reuse=steps[src].get("reuse", src), rel=f"same-object<-{src}")
            if st["route"] == "validate" and rng.random() < 0.5:
                st["route"] = "svc"      # validated, then suppressed: the same frame object
                st["starts"] = _starts(rng, len(st["rows"]))
            steps.append(st)
            continue
        from_rows = base if src == "B" or not steps else steps[-1 if src == "P" else min(src, len(steps) - 1)]["rows"]
        rows = g.apply(op, from_rows)
        st = dict(rows=rows, rel=f"{op}<-{src}")
        # the group_by list
        gb = gb_home
        if theme == "other-group_by" and rng.random() < 0.6:
            gb = _gb_variant(rng, L)
        elif rng.random() < 0.04:
            gb = _gb_variant(rng, L)
        st["gb"] = list(gb)
        if theme == "other-columns" and rng.random() < 0.5:
            st["layout"] = _layout(rng, L)
        # the route
        if mode == "doc":
            route = "encode"
        elif mode == "unit":
            route = "validate" if rng.random() < 0.15 else "svc"
        else:
            route = rng.choice(("encode", "encode", "svc", "svc", "validate"))
        st["route"] = route
        if route == "encode":
            st["holder"] = "singleton"
            nn = len(rows)
            st["doc"] = dict(strategy=strategy, hdr=hdr, footnote=footnote,
                             nrow=rng.randint(2, nn + 4) if rng.random() < 0.75 else rng.randint(20, 40),
                             outer=docgen.run_keys(rng, nn, ["KA", "KB", "KC", "KD"], 1, max(2, nn // 2))
                             if strategy != "plain" else [])
        else:
            st["holder"] = ("singleton" if mode == "mixed" else home) if rng.random() < 0.85 else \
                rng.choice(("singleton", "kept", "fresh"))
            if route == "svc":
                st["starts"] = _starts(rng, len(rows))
        steps.append(st)
    return dict(level="hist", theme=theme, mode=mode, L=L, layout=layout, steps=steps)


def n_histories(tier):
    return 700 if tier == "quick" else 5000


def gen_histories(seed, tier):
    return [gen_history(sub_rng(seed, "c13hist", k), k) for k in range(n_histories(tier))]


# ------------------------------------------------------------------ running a history in ONE process

def _hist_worker(hist):
    """→ dict(obs=[one observation per step]) — everything the history does happens in this process, in order"""
    try:
        import polars as pl
        import rtflite  # noqa: F401
        from rtflite.services import grouping_service as gsm
    except Exception as e:  # noqa: BLE001
        return dict(unavailable=f"{type(e).__name__}: {str(e)[:200]}")
    steps = hist["steps"]
    reused = {st["reuse"] for st in steps if st.get("reuse") is not None}
    objects = {}          # step → the document / frame object a later step presents again
    kept = None
    obs = []
    for k, st in enumerate(steps):
        case = concretize(hist, st)
        prior = objects.get(st.get("reuse")) if st.get("reuse") is not None else None
        if st["route"] == "encode":
            doc = prior if prior is not None and not isinstance(prior, pl.DataFrame) else None
            if doc is None:
                try:
                    with contextlib.redirect_stdout(io.StringIO()):
                        doc = docgen.build(case["spec"])
                except Exception as e:  # noqa: BLE001
                    obs.append(B._observe_doc(("construct-error", docgen.classify_exc(e), str(e)[:300]), case["exp"]))
                    continue
            if k in reused:
                objects[k] = doc
            try:
                with contextlib.redirect_stdout(io.StringIO()):
                    s = docgen._encode_with_deadline(doc)
                triple = ("ok", s)
            except Exception as e:  # noqa: BLE001
                triple = ("encode-error", docgen.classify_exc(e), str(e)[:300])
            obs.append(B._observe_doc(triple, case["exp"]))
            continue
        try:
            if st["holder"] == "singleton":
                svc = gsm.grouping_service
            elif st["holder"] == "kept":
                kept = kept or gsm.GroupingService()
                svc = kept
            else:
                svc = gsm.GroupingService()
        except AttributeError as e:
            obs.append(dict(unavailable=f"{type(e).__name__}: {e}"))
            continue
        df = prior if isinstance(prior, pl.DataFrame) else docgen.make_frame(_frame_dict(case))
        if k in reused:
            objects[k] = df
        if st["route"] == "validate":
            try:
                fn = svc.validate_data_sorting
            except AttributeError as e:
                obs.append(dict(unavailable=f"{type(e).__name__}: {e}"))
                continue
            try:
                fn(df, group_by=list(case["gb"]))
                obs.append(dict(validated=True))
            except Exception as e:  # noqa: BLE001
                obs.append(dict(error=type(e).__name__, msg=str(e)[:200]))
        else:
            obs.append(B._unit_call(svc, df, case, frame_json=_text_frame))
    return dict(obs=obs)


def run_fresh(hists):
    """every history in a fresh fork of this process, which has imported rtflite and called none of it: nothing an
    earlier history left behind can decide a verdict, and a failing history replays alone"""
    import multiprocessing as mp

    hists = list(hists)
    if not hists:
        return []
    try:
        import polars  # noqa: F401  (pay the imports once, before forking; no rtflite / polars CALL in this process)
        import rtflite  # noqa: F401
    except Exception:  # noqa: BLE001  — reported per history by the workers
        pass
    ctx = mp.get_context("fork")
    with ctx.Pool(min(common.NCPU, len(hists)), maxtasksperchild=1) as pool:
        return pool.map(_hist_worker, hists, chunksize=1)


# ------------------------------------------------------------------ model / oracle: each step by its own frame

def _unit_request(case, ob=None):
    rq = dict(op="gb_unit", cols=[[c, [_text(v) for v in vs]] for c, vs in case["cols"]], gb=case["gb"],
              starts=case["starts"])
    if ob is not None:
        rq["observed"] = {"error": ob["error"]} if "error" in ob else {"frames": ob["frames"]}
    return rq


def requests(hist, ob):
    out = []
    for st, o in zip(hist["steps"], ob["obs"]):
        case = concretize(hist, st)
        if st["route"] == "encode":
            out.append(B.doc_request(case, o))
        elif st["route"] == "validate" or "unavailable" in o:
            out.append(_unit_request(dict(case, starts=[[]])))
        else:
            out.append(_unit_request(case, o))
    return out


def judge_history(hist, ob, answers):
    """→ (failures, disagreements, verdicts): (step, why) lists; verdicts[k] = 'rendered' | 'rejected' | 'unavailable'"""
    fails, dis, verdicts = [], [], []
    for k, (st, o, d) in enumerate(zip(hist["steps"], ob["obs"], answers)):
        case = concretize(hist, st)
        t = common.Result("C13", "quick", 0)
        if "unavailable" in o:
            verdicts.append("unavailable")
            continue
        if st["route"] == "encode":
            v = B.judge_doc(t, case, o, d)
            verdicts.append("rejected" if v == "rejected" else "rendered" if o["status"] == "ok" else v)
        elif st["route"] == "validate":
            raised = "error" in o
            n = len(st["rows"])
            trivial = n == 0 or not case["gb"]
            if raised and (trivial or d["spec_contiguous"]):
                t.fail(case, f"validate_data_sorting raised {o['error']} on contiguous group keys: {o.get('msg', '')[:120]}")
            elif raised and o["error"] != "ValueError":
                t.fail(case, f"validate_data_sorting rejected non-contiguous keys with {o['error']}, not ValueError")
            elif not raised and not trivial and not d["spec_contiguous"]:
                t.fail(case, "validate_data_sorting accepted non-contiguous group keys (no ValueError)")
            elif raised != bool(d["model_error"]):
                t.disagree(case, f"validate_data_sorting: model {'rejects' if d['model_error'] else 'accepts'}, "
                                 f"implementation {'rejects' if raised else 'accepts'}")
            verdicts.append("rejected" if raised else "rendered")
        else:
            B.judge_unit(t, case, o, d, False)
            verdicts.append("rejected" if "error" in o else "rendered")
        fails += [(k, why) for _, why in t.failures]
        dis += [(k, why) for _, why in t.disagreements]
    return fails, dis, verdicts


def _check_obs(hist, ob):
    if "unavailable" in ob:
        raise common.MachineryError("rtflite cannot be imported: " + ob["unavailable"])
    if len(ob["obs"]) != len(hist["steps"]):
        raise common.MachineryError(f"history produced {len(ob['obs'])} observations for {len(hist['steps'])} steps")


def evaluate(hists, inprocess=False):
    """run histories (a fresh process each) and the model → [(hist, ob, answers, fails, dis, verdicts)]"""
    obs = [_hist_worker(h) for h in hists] if inprocess else run_fresh(hists)
    reqs, spans = [], []
    for h, o in zip(hists, obs):
        _check_obs(h, o)
        r = requests(h, o)
        spans.append((len(reqs), len(r)))
        reqs += r
    ans = common.driver_batch(reqs)
    out = []
    for h, o, (a, n) in zip(hists, obs, spans):
        f, d, v = judge_history(h, o, ans[a:a + n])
        out.append((h, o, ans[a:a + n], f, d, v))
    return out


# ------------------------------------------------------------------ description

def _fmt_v(v):
    return "null" if v is None else repr(v) if v == "" or not isinstance(v, str) else v


def _fmt_step(hist, st, ob=None, answer=None):
    case = concretize(hist, st)
    L = hist["L"]
    if "rows" in st:
        idx = [int(g[1:]) for g in st["gb"]]
        keys = ", ".join("(" + ",".join(_fmt_v(r[j]) for j in idx) + ")" for r in st["rows"])
        cols = (st.get("layout") or hist["layout"])["order"]
        ids = [r[L] for r in st["rows"]]
    else:
        keys, cols, ids = "<given case>", [], []
    what = {"encode": "RTFDocument(...).rtf_encode()", "svc": f"enhance_group_by+restore_page_context[{st.get('holder')}]",
            "validate": f"validate_data_sorting[{st.get('holder')}]"}[st["route"]]
    txt = f"{what} group_by={case.get('gb') or case['exp']['gnames']} keys=[{keys}]"
    if "w" in cols:
        txt += f" rows={ids}"
    txt += f" columns={cols}"
    if st["route"] == "encode" and "doc" in st:
        d = st["doc"]
        txt += f" nrow={d['nrow']}" + ("" if d["strategy"] == "plain" else f" {d['strategy']}")
    elif st["route"] == "svc":
        txt += f" page starts={case['starts']}"
    if st.get("reuse") is not None:
        txt += f" (the object of step {st['reuse'] + 1} again)"
    if answer is not None:
        txt += " {keys " + ("contiguous" if answer.get("spec_contiguous") else "NOT contiguous") + "}"
    if ob is not None:
        if "unavailable" in ob:
            txt += " -> unavailable"
        elif st["route"] == "encode":
            if ob["status"] == "ok":
                txt += " -> rendered " + str([[r["g"] for r in p] for p in ob["pages"]])[:260]
            else:
                txt += f" -> {ob.get('exc')}"
        elif "error" in ob:
            txt += f" -> {ob['error']}"
        elif "frames" in ob:
            gb = case["gb"]
            txt += " -> " + str([[cells for nme, cells in f if nme in gb] for f in ob["frames"]])[:260]
        else:
            txt += " -> accepted"
    return txt


def narrative(hist, ob, answers, upto):
    return "; ".join(f"step {k + 1}: " + _fmt_step(hist, st, ob["obs"][k], answers[k])
                     for k, st in enumerate(hist["steps"][:upto + 1]))


# ------------------------------------------------------------------ shrinking (each attempt in a fresh process)

def _drop_step(hist, i):
    steps = []
    for k, st in enumerate(hist["steps"]):
        if k == i:
            continue
        st = dict(st)
        if st.get("reuse") is not None:
            if st["reuse"] == i:
                st.pop("reuse")
            elif st["reuse"] > i:
                st["reuse"] -= 1
        steps.append(st)
    return dict(hist, steps=steps)


def _drop_row(hist, rid):
    L = hist["L"]
    steps = []
    for st in hist["steps"]:
        if "rows" not in st:
            steps.append(st)
            continue
        keep = [i for i, r in enumerate(st["rows"]) if r[L] != rid]
        if not keep:
            return None
        st = dict(st, rows=[st["rows"][i] for i in keep])
        if st.get("doc") and st["doc"].get("outer"):
            st["doc"] = dict(st["doc"], outer=[st["doc"]["outer"][i] for i in keep])
        if "starts" in st:
            n = len(keep)
            st["starts"] = [[s for s in ss if s < n] for ss in st["starts"]]
        steps.append(st)
    return dict(hist, steps=steps)


def _drop_pos(hist, pos):
    steps = []
    for st in hist["steps"]:
        if len(st["rows"]) <= pos:
            steps.append(st)
            continue
        if len(st["rows"]) == 1:
            return None
        keep = [i for i in range(len(st["rows"])) if i != pos]
        st = dict(st, rows=[st["rows"][i] for i in keep])
        if st.get("doc") and st["doc"].get("outer"):
            st["doc"] = dict(st["doc"], outer=[st["doc"]["outer"][i] for i in keep])
        if "starts" in st:
            st["starts"] = [[s for s in ss if s < len(keep)] for ss in st["starts"]]
        steps.append(st)
    return dict(hist, steps=steps)


def shrink(hist, k, want_fail=True):
    """the smallest history found whose LAST step still fails (disagrees)"""
    cur = dict(hist, steps=hist["steps"][:k + 1])

    def still(h):
        try:
            (_, _, _, f, d, _), = evaluate([h])
        except common.MachineryError:
            return False
        last = len(h["steps"]) - 1
        return any(i == last for i, _ in (f if want_fail else d))

    if not still(cur):
        return hist, k
    i = len(cur["steps"]) - 2
    while i >= 0:
        cand = _drop_step(cur, i)
        if still(cand):
            cur = cand
        i -= 1
    if all("rows" in st for st in cur["steps"]):
        L = cur["L"]
        for rid in sorted({r[L] for st in cur["steps"] for r in st["rows"]}, reverse=True):
            cand = _drop_row(cur, rid)
            if cand is not None and still(cand):
                cur = cand
        # the same POSITION in every step (frames related by position: other values under the same keys)
        i = max(len(st["rows"]) for st in cur["steps"]) - 1
        while i >= 0:
            cand = _drop_pos(cur, i)
            if cand is not None and still(cand):
                cur = cand
            i -= 1
        # document features the failure does not need
        for simpler in (dict(strategy="plain", outer=[]), dict(footnote=False), dict(hdr="default"), dict(nrow=40)):
            cand = dict(cur, steps=[dict(st, doc=dict(st["doc"], **simpler)) if st.get("doc") else st
                                    for st in cur["steps"]])
            if cand != cur and still(cand):
                cur = cand
        for st_i, st in enumerate(cur["steps"]):
            if st.get("starts") and st["starts"] != [[]]:
                cand = dict(cur, steps=[dict(s, starts=[[]]) if j == st_i else s for j, s in enumerate(cur["steps"])])
                if still(cand):
                    cur = cand
    return cur, len(cur["steps"]) - 1


# ------------------------------------------------------------------ the history part of `./check C13`

def _relation(hist, j, k):
    """how step k's frame relates to the earlier step j's (labels for the evidence)"""
    a, b = hist["steps"][j], hist["steps"][k]
    if "rows" not in a or "rows" not in b:
        return None
    L = hist["L"]
    same_gb = a["gb"] == b["gb"]
    same_layout = (a.get("layout") or hist["layout"]) == (b.get("layout") or hist["layout"])
    ka, kb = _keys(a["rows"], L, b["gb"]), _keys(b["rows"], L, b["gb"])
    ca, cb = {}, {}
    for x in ka:
        ca[x] = ca.get(x, 0) + 1
    for x in kb:
        cb[x] = cb.get(x, 0) + 1
    if ka == kb:
        rel = "same-keys-same-order"
    elif ca == cb:
        rel = "same-key-multiset-other-order"
    elif all(cb.get(x, 0) >= c for x, c in ca.items()):
        rel = "superset-of-keys"
    elif all(ca.get(x, 0) >= c for x, c in cb.items()):
        rel = "subset-of-keys"
    else:
        rel = "other-keys"
    return rel + ("" if same_gb else ":other-group_by") + ("" if same_layout else ":other-columns")


def run(res, corpus=()):
    hists = list(corpus) + gen_histories(res.seed, res.tier)
    results = evaluate(hists)
    first_fail = first_dis = None
    more_fail, more_dis = [], []

    def rank(h, hits):
        """reported first: a history made of public `rtf_encode()` calls only, then one whose failing step is an encode"""
        upto = h["steps"][:hits[0][0] + 1]
        return 0 if all(st["route"] == "encode" for st in upto) else 1 if upto[-1]["route"] == "encode" else 2
    for h, o, ans, fails, dis, verdicts in results:
        steps = h["steps"]
        key = None
        if len(steps) >= 2 and "rendered" in verdicts:
            key = ("hist", h.get("theme"), tuple((st["route"], v) for st, v in zip(steps, verdicts)),
                   repr([st.get("rows") for st in steps])[:400])
        res.case(h, key)
        res.evaluations += len(steps) - 1
        res.corr_checked += len(steps)
        res.count(f"hist:{h.get('theme')}:{h.get('mode')}")
        res.count(f"hist_levels:L{h.get('L')}")
        res.count(f"hist_length:{min(len(steps), 8)}")
        for k, (st, v) in enumerate(zip(steps, verdicts)):
            res.count(f"hist_step:{st['route']}:{st.get('holder')}:{v}")
            if st.get("reuse") is not None:
                res.count("hist_step:same-object-again")
            if any(r[j] is None for r in st.get("rows", []) for j in range(h["L"])):
                res.count("hist_step:null-keys")
            seen = set()
            for j in range(k):
                rel = _relation(h, j, k)
                if rel and (rel, verdicts[j]) not in seen:
                    seen.add((rel, verdicts[j]))
                    res.count(f"hist_after:{rel}:{verdicts[j]}->{v}")
        if fails and (first_fail is None or rank(h, fails) < rank(first_fail[0], first_fail[3])):
            if first_fail is not None:
                more_fail.append((first_fail[0], f"step {first_fail[3][0][0] + 1} of a history: {first_fail[3][0][1]}"))
            first_fail = (h, o, ans, fails)
        elif fails:
            more_fail.append((h, f"step {fails[0][0] + 1} of a history: {fails[0][1]}"))
        if dis and (first_dis is None or rank(h, dis) < rank(first_dis[0], first_dis[3])):
            if first_dis is not None:
                more_dis.append((first_dis[0], f"step {first_dis[3][0][0] + 1} of a history: {first_dis[3][0][1]}"))
            first_dis = (h, o, ans, dis)
        elif dis:
            more_dis.append((h, f"step {dis[0][0] + 1} of a history: {dis[0][1]}"))
    for first, want_fail, sink in ((first_fail, True, res.failures), (first_dis, False, res.disagreements)):
        if first is None:
            continue
        h, o, ans, hits = first
        k, why = hits[0]
        small, k2 = shrink(h, k, want_fail=want_fail)
        (_, o2, a2, f2, d2, _), = evaluate([small])
        hit = [w for i, w in (f2 if want_fail else d2) if i == k2]
        if not hit:
            small, o2, a2, k2, hit = h, o, ans, k, [why]
        sink.append((dict(small, failing_step=k2),
                     f"step {k2 + 1} of a history in one process, judged by the rule for ITS OWN frame: {hit[0]}. "
                     f"History: {narrative(small, o2, a2, k2)}"))
    res.failures.extend(more_fail)
    res.disagreements.extend(more_dis)


def settle_standalone(res, n_std):
    """The stateless document stream runs many unrelated documents per worker process.  A document that failed there
    is encoded again ALONE in a fresh process: if it does not fail alone, the failure needed what the worker had
    encoded before — it stays a failure, but the self-contained histories (which replay) are reported first."""
    std, hist = res.failures[:n_std], res.failures[n_std:]
    idx = [i for i, (c, _) in enumerate(std) if isinstance(c, dict) and c.get("level") == "doc"][:6]
    if not idx:
        return
    one = [dict(level="hist", theme="alone", mode="doc", L=std[i][0]["exp"]["L"], layout=dict(order=[]),
                steps=[dict(route="encode", holder="singleton", case=std[i][0])]) for i in idx]
    unstable = set()
    for i, (_, _, _, f, _, _) in zip(idx, evaluate(one)):
        if not f:
            unstable.add(i)
            res.count("doc_failure_not_reproduced_alone")
    if not unstable:
        return
    note = (" — observed after other documents in the same worker process; the same document ALONE in a fresh process "
            "does not fail: the outcome depends on what was encoded before")
    res.failures[:] = ([x for i, x in enumerate(std) if i not in unstable] + hist +
                       [(c, why + note) for i, (c, why) in enumerate(std) if i in unstable])


def replay_case(hist) -> int:
    (_, o, ans, fails, dis, verdicts), = evaluate([hist], inprocess=True)
    print("history (one process, nothing called before):")
    for k, st in enumerate(hist["steps"]):
        print(f"  step {k + 1}: {_fmt_step(hist, st, o['obs'][k], ans[k])}")
    n = len(hist["steps"])
    for i, why in fails:
        print(f"FAIL (step {i + 1} of {n}):", why)
    for i, why in dis:
        print(f"DISAGREE (step {i + 1} of {n}):", why)
    if fails:
        print("VIOLATION property=C13 replay=<given>")
        return 1
    if dis:
        print("VIOLATION property=C13 replay=<given> no-failing-input-found")
        return 1
    print("property holds on this history")
    return 0
