"""C18 — exports are all-or-nothing and leave no debris.

Theorems: lean/Props/C18.lean about `Model.Export.writeRtf` / `writeConv` (effect sequences over an
abstract file system, scoped temporary directories, a fault point before every effect, any confined
converter).  Tie to the code on every run (observation level only — the property is about the public
`write_*` methods):

  * every case is one real call of `RTFDocument.write_rtf/docx/html/pdf` in a sandbox
    (harness/faults.py): snapshot before/after, `tempfile.tempdir` redirected, stub converters or the
    real `LibreOfficeConverter` driven by a fake `soffice`, optionally an exception injected at the
    n-th library call (exhaustive over call sites, sampled over call instances);
  * oracle (independent of the model): the Lean-defined `Model.Export.violations` evaluated by the driver
    on the real before/after snapshots (+ here: the converter must have been given exactly the string
    `rtf_encode()` returned);
  * correspondence: the driver runs the model on the same initial file system, converter behaviour and
    fault index and compares (a) raised / error kind, (b) the sequence of completed effects, (c) the
    final file system extensionally (which contains the projection target status / listing delta
    outside temp / temp residue).

  Fault index: the model's fault point is "before the k-th effect".  The real run logs every completed
  effect (stdlib wrappers + return events); k := number of effects completed when the exception was
  injected.  An injected exception that the library swallows is compared with the model's fault-free run.
"""
from __future__ import annotations

import json

from .. import common, faults
from ..common import sub_rng

RULE = ("matrix: 4 export functions x target states (existing / absent / missing directories / ancestor is a file / "
        "target is a directory / HTML: existing resource folder, resource path is a file, second export) x converter "
        "(7 stub behaviours, failing lookup, real LibreOfficeConverter on a fake soffice: ok/okres/fail/no output, "
        "lookup through PATH) x documents (incl. two whose encode raises); faults: for each profile every library "
        "call site (first instance; thorough: also last) + random call instances; non-trivial = distinct "
        "(function, state, converter, outcome kind, faulted site)")
TRUSTED = [
    "Lean 4.33 kernel; axioms ⊆ {propext, Classical.choice, Quot.sound} (audited per theorem on every run)",
    "Lean compiler for the driver executable",
    "harness/faults.py: os.walk snapshots, sys.settrace injection, stdlib wrappers for the effect log",
    "the abstract file system Fs stands for the OS file system, tempfile and shutil (every effect atomic)",
]
MANIFEST = dict(
    text="Lean theorems over an effect-sequence model of write_rtf/write_docx/write_html/write_pdf (abstract file "
         "system, TemporaryDirectory as scoped resource, a fault point before every effect, any converter confined "
         "to its output directory): on failure target unchanged, temp dirs gone, nothing else changed except created "
         "parent directories; on success target = encoder's string / converter's output, HTML resource folder exactly "
         "next to the target, nothing else. Tied to the code on every run by fault-injected real exports (every "
         "library call site) judged by a Lean-defined oracle on before/after snapshots and compared with the model.",
    note="partial: OS-level failures inside one effect (ENOSPC in write_text, cross-device move, failing rmtree, a "
         "raising print after the move) are not exhibited by the model; LibreOffice is replaced by stubs / a fake "
         "soffice. Models the tree with the D23 repair (fixes/html-resource-folder-nesting.patch).",
    technique="Lean 4 proof (effect sequences, frame reasoning) + fault-injected differential correspondence",
    design="7/C18",
)
ASSUME = [
    "file-system effects are atomic (happen completely or not at all)",
    "converters write only below their output directory and return a path strictly below it (Confined)",
    "mkdtemp names do not clash with the target / resource destination (NoClash) — also a precondition of the code",
    "rtf_encode() does not write to the file system",
]

TMP_A, TMP_B = "c18tmpA", "c18tmpB"

# ------------------------------------------------------------------ documents

def _rows(n, cols, tag="r"):
    return [[f"{tag}{i}c{j}" for j in range(cols)] for i in range(n)]


DOCS = {
    "small": dict(kind="table", df=dict(cols=["a", "b"], rows=_rows(3, 2))),
    "paged": dict(kind="table", df=dict(cols=["a", "b", "c"], rows=_rows(28, 3)), page=dict(nrow=10),
                  title=dict(text=["Title line", "second"]), footnote=dict(text="Footnote"), source=dict(text="Source")),
    "grouped": dict(kind="table", df=dict(cols=["g", "x", "y"],
                                          rows=[[("A" if i < 5 else "B"), f"x{i}", f"y{i}"] for i in range(9)]),
                    body=dict(page_by=["g"], new_page=True), page=dict(nrow=8)),
    "unicode": dict(kind="table", df=dict(cols=["a", "b"], rows=[["café", "α ≤ β"], ["\U0001f600", "x"]]),
                    title=dict(text="Über")),
    "multi": dict(kind="multi", df=[dict(cols=["a", "b"], rows=_rows(4, 2)), dict(cols=["c", "d"], rows=_rows(3, 2, "s"))],
                  body=[{}, {}]),
    "bad_pageby": dict(kind="table", df=dict(cols=["a"], rows=[["1"], ["2"]]), body=dict(page_by=["a"])),
    "bad_width": dict(kind="table", df=dict(cols=["a", "b", "c"], rows=[["1", "2", "3"]]), body=dict(col_rel_width=[1, 1])),
}
GOOD_DOCS = ["small", "paged", "grouped", "unicode", "multi"]
BAD_DOCS = ["bad_pageby", "bad_width"]

STUB_BEHS = ["failBefore", "failAfter", "retList", "retOther", "retMissing", "okPlain", "okRes"]
REAL_BEHS = {"ok": "okPlain", "okres": "okRes", "fail": "failBefore", "noout": "failBefore"}


def conv_configs():
    out = [dict(mode="stub", beh=b) for b in STUB_BEHS]
    out.append(dict(mode="lookup_fail"))
    out += [dict(mode="real", beh=b) for b in REAL_BEHS]
    out += [dict(mode="path", beh="ok"), dict(mode="path", beh="okres")]
    return out


# ------------------------------------------------------------------ workers

def _worker(case):
    try:
        from .. import docgen
        pre = docgen.encode(case["doc"])
        r = faults.run_export(case)
        r["pre_enc"] = pre[1] if pre[0] == "ok" else None
        return r
    except Exception as e:  # noqa: BLE001  (sandbox / machinery trouble, never a verdict)
        import traceback
        return dict(machinery="".join(traceback.format_exception(type(e), e, e.__traceback__))[-1500:])


def _latin(s: str | None):
    return None if s is None else s.encode("utf-8").decode("latin-1")


def driver_request(case, r):
    fn = case["fn"]
    enc = r["enc"] if r["enc"] is not None else (None if r["enc_failed"] else _latin(r["pre_enc"]))
    req = dict(op="export", fn=fn, before=r["before"], after=r["after"], dir=r["dir"], tname=r["tname"],
               tmpRoot=["tmp"], tA=TMP_A, tB=TMP_B, rtfName=r["rtf_name"], enc=enc,
               k=(r["k"] if (r["fired"] and not r["swallowed"]) else None))
    conv = case.get("conv") or {}
    if fn != "rtf":
        mode = conv.get("mode")
        if mode == "lookup_fail":
            req["conv"] = dict(mode="lookup_fail")
        else:
            beh = conv["beh"] if mode == "stub" else REAL_BEHS[conv["beh"]]
            req["conv"] = dict(mode="stub", beh=beh, fmt=faults.EXT[fn], outName=r["out_name"],
                               explicit=(mode != "path"))
    tdir = case["state"] == "target_is_dir"
    if fn == "rtf":
        expected = enc
    else:
        expected = r["written"]
    obs = dict(raised=r["raised"], mustRaise=bool(r["enc_failed"] or r["conv_failed"]),
               expected=None if tdir else expected,
               resName=(r["out_name"] + "_files") if (r["has_res"] and not tdir) else None,
               resContent=faults.RES_CONTENT)
    req["obs"] = obs
    return req


def case_label(case):
    c = case.get("conv") or {}
    return f"{case['fn']}/{case['docname']}/{case['state']}/{c.get('mode', '-')}:{c.get('beh', '-')}" + \
        ("/twice" if case.get("twice") else "")


def slim(case, r=None):
    """what a replay file stores"""
    d = {k: case[k] for k in ("fn", "docname", "doc", "state", "conv", "fault", "twice") if k in case}
    if r is not None:
        d["observed"] = {k: r.get(k) for k in ("raised", "exc", "kind", "trace", "fired_site", "k", "swallowed")}
    return d


def judge(res, case, r, d):
    """oracle + correspondence for one case; returns (failures, disagreements) as lists of strings"""
    fails, dis = [], []
    fn = case["fn"]
    outside = fn != "rtf" and case["state"] == "target_is_dir"
    viol = d.get("viol", [])
    if viol and not outside:
        fails.append("oracle clauses violated on the real file system: " + ", ".join(viol))
    if r.get("conv_input") is not None and r.get("enc") is not None and r["conv_input"] != r["enc"]:
        fails.append("the converter was not given exactly the string rtf_encode() returned")
    if r["kind"].startswith("other:"):
        dis.append(f"real call raised an unclassified exception {r['exc']}")
    # correspondence
    injected = r["fired"] and not r["swallowed"]
    mres = d["model_result"]
    if injected:
        if not r["raised"]:
            dis.append("fault fired but the call returned")
        if mres == "ok":
            dis.append(f"model succeeds with fault index {r['k']} while the real call raised {r['exc']}")
    else:
        if mres != r["kind"]:
            dis.append(f"model outcome {mres} != real outcome {r['kind']} ({r['exc']})")
    mtrace = [e for e in d["model_trace"] if e != "typecheck"]
    if mtrace != r["trace"]:
        dis.append(f"completed effects differ: model {mtrace} vs real {r['trace']} (raw {r['events']})")
    if d.get("diff"):
        dis.append("final file systems differ at " + ", ".join("/".join(p) for p in d["diff"][:6]))
    return fails, dis


def run_cases(res, cases, phase):
    obs = common.pool_map(_worker, cases, chunksize=2)
    for o in obs:
        if "machinery" in o:
            raise common.MachineryError("sandbox run failed: " + o["machinery"])
    reqs = [driver_request(c, o) for c, o in zip(cases, obs)]
    drv = common.driver_batch(reqs)
    for c, o, d in zip(cases, obs, drv):
        outside = c["fn"] != "rtf" and c["state"] == "target_is_dir"
        if d["model_viol"] and d["before_wf"] and not outside:
            raise common.MachineryError(f"model output violates its own oracle: {d['model_viol']} on {case_label(c)}")
        if d["before_wf"] and not d["model_wf"]:
            raise common.MachineryError(f"model produced an ill-formed file system on {case_label(c)}")
        fails, dis = judge(res, c, o, d)
        site = tuple(o["fired_site"]) if o.get("fired_site") else None
        cm = c.get("conv") or {}
        nt = (c["fn"], c["state"], cm.get("mode"), cm.get("beh"), o["kind"], site)
        res.case(slim(c, o), nt)
        res.corr_checked += 1
        res.count(f"{phase}:{c['fn']}")
        res.count("outcome:" + ("injected" if (o["fired"] and not o["swallowed"]) else o["kind"]))
        res.count("state:" + c["state"])
        if o.get("swallowed"):
            res.count("fault_swallowed_by_library")
        if o.get("transformed"):
            res.count("fault_re-raised_as_other_exception")
        if c["fn"] != "rtf" and c["state"] == "target_is_dir":
            res.count("oracle_skipped:target_is_dir(outside domain)")
        for f in fails:
            res.fail(slim(c, o), f"{case_label(c)} fault={c.get('fault')} site={o.get('fired_site')}: {f}")
        for f in dis:
            res.disagree(slim(c, o), f"{case_label(c)} fault={c.get('fault')} site={o.get('fired_site')}: {f}")
    return obs


# ------------------------------------------------------------------ case generation

RTF_STATES = ["existing", "absent", "missing_dirs", "parent_is_file", "grandparent_is_file", "target_is_dir"]
CONV_STATES = ["existing", "absent", "missing_dirs", "parent_is_file", "target_is_dir"]
HTML_STATES = ["existing_res", "res_is_file"]


def mk(fn, docname, state, conv=None, fault=None, twice=False, sites=False):
    c = dict(fn=fn, docname=docname, doc=DOCS[docname], state=state, fault=fault)
    if conv is not None:
        c["conv"] = conv
    if twice:
        c["twice"] = True
    if sites:
        c["sites"] = True
    return c


def matrix_cases(rng, tier):
    cases = []
    docs = ["small", "unicode"] if tier == "quick" else GOOD_DOCS
    for st in RTF_STATES:
        for dn in docs + BAD_DOCS:
            cases.append(mk("rtf", dn, st))
    cases.append(mk("rtf", "small", "existing", twice=True))
    for fn in ("docx", "pdf", "html"):
        states = CONV_STATES + (HTML_STATES if fn == "html" else [])
        for st in states:
            for cv in conv_configs():
                dn = rng.choice(docs)
                cases.append(mk(fn, dn, st, cv))
            # failing encoder under two converter configurations
            cases.append(mk(fn, rng.choice(BAD_DOCS), st, dict(mode="stub", beh="okRes")))
            cases.append(mk(fn, rng.choice(BAD_DOCS), st, dict(mode="real", beh="ok")))
        for cv in (dict(mode="stub", beh="okRes"), dict(mode="stub", beh="okPlain"), dict(mode="real", beh="okres"),
                   dict(mode="stub", beh="failAfter")):
            cases.append(mk(fn, "small", "existing", cv, twice=True))
    return cases


def profiles(rng, tier):
    """(fn, docname, state, conv) combinations whose call sites are enumerated"""
    if tier == "quick":
        return [
            ("rtf", "small", "existing", None),
            ("rtf", "paged", "missing_dirs", None),
            ("docx", "small", "existing", dict(mode="stub", beh="okRes")),
            ("pdf", "paged", "missing_dirs", dict(mode="stub", beh="okPlain")),
            ("html", "small", "existing_res", dict(mode="stub", beh="okRes")),
            ("html", "grouped", "existing", dict(mode="real", beh="okres")),
            ("docx", "small", "absent", dict(mode="path", beh="ok")),
            ("pdf", "small", "existing", dict(mode="lookup_fail")),
            ("docx", "unicode", "existing", dict(mode="real", beh="ok")),
        ]
    out = []
    convs = [dict(mode="stub", beh="okRes"), dict(mode="stub", beh="okPlain"), dict(mode="real", beh="okres"),
             dict(mode="path", beh="ok"), dict(mode="stub", beh="failAfter"), dict(mode="lookup_fail"),
             dict(mode="real", beh="ok")]
    for fn in ("rtf", "docx", "pdf", "html"):
        for dn in GOOD_DOCS + BAD_DOCS[:1]:
            states = ["existing", "missing_dirs"] + (["existing_res"] if fn == "html" else [])
            for st in states:
                out.append((fn, dn, st, None if fn == "rtf" else rng.choice(convs)))
    return out


def fault_cases(res, rng, tier):
    profs = profiles(rng, tier)
    probe = [mk(fn, dn, st, cv, sites=True) for fn, dn, st, cv in profs]
    obs = common.pool_map(_worker, probe, chunksize=1)
    cases = []
    all_sites = set()
    n_rand = 40 if tier == "quick" else 60
    for (fn, dn, st, cv), o in zip(profs, obs):
        if "machinery" in o:
            raise common.MachineryError("profiling run failed: " + o["machinery"])
        sites = [tuple(s) for s in (o["sites"] or [])]
        first, last = {}, {}
        for i, s in enumerate(sites, 1):
            first.setdefault(s, i)
            last[s] = i
        all_sites |= set(first)
        idx = set(first.values()) | {1}
        if tier != "quick":
            idx |= set(last.values())
        n = len(sites)
        for _ in range(n_rand):
            if n:
                idx.add(rng.randint(1, n))
        for i in sorted(idx):
            cases.append(mk(fn, dn, st, cv, fault=i))
    res.extra["fault_profiles"] = len(profs)
    res.extra["library_call_sites_enumerated"] = len(all_sites)
    return cases


def run(res: common.Result, build) -> int:
    rng = sub_rng(res.seed, "c18")
    run_cases(res, matrix_cases(sub_rng(res.seed, "c18", "matrix"), res.tier), "matrix")
    fobs = run_cases(res, fault_cases(res, sub_rng(res.seed, "c18", "faults"), res.tier), "fault")
    hit = {tuple(o["fired_site"]) for o in fobs if o.get("fired_site")}
    res.extra["library_call_sites_faulted"] = len(hit)
    res.exhaustive = False
    return common.finish(
        res, build, RULE, TRUSTED, ASSUME,
        explanation="C18_rtf_failure/_success/_encode_first/_complete and C18_conv_temps_gone/_temp_area_unchanged/"
                    "_failure/_success hold for every initial file system, encoder outcome, fault index and confined "
                    "converter (C18_stub_confined: the injected stubs are confined). Level partial: effects are atomic in "
                    "the model; OS failures inside one effect are not exhibited. The model is the tree with the D23 "
                    "repair; C18_D23_unrepaired_nests / C18_D23_repaired state the defect and its repair on the commit block.")


def replay(payload) -> int:
    case = payload.get("case") or {}
    if "doc" not in case and "docname" in case:
        case["doc"] = DOCS[case["docname"]]
    case.pop("observed", None)
    o = _worker(case)
    if "machinery" in o:
        print(o["machinery"])
        return 2
    d = common.driver_batch([driver_request(case, o)])[0]
    print("case            :", case_label(case), "fault at library call", case.get("fault"), "site", o.get("fired_site"))
    print("real outcome    :", o["kind"], "|", o["exc"])
    print("real effects    :", o["trace"], "(raw:", o["events"], ")")
    print("model outcome   :", d["model_result"], d["model_trace"])
    print("fs differences  :", d.get("diff"))
    print("oracle (real)   :", d.get("viol"))
    tmp = common.Result("C18", "quick", 0)
    fails, dis = judge(tmp, case, o, d)
    for f in fails:
        print("FAIL:", f)
    for f in dis:
        print("DISAGREE:", f)
    if fails or dis:
        print("VIOLATION property=C18 replay=<given>")
        return 1
    print("property holds on this input")
    return 0
