"""C18 — exports are all-or-nothing and leave no debris.

Theorems: lean/Props/C18.lean about `Model.Export.writeRtf` / `writeConv` (effect sequences over an
abstract file system, scoped temporary directories, a fault point before every effect, any confined
converter).  Tie to the code on every run (observation level only — the property is about the public
`write_*` methods):

  * every case is one real call of `RTFDocument.write_rtf/docx/html/pdf` in a sandbox
    (harness/faults.py): snapshot before/after, `tempfile.tempdir` redirected, stub converters or the
    real `LibreOfficeConverter` driven by a fake `soffice`, optionally an exception injected at the
    n-th library call (exhaustive over call sites, sampled over call instances);
  * the real converter class is exercised over a fake soffice PROCESS whose run is data (`faults.proc_spec`):
    exit status 0 / several non-zero statuses / killed by KILL, TERM, HUP  x  what it wrote BEFORE exiting (nothing,
    the full / a truncated / an empty `<stem>.<fmt>`, the document under another name or in a subdirectory)  x
    resource folder, stray files in the output directory, output on stdout/stderr (small / > pipe buffer); explicit
    converter object or the default one found on PATH; the version probe always behaves normally.  Whether the
    conversion FAILED is taken from the process (its own log + its behaviour: non-zero exit status whatever it
    wrote, or no `<stem>.<fmt>`), never from what the library made of it: then the export has to raise, leave the
    target as it was and no debris.  The model side is `Model.Export.procConverter (fakeProc …)` (exit status +
    produced entries -> verdict), theorems in `Props/C18proc.lean`.  (`LibreOfficeConverter` has no timeout.)
  * oracle (independent of the model): the Lean-defined `Model.Export.violations` evaluated by the driver
    on the real before/after snapshots (+ here: the converter must have been given exactly the string
    `rtf_encode()` returned);
  * correspondence: the driver runs the model on the same initial file system, converter behaviour and
    fault index and compares (a) raised / error kind, (b) the sequence of completed effects, (c) the
    final file system extensionally (which contains the projection target status / listing delta
    outside temp / temp residue).

  Target names and spellings.  The target's file name is an input like any other (`tname`): usual
  (`report.<ext>`), upper/mixed-case or foreign suffix (`.HTML`, `.htm`, `.xhtml`, `.out`), no suffix, several
  suffixes, hidden files, trailing dot, only dots, spaces, non-ASCII, shell metacharacters, long names, names
  ending in `_files`; the target is passed as `Path`/`str`, absolute / relative to the working directory /
  through `./`, `../`, `//`, `~` (`form`).  The names of the intermediate files are *derived*: the model
  computes `<stem>.rtf` from the target's name (`Model.Export.rtfNameOf`) and its stub converter names its
  output after its input (`stubN`/`convName`), exactly as the real converter does; the real run reports the
  names the converter was given / chose, and the two are compared.  The oracle's resource-folder clause uses
  the name of the folder the converter *actually produced* (`<converted name>_files`): it has to be next to the
  target under that name, with exactly the converter's content, and nowhere else.  `names` unit level: `stem`,
  `rtfNameOf`, `convName`, `resourcesOf` of the model against pathlib on random names.

  Fault index: the model's fault point is "before the k-th effect".  The real run logs every completed
  effect (stdlib wrappers + return events); k := number of effects completed when the exception was
  injected.  An injected exception that the library swallows is compared with the model's fault-free run.
"""
from __future__ import annotations

import json
import re

from .. import common, faults
from ..common import sub_rng

RULE = ("matrix: 4 export functions x target states (existing / absent / missing directories / ancestor is a file / "
        "target is a directory / a folder <target name>_files exists / HTML: existing resource folder, resource path "
        "is a file, second export) x what the pre-existing file holds (non-UTF-8 bytes, text, nothing, twins of the "
        "new RTF code: identical / CRLF / CR / BOM / cut short / trailing blank / upper case / UTF-16 / doubled line ends) "
        "x converter "
        "(7 stub behaviours, failing lookup, real LibreOfficeConverter on a fake soffice: ok/okres/fail/no output, "
        "lookup through PATH) x documents (incl. two whose encode raises); proc: the real LibreOfficeConverter (explicit / "
        "found on PATH) over fake soffice PROCESSES = exit status (0, 1, 2, 3, 77, 255, killed by KILL/TERM/HUP) x written "
        "before the exit (nothing, full / truncated / empty <stem>.<fmt>, <stem>.<fmt>.part, nested_out/<stem>.<fmt>) x "
        "resource folder x stray files in the output directory x noise on stdout/stderr, for docx/pdf/html over existing and "
        "new targets and the other target states, usual and unusual names; a run that exits non-zero (whatever it wrote) or "
        "leaves no <stem>.<fmt> is a failed conversion (judged from the process, not from the library); names: the same matrix over target FILE "
        "NAMES (usual, upper/mixed-case suffix, foreign suffix, none, several, hidden, trailing dot, dots only, spaces, "
        "non-ASCII, shell metacharacters, long, *_files) x target SPELLINGS (Path/str, absolute, relative, ./, ../, //, ~), "
        "successful and failing converters and encoders; unit: model stem/rtf/converted/resource names vs pathlib on "
        "random names; faults: for each profile every library "
        "call site (first instance; thorough: also last) + random call instances; non-trivial = distinct "
        "(function, state, converter, outcome kind, faulted site, name class, spelling)")
TRUSTED = [
    "Lean 4.33 kernel; axioms ⊆ {propext, Classical.choice, Quot.sound} (audited per theorem on every run)",
    "Lean compiler for the driver executable",
    "harness/faults.py: os.walk snapshots, sys.settrace injection, stdlib wrappers for the effect log",
    "the abstract file system Fs stands for the OS file system, tempfile and shutil (every effect atomic)",
]
MANIFEST = dict(
    text="Lean theorems over an effect-sequence model of write_rtf/write_docx/write_html/write_pdf (abstract file "
         "system, TemporaryDirectory as scoped resource, a fault point before every effect, any converter confined "
         "to its output directory): on failure target unchanged, temp dirs gone, nothing else changed except created "
         "parent directories; on success target = encoder's string / converter's output, HTML resource folder exactly "
         "next to the target, nothing else. File names are data (Props/C18names.lean): <stem>.rtf, the converted "
         "file's name and the resource folder's name <converted name>_files are derived from an arbitrary target name, "
         "the folder is placed next to the target under the converted file's name. The shipped converter is a function "
         "of a process run (Props/C18proc.lean): run outcome = exit status + entries written; non-zero exit status is a "
         "failed conversion whatever was written, exit 0 without <stem>.<fmt> too; an export whose runs fail raises and is "
         "all-or-nothing at every fault point, for every process. Tied to the code on every run by "
         "fault-injected real exports (every library call site; target names with usual/upper-case/foreign/no/several "
         "suffixes, hidden, spaces, non-ASCII, shell metacharacters; targets spelled absolute/relative/./../~) judged by a "
         "Lean-defined oracle on before/after snapshots and compared with the model.",
    note="partial: OS-level failures inside one effect (ENOSPC in write_text, cross-device move, failing rmtree, a "
         "raising print after the move) are not exhibited by the model; LibreOffice is replaced by stubs / a fake "
         "soffice process (driven through the real LibreOfficeConverter: exit statuses, signals, full/truncated/empty/"
         "misnamed output, stray files; a run with exit status 0 and a truncated document counts as a conversion - the "
         "library cannot know). Models the tree with the D23 repair (fixes/html-resource-folder-nesting.patch). A target that is itself "
         "called <stem>.html_files (its own resource folder's path) is outside the success clause (hypothesis of "
         "C18_conv_success): there write_html returns and the HTML file is replaced by the folder.",
    technique="Lean 4 proof (effect sequences, frame reasoning) + fault-injected differential correspondence",
    design="7/C18",
)
ASSUME = [
    "file-system effects are atomic (happen completely or not at all)",
    "converters write only below their output directory and return a path strictly below it (Confined)",
    "mkdtemp names do not clash with the target / resource destination (NoClash) — also a precondition of the code",
    "rtf_encode() does not write to the file system",
]

TMP_A, TMP_B = "c18tmpA", "c18tmpB"

# ------------------------------------------------------------------ documents

def _rows(n, cols, tag="r"):
    return [[f"{tag}{i}c{j}" for j in range(cols)] for i in range(n)]


DOCS = {
    "small": dict(kind="table", df=dict(cols=["a", "b"], rows=_rows(3, 2))),
    "paged": dict(kind="table", df=dict(cols=["a", "b", "c"], rows=_rows(28, 3)), page=dict(nrow=10),
                  title=dict(text=["Title line", "second"]), footnote=dict(text="Footnote"), source=dict(text="Source")),
    "grouped": dict(kind="table", df=dict(cols=["g", "x", "y"],
                                          rows=[[("A" if i < 5 else "B"), f"x{i}", f"y{i}"] for i in range(9)]),
                    body=dict(page_by=["g"], new_page=True), page=dict(nrow=8)),
    "unicode": dict(kind="table", df=dict(cols=["a", "b"], rows=[["café", "α ≤ β"], ["\U0001f600", "x"]]),
                    title=dict(text="Über")),
    "multi": dict(kind="multi", df=[dict(cols=["a", "b"], rows=_rows(4, 2)), dict(cols=["c", "d"], rows=_rows(3, 2, "s"))],
                  body=[{}, {}]),
    "bad_pageby": dict(kind="table", df=dict(cols=["a"], rows=[["1"], ["2"]]), body=dict(page_by=["a"])),
    "bad_width": dict(kind="table", df=dict(cols=["a", "b", "c"], rows=[["1", "2", "3"]]), body=dict(col_rel_width=[1, 1])),
}
GOOD_DOCS = ["small", "paged", "grouped", "unicode", "multi"]
BAD_DOCS = ["bad_pageby", "bad_width"]

STUB_BEHS = ["failBefore", "failAfter", "retList", "retOther", "retMissing", "okPlain", "okRes"]
REAL_BEHS = ["ok", "okres", "fail", "noout"]

# ---- the real LibreOfficeConverter over a fake soffice PROCESS (faults.proc_spec): x<exit>.<out>[.res][.extra][.noisy|.loud]
PROC_EXITS_BAD = ["1", "2", "3", "77", "255", "KILL", "TERM", "HUP"]
PROC_OUTS = ["none", "full", "trunc", "empty", "part", "sub"]
# fixed representatives (every run of the matrix): the process FAILS after writing full / truncated / empty output
# (+ resource folder, stray files, noise), is killed by a signal, names its output differently; and runs that
# succeed with a truncated / empty document, stray files, loud output
PROC_BAD_FIXED = ["x1.full", "x1.trunc7", "x1.empty", "x1.full.res", "x77.trunc3.res.extra", "xKILL.trunc12", "xTERM.full.extra",
                  "xHUP.none", "x2.part", "x1.sub.noisy", "x3.full.loud", "x0.part", "x0.sub.extra", "x0.none.res"]
PROC_OK_FIXED = ["x0.full.extra", "x0.trunc9", "x0.empty", "x0.full.res.extra.loud", "x0.trunc5.res", "x0.full.noisy"]


def proc_beh(rng, ok=None, exit=None, out=None):
    """a random behaviour of the fake process; ok=True: the run succeeds, ok=False: it fails"""
    if exit is None:
        exit = "0" if ok else rng.choice(PROC_EXITS_BAD + (["0"] if ok is None or ok is False else []))
    if out is None:
        if ok:
            out = rng.choice(["full", "full", "trunc", "empty"])
        elif exit == "0" and ok is False:
            out = rng.choice(["none", "part", "sub"])
        else:
            out = rng.choice(PROC_OUTS)
    name = f"x{exit}.{out}" + (str(rng.randint(1, 40)) if out == "trunc" else "")
    if out in ("full", "trunc", "empty") and rng.random() < 0.4:
        name += ".res"
    if rng.random() < 0.3:
        name += ".extra"
    r = rng.random()
    if r < 0.2:
        name += ".noisy"
    elif r < 0.3:
        name += ".loud"
    return name


def conv_configs():
    out = [dict(mode="stub", beh=b) for b in STUB_BEHS]
    out.append(dict(mode="lookup_fail"))
    out += [dict(mode="real", beh=b) for b in REAL_BEHS]
    out += [dict(mode="path", beh="ok"), dict(mode="path", beh="okres")]
    return out


def proc_configs(rng):
    """further converter configurations of the matrix: the fixed process behaviours, each through an explicit
    LibreOfficeConverter or the default one found on PATH"""
    return [dict(mode=rng.choice(["real", "real", "path"]), beh=b) for b in PROC_BAD_FIXED + PROC_OK_FIXED]


# ------------------------------------------------------------------ workers

def _worker(case):
    try:
        from .. import docgen
        pre = docgen.encode(case["doc"])
        r = faults.run_export(case)
        r["pre_enc"] = pre[1] if pre[0] == "ok" else None
        return r
    except Exception as e:  # noqa: BLE001  (sandbox / machinery trouble, never a verdict)
        import traceback
        return dict(machinery="".join(traceback.format_exception(type(e), e, e.__traceback__))[-1500:])


def _latin(s: str | None):
    return None if s is None else s.encode("utf-8").decode("latin-1")


def driver_request(case, r):
    fn = case["fn"]
    enc = r["enc"] if r["enc"] is not None else (None if r["enc_failed"] else _latin(r["pre_enc"]))
    # intermediate names are NOT passed: the model derives <stem>.rtf from tname and the converted file's name from that
    req = dict(op="export", fn=fn, before=r["before"], after=r["after"], dir=r["dir"], tname=r["tname"],
               tmpRoot=["tmp"], tA=TMP_A, tB=TMP_B, enc=enc,
               k=(r["k"] if (r["fired"] and not r["swallowed"]) else None))
    conv = case.get("conv") or {}
    if fn != "rtf":
        mode = conv.get("mode")
        if mode == "lookup_fail":
            req["conv"] = dict(mode="lookup_fail")
        elif mode == "stub":
            req["conv"] = dict(mode="stub", beh=conv["beh"], fmt=faults.EXT[fn], explicit=True)
        else:
            # real LibreOfficeConverter over the fake process: the model gets the RUN (exit status + what it writes)
            sp = faults.proc_spec(conv["beh"])
            req["conv"] = dict(mode="proc", exit=sp["code"], out=sp["out"], n=sp["n"], res=sp["res"], extra=sp["extra"],
                               fmt=faults.EXT[fn], explicit=(mode != "path"))
    tdir = case["state"] == "target_is_dir"
    if fn == "rtf":
        expected = enc
    else:
        expected = r["written"]
    # the resource folder = the companion of the file the converter actually produced (observed name)
    res_name = r.get("res_name") if r["has_res"] else None
    if r["has_res"] and res_name is None:
        raise common.MachineryError("a resource folder was produced but the converted file's name was not observed")
    obs = dict(raised=r["raised"], mustRaise=bool(r["enc_failed"] or r["conv_failed"]),
               expected=None if (tdir or res_is_target(r)) else expected,
               resName=res_name if not tdir else None,
               resContent=faults.RES_CONTENT)
    req["obs"] = obs
    return req


def res_is_target(r):
    """the resource folder's destination is the target path itself (a target called <x>.html_files): the two outputs
    cannot both be at the requested location; excluded by hypothesis in C18_conv_success — correspondence only"""
    return bool(r.get("has_res")) and r.get("res_name") == r["tname"]


def case_label(case):
    c = case.get("conv") or {}
    return f"{case['fn']}/{case['docname']}/{case['state']}/{c.get('mode', '-')}:{c.get('beh', '-')}" + \
        ("/twice" if case.get("twice") else "") + (f"/old={case['old']}" if case.get("old") else "") + \
        (f"/name={case['tname']!r}" if case.get("tname") else "") + (f"/as={case['form']}" if case.get("form") else "")


def slim(case, r=None):
    """what a replay file stores"""
    d = {k: case[k] for k in ("fn", "docname", "doc", "state", "conv", "fault", "twice", "tname", "form", "nclass")
         if k in case}
    if case.get("old"):
        d["old"] = case["old"]
    if r is not None:
        d["observed"] = {k: r.get(k) for k in ("raised", "exc", "kind", "trace", "fired_site", "k", "swallowed",
                                                "arg", "conv_in_name", "conv_out_name", "res_name", "proc")}
        if r.get("after") is not None:
            d["observed"]["work_after"] = ["/".join(e[0]) + ("/" if e[1] == "d" else "") for e in r["after"]
                                           if e[0][:1] == ["work"]][:40]
    return d


def judge(res, case, r, d):
    """oracle + correspondence for one case; returns (failures, disagreements) as lists of strings"""
    fails, dis = [], []
    fn = case["fn"]
    outside = fn != "rtf" and case["state"] == "target_is_dir"
    viol = d.get("viol", [])
    if viol and not outside:
        extra = ""
        if "resource-folder-not-exactly-next-to-target" in viol:
            extra = (f" (the converter produced {r.get('conv_out_name')!r} with the folder {r.get('res_name')!r}; after the "
                     f"call it is not at {'/'.join(r['dir'] + [r.get('res_name') or '?'])} with the converter's content)")
        if "no-raise-after-failed-encode-or-conversion" in viol and r.get("proc") and faults.proc_failed(r["proc"]):
            sp = r["proc"]
            extra += (f" (the LibreOffice process wrote {sp['out']}" + (f"[{sp['n']} bytes]" if sp["out"] == "trunc" else "")
                      + f" and exited with status {sp['exit']}: a failed conversion, but {case['fn']} returned; target "
                      + target_change(r) + ")")
        fails.append("oracle clauses violated on the real file system: " + ", ".join(viol) + extra)
    if r.get("conv_input") is not None and r.get("enc") is not None and r["conv_input"] != r["enc"]:
        fails.append("the converter was not given exactly the string rtf_encode() returned")
    # "write_rtf stores exactly the string rtf_encode() returns": with an encoder that returned, no injected fault
    # and a target location that can be written, a raise (other than from the operating system) is not an outcome
    # the statement allows — whatever the pre-existing file holds
    writable = case["state"] in ("existing", "absent", "missing_dirs", "named_files_dir")
    if (fn == "rtf" and writable and r["raised"] and not r["fired"] and not r["enc_failed"] and r.get("enc") is not None
            and r["kind"] not in ("os", "encode", "injected")):
        fails.append(f"write_rtf raised {r['exc']} although rtf_encode() returned and nothing failed: the target does not "
                     f"hold the string (pre-existing file: {case.get('old') or 'fixed non-UTF-8 bytes'}; target "
                     + target_change(r) + ")")
    if r.get("pre_exc") and fn == "rtf" and writable and not r["enc_failed"]:
        fails.append(f"the earlier write_rtf to the same path raised {r['pre_exc']} although the document encodes")
    if r["kind"].startswith("other:"):
        dis.append(f"real call raised an unclassified exception {r['exc']}")
    # correspondence
    injected = r["fired"] and not r["swallowed"]
    mres = d["model_result"]
    if injected:
        if not r["raised"]:
            dis.append("fault fired but the call returned")
        if mres == "ok":
            dis.append(f"model succeeds with fault index {r['k']} while the real call raised {r['exc']}")
    else:
        if mres != r["kind"]:
            dis.append(f"model outcome {mres} != real outcome {r['kind']} ({r['exc']})")
    mtrace = [e for e in d["model_trace"] if e != "typecheck"]
    if mtrace != r["trace"]:
        dis.append(f"completed effects differ: model {mtrace} vs real {r['trace']} (raw {r['events']})")
    if r.get("conv_in_name") is not None and r["conv_in_name"] != d["model_rtf_name"]:
        dis.append(f"the converter was given {r['conv_in_name']!r}, the model derives {d['model_rtf_name']!r} from the target name")
    if r.get("conv_out_name") is not None and d.get("model_out_name") is not None and r["conv_out_name"] != d["model_out_name"]:
        dis.append(f"the converter produced {r['conv_out_name']!r}, the model's converter {d['model_out_name']!r}")
    if d.get("diff"):
        dis.append("final file systems differ at " + ", ".join("/".join(p) for p in d["diff"][:6]))
    return fails, dis


def beh_key(beh):
    """behaviour name without the truncation length (for the distinct-case key)"""
    return re.sub(r"trunc\d+", "trunc", beh) if beh else beh


def count_proc(res, c, o):
    """input distribution of the fake-process cases (real LibreOfficeConverter)"""
    sp = o["proc"]
    if not sp["runs"]:
        res.count("proc:conversion process not reached")
        return
    ex = "0" if sp["code"] == 0 else ("signal" if sp["exit"] in faults.PROC_SIGNALS else "nonzero")
    res.count(f"proc_exit:{ex}")
    res.count(f"proc_out:{sp['out']}")
    wrote = sp["out"] in ("full", "trunc", "empty")
    if sp["code"] != 0 and wrote:
        res.count("proc:FAILED AFTER writing <stem>.<fmt> (" + sp["out"] + ")")
        res.count(f"proc_failed_after_output:{c['fn']}:target_{c['state']}")
    if sp["code"] != 0 and not wrote:
        res.count("proc:failed without <stem>.<fmt> (" + sp["out"] + ")")
    if sp["code"] == 0 and not wrote:
        res.count("proc:exit 0 without <stem>.<fmt> (" + sp["out"] + ")")
    if sp["code"] == 0 and wrote:
        res.count("proc:exit 0 with " + sp["out"] + " output")
    if sp["res"]:
        res.count("proc:resource folder written" + (" by a failing run" if faults.proc_failed(sp) else ""))
    if sp["extra"]:
        res.count("proc:stray files in the output directory")
    if sp["noise"]:
        res.count("proc:noise:" + sp["noise"])
    res.count("proc_via:" + ("explicit converter" if (c.get("conv") or {}).get("mode") == "real" else "PATH lookup"))


def target_change(r):
    """what happened to the target path, in words"""
    t = r["dir"] + [r["tname"]]
    b = next((e for e in r["before"] if e[0] == t), None)
    a = next((e for e in r["after"] if e[0] == t), None)
    if a == b:
        return "unchanged"
    if b is None:
        return f"CREATED holding {a[2][:24]!r}" if a[1] == "f" else "CREATED as a directory"
    if a is None:
        return "REMOVED"
    return f"REPLACED: was {b[2][:24]!r}, now {a[2][:24]!r}" if (a[1] == "f" and b[1] == "f") else "REPLACED"


def run_cases(res, cases, phase):
    obs = common.pool_map(_worker, cases, chunksize=2)
    for o in obs:
        if "machinery" in o:
            raise common.MachineryError("sandbox run failed: " + o["machinery"])
    reqs = [driver_request(c, o) for c, o in zip(cases, obs)]
    drv = common.driver_batch(reqs)
    for c, o, d in zip(cases, obs, drv):
        outside = c["fn"] != "rtf" and c["state"] == "target_is_dir"
        if d["model_viol"] and d["before_wf"] and not outside:
            raise common.MachineryError(f"model output violates its own oracle: {d['model_viol']} on {case_label(c)}")
        if d["before_wf"] and not d["model_wf"]:
            raise common.MachineryError(f"model produced an ill-formed file system on {case_label(c)}")
        fails, dis = judge(res, c, o, d)
        site = tuple(o["fired_site"]) if o.get("fired_site") else None
        cm = c.get("conv") or {}
        nt = (c["fn"], c["state"], cm.get("mode"), beh_key(cm.get("beh")), o["kind"], site, c.get("nclass"), c.get("form"))
        res.case(slim(c, o), nt)
        res.corr_checked += 1
        res.count(f"{phase}:{c['fn']}")
        res.count("outcome:" + ("injected" if (o["fired"] and not o["swallowed"]) else o["kind"]))
        res.count("state:" + c["state"])
        if c["state"] in ("existing", "existing_res", "res_is_file", "named_files_dir"):
            res.count("pre-existing-content:" + (c.get("old") or "fixed(non-UTF-8 bytes)"))
        if o.get("proc"):
            count_proc(res, c, o)
        if c.get("nclass"):
            res.count("name:" + c["nclass"])
            if o["kind"] == "ok":
                res.count("name_success:" + c["nclass"])
                if o.get("has_res"):
                    res.count("name_success_with_resource_folder:" + c["nclass"])
        if c.get("form"):
            res.count("spelling:" + c["form"])
        if o.get("has_res") and o.get("res_name") != o["tname"] + "_files":
            res.count("resource_folder_name_differs_from_<target name>_files")
        if res_is_target(o):
            res.count("oracle_target_clause_skipped:resource_folder_is_target(outside domain)")
        if o.get("swallowed"):
            res.count("fault_swallowed_by_library")
        if o.get("transformed"):
            res.count("fault_re-raised_as_other_exception")
        if c["fn"] != "rtf" and c["state"] == "target_is_dir":
            res.count("oracle_skipped:target_is_dir(outside domain)")
        for f in fails:
            res.fail(slim(c, o), f"{case_label(c)} fault={c.get('fault')} site={o.get('fired_site')}: {f}")
        for f in dis:
            res.disagree(slim(c, o), f"{case_label(c)} fault={c.get('fault')} site={o.get('fired_site')}: {f}")
    return obs


# ------------------------------------------------------------------ case generation

RTF_STATES = ["existing", "absent", "missing_dirs", "parent_is_file", "grandparent_is_file", "target_is_dir",
              "named_files_dir"]
CONV_STATES = ["existing", "absent", "missing_dirs", "parent_is_file", "target_is_dir", "named_files_dir"]
HTML_STATES = ["existing_res", "res_is_file"]


def mk(fn, docname, state, conv=None, fault=None, twice=False, sites=False, tname=None, form=None, nclass=None, old=None):
    c = dict(fn=fn, docname=docname, doc=DOCS[docname], state=state, fault=fault)
    if old is not None:
        c["old"] = old
    if conv is not None:
        c["conv"] = conv
    if twice:
        c["twice"] = True
    if sites:
        c["sites"] = True
    if tname is not None:
        c["tname"] = tname
        c["nclass"] = nclass or name_class_of(fn, tname)
    if form is not None:
        c["form"] = form
    return c


# ------------------------------------------------------------------ target file names

def name_classes(fn):
    """classes of target FILE NAMES (the directory part is the target *state*).  Nothing here is special to one
    export function: every class is instantiated with the function's own extension `e`."""
    e = faults.EXT[fn]
    foreign = dict(html=["report.htm", "report.xhtml", "page.shtml"], docx=["report.doc", "report.docm"],
                   pdf=["report.ps", "report.fdf"], rtf=["report.txt", "report.doc"])[fn]
    return {
        "usual": [f"report.{e}"],
        "upper_suffix": [f"report.{e.upper()}", f"REPORT.{e.upper()}"],
        "mixed_suffix": [f"Report.{e.capitalize()}", f"report.{e[0]}{e[1:].upper()}"],
        "foreign_suffix": foreign + ["report.out"],
        "sibling_suffix": [f"report.{x}" for x in ("rtf", "docx", "pdf", "html") if x != e],
        "no_suffix": ["report", "README"],
        "multi_suffix": [f"report.v1.2.{e}", "report.tar.gz", f"report.{e}.bak", f"report.{e}.{e}", f"report.html.{e}",
                         f"a.b.c.d.{e}"],
        "hidden": [".report", f".{e}", f".report.{e}"],
        "trailing_dot": ["report.", f"report.{e}."],
        "dots_only_stem": [f"..{e}", "...", f"...{e}"],
        "spaces": [f"my report (final).{e}", f" lead.{e}", f"trail .{e}", "two  words", f"tab\there.{e}"],
        "non_ascii": [f"Bericht_März.{e}", f"отчёт.{e}", f"報告書.{e}", "résumé", f"naïve.ÄÖ{e.upper()}",
                      f"r\U0001f600.{e}"],
        "shell_meta": [f"a'b\"c $d;e&f.{e}", f"-rf.{e}", f"*.{e}", f"`x`$(y).{e}", f"back\\slash.{e}",
                       f"new\nline.{e}", f"%s%d{{0}}.{e}"],
        "long": ["L" * 200 + f".{e}", "M" * 230],
        "files_suffix": [f"report.{e}_files", "report_files", "report.html_files", f"report_files.{e}"],
    }


def name_class_of(fn, name):
    for k, v in name_classes(fn).items():
        if name in v:
            return k
    return "other"


OK_CONVS = [dict(mode="stub", beh="okRes"), dict(mode="real", beh="okres"), dict(mode="path", beh="okres"),
            dict(mode="stub", beh="okPlain"), dict(mode="real", beh="ok")]
BAD_CONVS = [dict(mode="stub", beh=b) for b in ("failBefore", "failAfter", "retList", "retOther", "retMissing")] + \
            [dict(mode="lookup_fail"), dict(mode="real", beh="fail"), dict(mode="real", beh="noout")]


def name_cases(rng, tier):
    """the matrix over target names x spellings: per (function, name) successful exports with and without a resource
    folder (stub / real converter / converter found through PATH), failing converters, a failing encoder; every HTML
    name also over an existing resource folder and next to a folder called <target name>_files"""
    cases = []
    quick = tier == "quick"
    docs = ["small", "unicode"] if quick else GOOD_DOCS
    forms = list(faults.FORMS)
    for fn in ("rtf", "docx", "pdf", "html"):
        for cls, names in name_classes(fn).items():
            picked = [rng.choice(names)] if quick else names
            if quick and cls in ("foreign_suffix", "upper_suffix", "no_suffix", "multi_suffix"):
                picked = list(dict.fromkeys(picked + [rng.choice(names)]))
            for nm in picked:
                def add(state, cv=None, doc=None, form=None, twice=False):
                    cases.append(mk(fn, doc or rng.choice(docs), state, cv, tname=nm, nclass=cls,
                                    form=form or rng.choice(forms), twice=twice))
                if fn == "rtf":
                    for st in (RTF_STATES if not quick else rng.sample(RTF_STATES, 3)):
                        add(st)
                    add(rng.choice(["existing", "absent", "missing_dirs"]), doc=rng.choice(BAD_DOCS))
                    continue
                okstates = ["existing", "absent", "missing_dirs", "named_files_dir"] + \
                    (HTML_STATES if fn == "html" else [])
                allstates = CONV_STATES + (HTML_STATES if fn == "html" else [])
                if quick:
                    add(rng.choice(okstates), OK_CONVS[0])
                    add(rng.choice(okstates), OK_CONVS[1])
                    add(rng.choice(okstates), rng.choice(OK_CONVS[2:]))
                    for cv in rng.sample(BAD_CONVS, 2):
                        add(rng.choice(allstates), cv)
                    add(rng.choice(allstates), rng.choice(OK_CONVS), doc=rng.choice(BAD_DOCS))
                else:
                    for cv in OK_CONVS:
                        for st in okstates:
                            add(st, cv)
                    for cv in BAD_CONVS:
                        for st in rng.sample(allstates, 3):
                            add(st, cv)
                    for st in rng.sample(allstates, 3):
                        add(st, rng.choice(OK_CONVS), doc=rng.choice(BAD_DOCS))
                if fn == "html":
                    add("existing_res", OK_CONVS[0])
                    add("named_files_dir", rng.choice(OK_CONVS[:3]))
                    add("existing", OK_CONVS[0], twice=True)
    # every spelling x every function, succeeding and failing, names drawn from all classes
    for fn in ("rtf", "docx", "pdf", "html"):
        classes = name_classes(fn)
        for form in forms:
            for ok in (True, False):
                cls = rng.choice(list(classes))
                nm = rng.choice(classes[cls])
                if fn == "rtf":
                    cases.append(mk("rtf", rng.choice(docs if ok else BAD_DOCS),
                                    rng.choice(["existing", "absent", "missing_dirs"]), tname=nm, nclass=cls, form=form))
                else:
                    st = rng.choice(["existing", "absent", "missing_dirs"] + (["existing_res"] if fn == "html" else []))
                    cv = rng.choice(OK_CONVS[:3]) if ok else rng.choice(BAD_CONVS)
                    cases.append(mk(fn, rng.choice(docs), st, cv, tname=nm, nclass=cls, form=form))
    return cases


def names_unit(res, rng, tier):
    """unit level of the names-as-data part of the model: `stem`, `rtfNameOf`, `convName`, `resourcesOf` against
    pathlib (what the code and the converter use) on random names, dot-heavy"""
    import pathlib
    n = 1500 if tier == "quick" else 20000
    alphabet = [".", ".", ".", "a", "B", " ", "é", "_", "-", "1", "報", "f", "x"]
    names = []
    for fn in ("rtf", "docx", "pdf", "html"):
        for v in name_classes(fn).values():
            names += [(fn, x) for x in v]
    while len(names) < n:
        nm = "".join(rng.choice(alphabet) for _ in range(rng.randint(1, 9)))
        if nm in (".", ".."):
            continue
        names.append((rng.choice(["rtf", "docx", "pdf", "html"]), nm))
    drv = common.driver_batch([dict(op="export_names", tname=nm, fmt=faults.EXT[fn]) for fn, nm in names])
    for (fn, nm), d in zip(names, drv):
        st = pathlib.PurePosixPath(nm).stem
        rtf = f"{st}.rtf"
        out = f"{pathlib.PurePosixPath(rtf).stem}.{faults.EXT[fn]}"
        want = dict(stem=st, rtf=rtf, out=out, res=out + "_files")
        res.evaluations += 1
        res.corr_checked += 1
        res.count("names_unit")
        if out != f"{st}.{faults.EXT[fn]}":
            res.count("names_unit:converted stem differs from target stem")
        if d != want:
            res.disagree(dict(names_unit=nm, fn=fn), f"names unit: model {d} vs pathlib {want} for the target name {nm!r}")


def matrix_cases(rng, tier, prng):
    cases = []
    docs = ["small", "unicode"] if tier == "quick" else GOOD_DOCS
    for st in RTF_STATES:
        for dn in docs + BAD_DOCS:
            cases.append(mk("rtf", dn, st))
    cases.append(mk("rtf", "small", "existing", twice=True))
    # what the pre-existing file holds is data: unrelated text, nothing, twins of the new content
    for old in faults.OLDS[1:]:
        for dn in docs:
            cases.append(mk("rtf", dn, "existing", old=old))
        cases.append(mk("rtf", rng.choice(docs), "named_files_dir", old=old, twice=bool(rng.getrandbits(1))))
        cases.append(mk("rtf", rng.choice(BAD_DOCS), "existing", old=old))
        fn = rng.choice(["docx", "pdf", "html"])
        cases.append(mk(fn, rng.choice(docs), "existing", rng.choice(OK_CONVS), old=old))
        cases.append(mk(rng.choice(["docx", "pdf", "html"]), rng.choice(docs), "existing", rng.choice(BAD_CONVS), old=old))
    for fn in ("docx", "pdf", "html"):
        states = CONV_STATES + (HTML_STATES if fn == "html" else [])
        for st in states:
            for cv in conv_configs():
                dn = rng.choice(docs)
                cases.append(mk(fn, dn, st, cv))
            for cv in proc_configs(prng):
                cases.append(mk(fn, prng.choice(docs), st, cv))
            # failing encoder under two converter configurations
            cases.append(mk(fn, rng.choice(BAD_DOCS), st, dict(mode="stub", beh="okRes")))
            cases.append(mk(fn, rng.choice(BAD_DOCS), st, dict(mode="real", beh="ok")))
        for cv in (dict(mode="stub", beh="okRes"), dict(mode="stub", beh="okPlain"), dict(mode="real", beh="okres"),
                   dict(mode="stub", beh="failAfter")):
            cases.append(mk(fn, "small", "existing", cv, twice=True))
        for b in ("x1.trunc7.res", "xKILL.full", "x0.trunc9.res"):
            cases.append(mk(fn, "small", "existing", dict(mode="real", beh=b), twice=True))
    return cases


def proc_cases(rng, tier):
    """the real LibreOfficeConverter over fake soffice processes, systematically: every exit status class (0, several
    non-zero statuses, killed by KILL / TERM / HUP) x what was written before the exit (nothing, the full / a truncated /
    an empty <stem>.<fmt>, the document under another name / in a subdirectory) for write_docx / write_pdf /
    write_html, over an existing and a new target (+ further target states), with random resource folder / stray
    files / noise, explicit converter or PATH lookup, usual and unusual target names"""
    cases = []
    quick = tier == "quick"
    docs = ["small", "unicode"] if quick else GOOD_DOCS
    for fn in ("docx", "pdf", "html"):
        others = ["missing_dirs", "named_files_dir", "parent_is_file", "target_is_dir"] + (HTML_STATES if fn == "html" else [])
        classes = name_classes(fn)
        for ex in ["0"] + PROC_EXITS_BAD:
            for out in PROC_OUTS:
                states = ["existing", "absent"] + ([rng.choice(others)] if quick else others)
                for st in states:
                    cv = dict(mode=rng.choice(["real", "real", "path"]), beh=proc_beh(rng, exit=ex, out=out))
                    kw = {}
                    if rng.random() < 0.35:
                        cls = rng.choice(list(classes))
                        kw = dict(tname=rng.choice(classes[cls]), nclass=cls, form=rng.choice(list(faults.FORMS)))
                    cases.append(mk(fn, rng.choice(docs), st, cv, **kw))
        # a failing encoder never reaches the process
        cases.append(mk(fn, rng.choice(BAD_DOCS), "existing", dict(mode="real", beh=proc_beh(rng, ok=False))))
    return cases


def proc_name_cases(rng, tier):
    """every target-name class x a failing and a succeeding process run"""
    cases = []
    quick = tier == "quick"
    docs = ["small", "unicode"] if quick else GOOD_DOCS
    for fn in ("docx", "pdf", "html"):
        states = ["existing", "absent", "missing_dirs", "named_files_dir"] + (HTML_STATES if fn == "html" else [])
        for cls, names in name_classes(fn).items():
            for nm in ([rng.choice(names)] if quick else names):
                for ok in (False, True):
                    for st in (rng.sample(states[:2], 1) + rng.sample(states[2:], 1) if quick else states):
                        cases.append(mk(fn, rng.choice(docs), st,
                                        dict(mode=rng.choice(["real", "path"]), beh=proc_beh(rng, ok=ok)),
                                        tname=nm, nclass=cls, form=rng.choice(list(faults.FORMS))))
    return cases


def profiles(rng, tier):
    """(fn, docname, state, conv) combinations whose call sites are enumerated"""
    if tier == "quick":
        return [
            ("rtf", "small", "existing", None),
            ("rtf", "paged", "missing_dirs", None),
            ("docx", "small", "existing", dict(mode="stub", beh="okRes")),
            ("pdf", "paged", "missing_dirs", dict(mode="stub", beh="okPlain")),
            ("html", "small", "existing_res", dict(mode="stub", beh="okRes")),
            ("html", "grouped", "existing", dict(mode="real", beh="okres")),
            ("docx", "small", "absent", dict(mode="path", beh="ok")),
            ("pdf", "small", "existing", dict(mode="lookup_fail")),
            ("docx", "unicode", "existing", dict(mode="real", beh="ok")),
            # unusual target names / spellings: every failure path again
            ("html", "small", "existing_res", dict(mode="stub", beh="okRes"), dict(tname="report.htm", form="rel")),
            ("html", "unicode", "named_files_dir", dict(mode="real", beh="okres"),
             dict(tname="Bericht März.XHTML", form="home")),
            ("docx", "small", "missing_dirs", dict(mode="stub", beh="okPlain"), dict(tname="report", form="dot")),
            ("pdf", "small", "existing", dict(mode="stub", beh="failAfter"), dict(tname=".report.v1.PDF", form="updown")),
            ("rtf", "small", "absent", None, dict(tname="my report.final", form="relpath")),
            # the conversion PROCESS fails after writing output / succeeds with a truncated document: every call site
            ("pdf", "small", "existing", dict(mode="real", beh="x1.trunc7")),
            ("html", "small", "absent", dict(mode="path", beh="xKILL.full.res.extra")),
            ("docx", "unicode", "existing", dict(mode="real", beh="x0.trunc9.extra.noisy"), dict(tname="report.v1", form="rel")),
        ]
    out = []
    convs = [dict(mode="stub", beh="okRes"), dict(mode="stub", beh="okPlain"), dict(mode="real", beh="okres"),
             dict(mode="path", beh="ok"), dict(mode="stub", beh="failAfter"), dict(mode="lookup_fail"),
             dict(mode="real", beh="ok")]
    convs += [dict(mode=m, beh=b) for m, b in (("real", "x1.trunc7"), ("path", "xKILL.full.res.extra"), ("real", "x1.full.res"),
                                               ("real", "x0.trunc9.extra.noisy"), ("path", "x0.part"), ("real", "x3.empty.loud"))]
    for fn in ("rtf", "docx", "pdf", "html"):
        for dn in GOOD_DOCS + BAD_DOCS[:1]:
            states = ["existing", "missing_dirs"] + (["existing_res"] if fn == "html" else [])
            for st in states:
                out.append((fn, dn, st, None if fn == "rtf" else rng.choice(convs)))
                classes = name_classes(fn)
                cls = rng.choice(list(classes))
                out.append((fn, dn, rng.choice(states + ["named_files_dir"]), None if fn == "rtf" else rng.choice(convs),
                            dict(tname=rng.choice(classes[cls]), form=rng.choice(list(faults.FORMS)))))
    return out


def fault_cases(res, rng, tier):
    profs = profiles(rng, tier)
    profs = [(pr + ({},))[:5] for pr in profs]
    probe = [mk(fn, dn, st, cv, sites=True, **nm) for fn, dn, st, cv, nm in profs]
    obs = common.pool_map(_worker, probe, chunksize=1)
    cases = []
    all_sites = set()
    n_rand = 40 if tier == "quick" else 60
    for (fn, dn, st, cv, nm), o in zip(profs, obs):
        if "machinery" in o:
            raise common.MachineryError("profiling run failed: " + o["machinery"])
        sites = [tuple(s) for s in (o["sites"] or [])]
        first, last = {}, {}
        for i, s in enumerate(sites, 1):
            first.setdefault(s, i)
            last[s] = i
        all_sites |= set(first)
        idx = set(first.values()) | {1}
        if tier != "quick":
            idx |= set(last.values())
        n = len(sites)
        for _ in range(n_rand):
            if n:
                idx.add(rng.randint(1, n))
        for i in sorted(idx):
            cases.append(mk(fn, dn, st, cv, fault=i, **nm))
    res.extra["fault_profiles"] = len(profs)
    res.extra["library_call_sites_enumerated"] = len(all_sites)
    return cases


def _simplicity(cw):
    c = cw[0]
    return (c.get("fault") is not None, "names_unit" in c, c.get("form") not in (None, "path"), bool(c.get("twice")),
            re.fullmatch(r"[A-Za-z]+(\.[A-Za-z]+)?", c.get("tname") or "x") is None,
            c.get("state") not in ("absent", "existing"), c.get("docname") != "small",
            (c.get("conv") or {}).get("mode") not in (None, "stub"), len(c.get("tname") or ""))


def run(res: common.Result, build) -> int:
    rng = sub_rng(res.seed, "c18")
    run_cases(res, matrix_cases(sub_rng(res.seed, "c18", "matrix"), res.tier, sub_rng(res.seed, "c18", "matrix", "proc")),
              "matrix")
    run_cases(res, proc_cases(sub_rng(res.seed, "c18", "proc"), res.tier), "proc")
    run_cases(res, proc_name_cases(sub_rng(res.seed, "c18", "proc", "names"), res.tier), "proc_names")
    names_unit(res, sub_rng(res.seed, "c18", "names_unit"), res.tier)
    run_cases(res, name_cases(sub_rng(res.seed, "c18", "names"), res.tier), "names")
    fobs = run_cases(res, fault_cases(res, sub_rng(res.seed, "c18", "faults"), res.tier), "fault")
    hit = {tuple(o["fired_site"]) for o in fobs if o.get("fired_site")}
    res.extra["library_call_sites_faulted"] = len(hit)
    res.exhaustive = False
    # report the simplest failing input first (no fault, usual spelling, short name)
    res.failures.sort(key=_simplicity)
    res.disagreements.sort(key=_simplicity)
    return common.finish(
        res, build, RULE, TRUSTED, ASSUME,
        explanation="C18_rtf_failure/_success/_encode_first/_complete and C18_conv_temps_gone/_temp_area_unchanged/"
                    "_failure/_success hold for every initial file system, encoder outcome, fault index and confined "
                    "converter (C18_stub_confined: the injected stubs are confined). Level partial: effects are atomic in "
                    "the model; OS failures inside one effect are not exhibited. Names are data: C18names_* (Props/C18names.lean) "
                    "derive <stem>.rtf, the converted file's name and the resource folder's name from an arbitrary target "
                    "name and place the folder next to the target under the converted file's name. C18proc_* (Props/C18proc.lean): "
                    "LibreOfficeConverter = procConverter over a process run (exit status + written entries); confined for every "
                    "process; non-zero exit status / missing <stem>.<fmt> => convert raises whatever was written; an export whose "
                    "runs fail raises, target unchanged, temps gone (C18proc_failed_run_raises); a returning export made a run with "
                    "exit status 0 and the target holds that run's <stem>.<fmt> (C18proc_success_run). The model is the tree with the D23 "
                    "repair; C18_D23_unrepaired_nests / C18_D23_repaired state the defect and its repair on the commit block.")


def replay(payload) -> int:
    case = payload.get("case") or {}
    if not case:
        for b in payload.get("broken") or []:
            if b.get("kind") == "correspondence":
                case = b.get("case") or {}
    if "names_unit" in case:
        tmp = common.Result("C18", "quick", 0)
        import pathlib
        nm, fn = case["names_unit"], case.get("fn", "html")
        d = common.driver_batch([dict(op="export_names", tname=nm, fmt=faults.EXT[fn])])[0]
        st = pathlib.PurePosixPath(nm).stem
        want = dict(stem=st, rtf=f"{st}.rtf", out=f"{pathlib.PurePosixPath(st + '.rtf').stem}.{faults.EXT[fn]}")
        want["res"] = want["out"] + "_files"
        print("names unit:", repr(nm), "model", d, "pathlib", want)
        if d != want:
            print("VIOLATION property=C18 replay=<given>")
            return 1
        print("property holds on this input")
        return 0
    if "doc" not in case and "docname" in case:
        case["doc"] = DOCS[case["docname"]]
    case.pop("observed", None)
    o = _worker(case)
    if "machinery" in o:
        print(o["machinery"])
        return 2
    d = common.driver_batch([driver_request(case, o)])[0]
    print("case            :", case_label(case), "fault at library call", case.get("fault"), "site", o.get("fired_site"))
    print("target argument :", repr(o.get("arg")), "| converter was given", repr(o.get("conv_in_name")), "and produced",
          repr(o.get("conv_out_name")), "+ resource folder", repr(o.get("res_name")))
    if o.get("proc"):
        sp = o["proc"]
        print("converter process:", f"fake soffice ran {sp['runs']}x: wrote {sp['out']}" + (f"[{sp['n']} bytes]" if sp["out"] == "trunc" else "")
              + (" + resource folder" if sp["res"] else "") + (" + stray files" if sp["extra"] else "")
              + f", then exit status {sp['exit']}", "=> the conversion", "FAILED" if faults.proc_failed(sp) else "succeeded")
    print("work/ afterwards:", ["/".join(e[0][1:]) + ("/" if e[1] == "d" else "") for e in o["after"] if e[0][:1] == ["work"] and len(e[0]) > 1])
    print("real outcome    :", o["kind"], "|", o["exc"])
    print("real effects    :", o["trace"], "(raw:", o["events"], ")")
    print("model outcome   :", d["model_result"], d["model_trace"])
    print("fs differences  :", d.get("diff"))
    print("oracle (real)   :", d.get("viol"))
    tmp = common.Result("C18", "quick", 0)
    fails, dis = judge(tmp, case, o, d)
    for f in fails:
        print("FAIL:", f)
    for f in dis:
        print("DISAGREE:", f)
    if fails or dis:
        print("VIOLATION property=C18 replay=<given>")
        return 1
    print("property holds on this input")
    return 0
