"""C07 — table edges are closed by the documented border hierarchy on every page.

Theorems: lean/Props/C07.lean about `Model.Borders.applyBorders` (model of `_apply_pagination_borders`).
Oracle on the implementation (independent of the model), from the real output:
  * top of the document's first table row = rtf_page.border_first; bottom of the document's last table row (the
    footnote/source row when one is rendered as a table there, else the last data row) = rtf_page.border_last;
  * at every page boundary inside the table: bottom of the last table row before the break = rtf_body.border_last,
    top of the first data row of every page = rtf_body.border_first (rtf_page.border_first on page 1 without header);
  * every other data-cell edge = the user's border_top / border_bottom / border_left / border_right at the cell's
    original position.
Correspondence: per page, the Lean model's top/bottom grids and component overrides equal the observed styles.
"""
from __future__ import annotations

from .. import common, laygen, layfamily, rtfread
from . import c02

MANIFEST = dict(
    text="Lean theorems over applyBorders for every page shape, user border matrix and flag combination: page/body "
         "border_first on the first data row as documented, the closing style (body.border_last inside the table, "
         "page.border_last at its end) on the last data row or on the table-rendered footnote/source that ends the "
         "page, all other edges untouched at their original rows. Tied to the code by observation over the border × "
         "header × footnote/source × placement × pages × strategy product, single- and multi-section.",
    note="Column-header top border and footnote/source row emission are checked on the observation only; when the "
         "user's border_top row is longer than border_first the code lets a non-empty border_top of TABLE row 0 "
         "override body.border_first (modelled; generated documents keep that row empty, see DESIGN.md C07).",
    technique="Lean 4 proof (update_cell algebra + finite flag split) + observation-level oracle and correspondence",
    design="7/C07",
)

RULE = ("border styles (incl. '' = none) for rtf_page.border_first/last and rtf_body.border_first/last × header mode × footnote/source "
        "(table, paragraph, absent) × placement × 1..many pages × strategies × per-cell user border matrices (full, or 2-3-row patterns recycled over the rows); plus "
        "multi-section documents for the first/last clauses; non-trivial = ≥ 2 pages; distinct by the configuration "
        "tuple and page sizes")

STYLES = ["single", "double", "thick", "dotted", "dashed"]


def code(style):
    from rtflite.core.constants import RTFConstants as K

    return K.BORDER_CODES[style].lstrip("\\") or None


class C07(layfamily.Family):
    prop, tag = "C07", "c07"

    def ndocs(self, tier):
        return 320 if tier == "quick" else 5000

    def gen_multi(self, rng, k):
        """multi-section document (list of frames): the first/last clauses, and section joints are interior rows"""
        spec, info = c02.gen_multi(rng)
        pf, plast, bf, bl = (rng.choice(STYLES) for _ in range(4))
        spec["page"]["border_first"] = pf
        spec["page"]["border_last"] = plast
        if k % 2:
            spec["page"]["nrow"] = 40      # everything on one page: every section joint is interior
        for b in spec["body"]:
            b["border_first"] = bf
            b["border_last"] = bl
        ends, base = [], 0
        for f in spec["df"]:
            base += len(f["rows"])
            ends.append(base - 1)
        info.update(pf=pf, pl=plast, bf=bf, bl=bl, user=[], section_ends=ends, footnote="multi", source="absent",
                    placements=None)
        return spec, info

    def oracle_multi(self, spec, info, ob):
        fails = []
        pages, raws = ob["pages"], ob["_raw"]
        rowroles = ("colHeader", "data", "footnote", "source")
        flat = [(pno, b, r) for pno, (bl, rb) in enumerate(zip(pages, raws), 1) for b, r in zip(bl, rb)
                if b[0] in rowroles and (b[0] not in ("footnote", "source") or b[1])]
        if not flat:
            return fails
        got = self.edges(flat[0][2], "t")
        if any(x != code(info["pf"]) for x in got):
            fails.append(f"top edge of the document's first table row ({flat[0][1]}) is {got}, rtf_page.border_first = {info['pf']}")
        got = self.edges(flat[-1][2], "b")
        if any(x != code(info["pl"]) for x in got):
            fails.append(f"bottom edge of the document's last table row ({flat[-1][1]}) is {got}, rtf_page.border_last = {info['pl']}")
        # the last data row of a non-final section, when the next section continues on the same page, is an interior
        # row: its bottom edge is the user's border_bottom (none given → no border)
        for i, (pno, b, r) in enumerate(flat[:-1]):
            if b[0] == "data" and b[1] in info["section_ends"][:-1]:
                npno, nb, _ = flat[i + 1]
                if npno == pno and nb[0] in ("colHeader", "data"):
                    got = self.edges(r, "b")
                    if any(x is not None for x in got):
                        fails.append(f"page {pno}: row {b[1]} ends a non-final section and the next section continues on "
                                     f"the same page, but its bottom edge is {got}; the user's border_bottom is ''")
        return fails[:4]

    def gen(self, rng, k, tier):
        if k % 8 == 7:
            return self.gen_multi(rng, k // 8)
        fk = ["absent", "para", "table"][k % 3]
        sk = ["absent", "para", "table"][(k // 3) % 3]
        pl = ["first", "last", "all"]
        placements = (rng.choice(pl), pl[(k // 9) % 3], pl[(k // 27) % 3])
        target = [1, 2, 3, 5][k % 4]
        nrow = rng.randint(6, 12)
        n = max(1, (target - 1) * (nrow - 4) + rng.randint(1, 3))
        spec, info = laygen.gen_spec(rng, n=n, nrow=nrow, footnote=fk, source=sk, placements=placements,
                                     long_rows=False, dividers=False)
        # '' = "no border / no override": such documents carry no user border_top/border_bottom, so that "the edge
        # carries the setting" and "the edge keeps the user's border" name the same expected style (none)
        empties = k % 5 == 2
        pf, plast, bf, bl = (rng.choice(STYLES + ([""] if empties else [])) for _ in range(4))
        if k % 10 == 2:
            plast = ""
        spec["page"]["border_first"] = pf
        spec["page"]["border_last"] = plast
        spec["body"]["border_first"] = bf
        spec["body"]["border_last"] = bl
        ncols = len(spec["df"]["cols"])
        user = {}
        top0 = False
        if rng.random() < 0.6:
            sides = ["border_left", "border_right"] if empties else ["border_top", "border_bottom", "border_left", "border_right"]
            for side in rng.sample(sides, rng.randint(1, min(3, len(sides)))):
                # a full per-row matrix, or a short pattern of 2-3 rows that rtflite recycles over the table rows
                nr = n if rng.random() < 0.65 else rng.choice([2, 3])
                m = [[rng.choice(STYLES + ["", ""]) for _ in range(ncols)] for _ in range(nr)]
                if side == "border_top" and k % 6 != 5:
                    m[0] = [""] * ncols     # see MANIFEST note: keep table row 0 empty
                elif side == "border_top":
                    # every sixth document keeps a non-empty TABLE row 0 in border_top: the code then lets it override
                    # body.border_first on every page when that row is longer than the border_first row (modelled rule);
                    # such documents are compared with the model only (the top-edge clause of the oracle is skipped)
                    top0 = True
                spec["body"][side] = m
                user[side] = m
        info.update(pf=pf, pl=plast, bf=bf, bl=bl, user=sorted(user), top0=top0)
        return spec, info

    # ------------------------------------------------------------------ observation helpers
    @staticmethod
    def edges(rowblock, side):
        return [(d.borders.get(side) or {}).get("style") for d in rowblock.defs]

    def oracle(self, spec, info, ob):
        if info["strategy"] == "multi":
            return self.oracle_multi(spec, info, ob)
        fails = []
        pages, raws = ob["pages"], ob["_raw"]
        P = len(pages)
        cols = spec["df"]["cols"]
        disp = [cols.index(c) for c in info["displayed"]]
        body = spec["body"]
        pb_no_header_excl = bool(info["page_by"]) and (not info["new_page"] or info["pageby_row"] != "column")

        def user(side, r, oc, default):
            m = body.get(side)
            if m is None:
                return default
            return m[r % len(m)][oc % len(m[0])]
        rowroles = ("colHeader", "heading", "data", "footnote", "source")
        for pno, (blocks, rb) in enumerate(zip(pages, raws), 1):
            tbl = [(b, r) for b, r in zip(blocks, rb) if b[0] in rowroles and (b[0] not in ("footnote", "source") or b[1])]
            data = [(b, r) for b, r in tbl if b[0] == "data"]
            if not tbl or not data:
                continue
            first_b, first_r = tbl[0]
            last_b, last_r = tbl[-1]
            # (a) document's first table row
            # ('' on a header / component row leaves that component's own border setting in place: not judged here)
            if pno == 1 and not (first_b[0] == "heading" and pb_no_header_excl) and \
                    not (info["pf"] == "" and first_b[0] != "data"):
                got = self.edges(first_r, "t")
                if any(x != code(info["pf"]) for x in got):
                    fails.append(f"top edge of the document's first table row ({first_b}) is {got}, "
                                 f"rtf_page.border_first = {info['pf']}")
            # (b) document's last table row / (c) last table row before a break
            want = info["pl"] if pno == P else info["bl"]
            got = self.edges(last_r, "b")
            if any(x != code(want) for x in got) and not (want == "" and last_b[0] != "data"):
                which = "rtf_page.border_last" if pno == P else "rtf_body.border_last"
                fails.append(f"page {pno} of {P}: bottom edge of the last table row ({last_b}) is {got}, {which} = {want}")
            # (c) first data row of every page
            fd_b, fd_r = data[0]
            has_header = any(b[0] == "colHeader" for b, _ in tbl)
            if pno == 1 and not any(b[0] == "colHeader" for b in blocks):
                # no header row on page 1: page border_first — unless a heading row precedes (excluded case)
                if not (first_b[0] == "heading"):
                    want_top = info["pf"]
                else:
                    want_top = None
            else:
                want_top = info["bf"]
            if info.get("top0"):
                want_top = None        # the override rule for a non-empty table row 0 is judged against the model only
            if want_top is not None:
                got = self.edges(fd_r, "t")
                if any(x != code(want_top) for x in got):
                    fails.append(f"page {pno}: top edge of the first data row (row {fd_b[1]}) is {got}, expected "
                                 f"{want_top} ({'page' if want_top == info['pf'] and pno == 1 and not has_header else 'body'}"
                                 f".border_first)")
            # (d) all other data-cell edges: user's borders at the original position
            for k, (b, r) in enumerate(data):
                ri = b[1]
                for j, oc in enumerate(disp):
                    if j >= len(r.defs):
                        fails.append(f"row {ri}: cell {j} missing")
                        continue
                    d = r.defs[j]
                    exp = {"l": user("border_left", ri, oc, "single")}
                    if j == len(disp) - 1:
                        exp["r"] = user("border_right", ri, oc, "single")
                    if k > 0:
                        exp["t"] = user("border_top", ri, oc, "")
                    if k < len(data) - 1:
                        exp["b"] = user("border_bottom", ri, oc, "")
                    for side, st in exp.items():
                        got = (d.borders.get(side) or {}).get("style")
                        if got != code(st):
                            fails.append(f"row {ri} col {j}: {side}-edge is {got}, the user's border at the original "
                                         f"position is {st!r}")
            if len(fails) >= 4:
                break
        return fails[:4]

    def worker_extra(self, spec, info, ob):
        """BorderIn per page for the Lean model + the observed grids"""
        if info["strategy"] == "multi":
            return []
        cols = spec["df"]["cols"]
        disp = [cols.index(c) for c in info["displayed"]]
        removed = [cols.index(c) for c in info["removed"]]
        body = spec["body"]
        n = info["n"]
        P = len(ob["pages"])

        def processed(side, default):
            m = body.get(side)
            if m is None:
                return [[default]]
            if removed:
                return [[m[r % len(m)][oc % len(m[0])] for oc in disp] for r in range(n)]
            return m
        out = []
        for pno, (blocks, rb) in enumerate(zip(ob["pages"], ob["_raw"]), 1):
            data = [(b, r) for b, r in zip(blocks, rb) if b[0] == "data"]
            if not data:
                continue
            fn_here = any(b[0] == "footnote" and b[1] is True for b in blocks)
            src_here = any(b[0] == "source" and b[1] is True for b in blocks)
            has_headers = (spec["headers"] == "default" and body.get("as_colheader", True)) or \
                          (isinstance(spec["headers"], list) and len(spec["headers"]) > 0)
            bin_ = dict(isFirst=pno == 1, isLast=pno == P, start=data[0][0][1], height=len(data), width=len(disp),
                        top=processed("border_top", ""), bottom=processed("border_bottom", ""),
                        bodyFirst=[[info["bf"]]], bodyTopOrig=body.get("border_top") or [[""]],
                        bodyLast=[[info["bl"]]], pageFirst=info["pf"], pageLast=info["pl"],
                        hasHeaders=bool(has_headers), fnTableHere=fn_here, srcTableHere=src_here)
            obs_top = [self.edges(r, "t") for _, r in data]
            obs_bot = [self.edges(r, "b") for _, r in data]
            fn_bot = [self.edges(r, "b") for b, r in zip(blocks, rb) if b[0] == "footnote" and b[1] is True]
            src_bot = [self.edges(r, "b") for b, r in zip(blocks, rb) if b[0] == "source" and b[1] is True]
            out.append(dict(req=bin_, top=obs_top, bottom=obs_bot, fn=fn_bot, src=src_bot, page=pno))
        return out

    def project(self, pages, info):
        return [[b for b in p if b[0] in ("data", "footnote", "source", "colHeader")] for p in pages]

    def nontrivial(self, spec, info, ob):
        if len(ob["pages"]) >= 2:
            return [info["strategy"], info["header_mode"], info["footnote"], info["source"], str(info["placements"]),
                    info["pf"], info["pl"], info["bf"], info["bl"], str(info["user"]), len(ob["pages"])]
        return None


FAM = C07()


def model_corr(res, outs):
    reqs, meta = [], []
    for o in outs:
        for e in o.get("extra") or []:
            reqs.append(dict(op="borders", **e["req"]))
            meta.append((o, e))
    drv = common.driver_batch(reqs)
    for (o, e), d in zip(meta, drv):
        res.corr_checked += 1
        case = dict(spec=o["spec"], info=o["info"])
        mt = [[code(x) if x is not None else "ERR" for x in row] for row in d["top"]]
        mb = [[code(x) if x is not None else "ERR" for x in row] for row in d["bottom"]]
        if mt != e["top"]:
            res.disagree(case, f"page {e['page']}: model top-border grid {mt} != observed {e['top']}")
        elif mb != e["bottom"]:
            res.disagree(case, f"page {e['page']}: model bottom-border grid {mb} != observed {e['bottom']}")
        else:
            for key, obs in (("fnOverride", e["fn"]), ("srcOverride", e["src"])):
                if d[key] is not None and obs and any(x != code(d[key]) for x in obs[0]):
                    res.disagree(case, f"page {e['page']}: model {key} = {d[key]} but the component's bottom edge is {obs[0]}")


def run(res, build):
    fam = FAM
    jobs = [(fam, res.seed, k, res.tier, None) for k in range(fam.ndocs(res.tier))]
    outs = common.pool_map(layfamily._worker, jobs, chunksize=4)
    for o in outs:
        if "machinery" in o:
            raise common.MachineryError("worker failed: " + o["machinery"])
    for o in outs:
        case = dict(spec=o["spec"], info=o["info"])
        nt = o.get("nt")
        res.case(case, tuple(nt) if isinstance(nt, list) else nt)
        res.count("strategy:" + str(o["info"].get("strategy")))
        res.count("header:" + str(o["info"].get("header_mode")))
        res.count(f"fn:{o['info']['footnote']}/src:{o['info']['source']}")
        if o["status"] == "ok":
            res.count(f"pages:{min(len(o['pages']), 9)}")
        for f in (o.get("fails") or [])[:1]:
            res.fail(case, f)
    model_corr(res, [o for o in outs if o["status"] == "ok"])
    return common.finish(
        res, build, RULE, layfamily.TRUSTED_COMMON, layfamily.ASSUME_COMMON,
        explanation="C07_first_page_no_header, C07_body_first(_default), C07_closing_style, "
                    "C07_closing_on_last_data_row, C07_closing_on_component, C07_other_edges, C07_top_untouched hold "
                    "for every well-formed page input. Header-row top border and the emission of the component "
                    "override are observation-level clauses.")


def replay(payload):
    return layfamily.replay_family(FAM, payload)
