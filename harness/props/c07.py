"""C07 — table edges are closed by the documented border hierarchy on every page.

Theorems: lean/Props/C07.lean about `Model.Borders.applyBorders` (model of `_apply_pagination_borders`).
Oracle on the implementation (independent of the model), from the real output:
  * top of the document's first table row = rtf_page.border_first; bottom of the document's last table row (the
    footnote/source row when one is rendered as a table there, else the last data row) = rtf_page.border_last;
  * at every page boundary inside the table: bottom of the last table row before the break = rtf_body.border_last,
    top of the first data row of every page = rtf_body.border_first (rtf_page.border_first on page 1 without header);
  * every other data-cell edge = the user's border_top / border_bottom / border_left / border_right at the cell's
    original position.
Correspondence: per page, the Lean model's top/bottom grids and component overrides equal the observed styles.

Recycled border patterns (`gen_patterns`): the user's border_top / border_bottom / border_left / border_right as a
per-column pattern of every length 1 .. ncol+1 (flat list / one-row matrix), a per-row pattern of every length
1 .. nrow+1 (tuple / one-column matrix), a matrix of both, or a scalar, on tables from which page_by (spanning rows) /
subline_by take 1-4 columns out — leading or anywhere among the columns (permuted frames) — and on tables that keep their
columns.  The oracle binds every pattern to the ORIGINAL table (`laygen.attr_at(value, original row, original column)`),
so a short pattern whose cycle is shifted by the removed columns must still follow the original columns.  Documents of
the whole-encoder class (harness/crosscorr.py) are judged by the same oracle: `cross_prepare` reads the page / body
border settings from the spec.

Section lists (df=[f0, …], rtf_body=[b0, …]; `gen_sections`): lists of 1, 2, 3, 4, 5, 6 sections — the one-element list
included — with 0-row and 1-row sections in every position, per-section body borders, nested / flat / default header
lists, footnote / source as table / paragraph / absent under every placement, on one page or with breaks inside sections;
and the single 0-row frame.  Oracle (`oracle_multi`): first row, last row, the two page-boundary clauses per section, and
the section joints as interior rows.  Correspondence: per (section, page of the section) the same `borders` model, with
the page borders the model of the section loop (`Model.EncodeMulti.sectionDoc`, driver op `section_borders`) leaves to
section i of n.  Theorems: lean/Props/C07encm.lean.  Known finding C07-empty-edge-section (first / last section without
data rows): explained-deviation function `known_filter`, stored inputs corpus/C07/known-empty-edge-*.json.
"""
from __future__ import annotations

from .. import common, docgen, laygen, layfamily, rtfread
from . import c02

MANIFEST = dict(
    text="Lean theorems over applyBorders for every page shape, user border matrix and flag combination: page/body "
         "border_first on the first data row as documented, the closing style (body.border_last inside the table, "
         "page.border_last at its end) on the last data row or on the table-rendered footnote/source that ends the "
         "page, all other edges untouched at their original rows. Tied to the code by observation over the border × "
         "header × footnote/source × placement × pages × strategy product, user borders as full matrices and as recycled "
         "per-column / per-row patterns of every length (1..ncol+1, 1..nrow+1; shorter and longer than the original "
         "table) with and without removed columns, single-frame documents and section lists of every "
         "length from one section up (Props/C07encm: the page borders go to the first / last section of the list, the "
         "one-element list keeps both).",
    note="User borders bind to the ORIGINAL table position (row, column) of a cell: a pattern is recycled over the original "
         "columns / rows before page_by / subline_by columns are taken out. "
         "Column-header top border and footnote/source row emission are checked on the observation only; when the "
         "user's border_top row is longer than border_first the code lets a non-empty border_top of TABLE row 0 "
         "override body.border_first (modelled; generated documents keep that row empty, see DESIGN.md C07). Open "
         "known finding C07-empty-edge-section: a first / last section (or single frame) with 0 data rows leaves the "
         "document's first / last table row without the page border (C07encm_witness; excused per case, nothing else "
         "on those documents is).",
    technique="Lean 4 proof (update_cell algebra + finite flag split) + observation-level oracle and correspondence",
    design="7/C07",
)

RULE = ("border styles (incl. '' = none) for rtf_page.border_first/last and rtf_body.border_first/last × header mode × footnote/source "
        "(table, paragraph, absent) × placement × 1..many pages × strategies × per-cell user border matrices (full, or 2-3-row patterns recycled over the rows); plus "
        "recycled patterns for all four user borders: per-column patterns of length 1..ncol+1 (flat list / one-row matrix), "
        "per-row patterns of length 1..nrow+1 (tuple / one-column matrix), matrices of both, scalars × 1-4 columns removed "
        "by page_by / subline_by at the front or anywhere among the columns (and no removal) × 1-3 pages; plus "
        "multi-section documents for the first/last clauses; plus section lists of 1-6 sections (one-element list "
        "df=[frame] included) × 0-row / 1-row / longer sections in every position × per-section body border_first/last × "
        "nested / flat / default header lists × footnote/source (table, paragraph, absent) × placements × one page or "
        "breaks inside sections, and the 0-row single frame, for the first-row / last-row / page-boundary / section-joint "
        "clauses; non-trivial = ≥ 2 pages, or a short column pattern whose cycle the removed columns shift, or a section "
        "list of length 1 or ≥ 4 or with a 0-/1-row section; distinct by "
        "the configuration tuple and page sizes")

STYLES = ["single", "double", "thick", "dotted", "dashed"]


def mat_of(value, default):
    """the nested list RTFBody holds for a border value: scalar → [[v]], flat list → one row, tuple → one column"""
    v = docgen.plain(value)
    if v is None:
        return [[default]]
    if not isinstance(v, list):
        return [[v]]
    if v and not isinstance(v[0], list):
        return [v]
    return v


def code(style):
    from rtflite.core.constants import RTFConstants as K

    return K.BORDER_CODES[style].lstrip("\\") or None


class C07(layfamily.Family):
    prop, tag = "C07", "c07"

    def nbase(self, tier):
        return 320 if tier == "quick" else 5000

    def nsections(self, tier):
        return 288 if tier == "quick" else 3000

    def ndocs(self, tier):
        # the base product + the section-list family (gen_sections) + recycled border patterns (gen_patterns)
        return self.nbase(tier) + self.nsections(tier) + self.npat(tier)

    def gen_multi(self, rng, k):
        """multi-section document (list of frames): the first/last clauses, and section joints are interior rows"""
        spec, info = c02.gen_multi(rng)
        pf, plast, bf, bl = (rng.choice(STYLES) for _ in range(4))
        spec["page"]["border_first"] = pf
        spec["page"]["border_last"] = plast
        if k % 2:
            spec["page"]["nrow"] = 40      # everything on one page: every section joint is interior
        for b in spec["body"]:
            b["border_first"] = bf
            b["border_last"] = bl
        ends, base = [], 0
        for f in spec["df"]:
            base += len(f["rows"])
            ends.append(base - 1)
        info.update(pf=pf, pl=plast, bf=bf, bl=bl, user=[], section_ends=ends, footnote="multi", source="absent",
                    placements=None)
        return spec, info

    # ------------------------------------------------------------------ section lists (1, 2, 3, 4+ sections)
    NSEC = [1, 2, 3, 1, 4, 2, 1, 5, 3, 1, 6, 2]

    def gen_sections(self, rng, k):
        """A document given as a LIST of sections (df=[…], rtf_body=[…]) of every length from one section up, with
        0-row and 1-row sections in every position, per-section bodies (own border_first / border_last), header lists
        in the nested, flat and default form, footnote / source as table, paragraph or absent under every placement, on
        one page or with page breaks inside sections; every twelfth document is the single-frame form of a 0-row table
        (df=<frame>).  Judged by the first-row, last-row and page-boundary clauses."""
        if k % 12 == 11:
            return self.gen_empty_plain(rng, k // 12)
        nsec = self.NSEC[k % len(self.NSEC)]
        edge = (k // 12) % 12       # 5: the last section has no rows; 6: the first; 7: one-row sections only
        fk = ["absent", "table", "para"][(k // 2) % 3]
        sk = ["absent", "absent", "table", "para"][(k // 3) % 4]
        pl3 = ["last", "all", "first"]
        placements = (rng.choice(pl3), pl3[(k // 6) % 3], pl3[(k // 18) % 3])
        hmode = ["nested", "nested", "flat", "default", "nested-none"][k % 5]
        one_page = (k // 4) % 2 == 0
        nrow = 40 if one_page else rng.randint(6, 9)
        frames, bodies, nested, sec_rows = [], [], [], []
        base = 0
        for sec in range(nsec):
            r = rng.random()
            n = 0 if r < 0.06 else 1 if r < 0.25 else rng.randint(2, 9 if one_page else 14)
            if edge == 7:
                n = 1
            if (edge == 5 and sec == nsec - 1) or (edge == 6 and sec == 0):
                n = 0
            nd = rng.randint(1, 3)
            frames.append(dict(cols=[f"COL{j}" for j in range(nd)],
                               rows=[[f"r{base + i}c{j}" for j in range(nd)] for i in range(n)]))
            body = dict(border_first=rng.choice(STYLES), border_last=rng.choice(STYLES))
            if hmode != "default" and rng.random() < 0.3:
                body["as_colheader"] = False
            bodies.append(body)
            hd = dict(text=[f"HD{sec}c{j}" for j in range(nd)])
            r = rng.random()
            if hmode == "nested-none" or r < 0.4:
                nested.append([None])
            elif r < 0.9:
                nested.append([hd])
            else:
                nested.append([dict(text=[f"HD{sec}c0"], col_rel_width=[1]), hd])
            sec_rows.append(n)
            base += n
        if hmode == "default":
            headers = "default"        # the flat default list: an auto-populated header on the first section only
        elif hmode == "flat":
            headers = [dict(text=[f"HD0c{j}" for j in range(len(frames[0]["cols"]))])]
        else:
            headers = nested
        pf, plast = rng.choice(STYLES), rng.choice(STYLES)
        if k % 9 == 4:
            pf = ""
        if k % 9 == 7:
            plast = ""
        page = dict(nrow=nrow, border_first=pf, border_last=plast, page_title=placements[0],
                    page_footnote=placements[1], page_source=placements[2])
        spec = dict(kind="multi", df=frames, body=bodies, headers=headers, page=page,
                    title=dict(text=["TTL0"]) if rng.random() < 0.3 else None,
                    footnote=None if fk == "absent" else dict(text="FTNOTE", as_table=fk == "table"),
                    source=None if sk == "absent" else dict(text="SRCTXT", as_table=sk == "table"))
        info = dict(strategy="multi", gen="sections", header_mode="multi-" + hmode, n=base, model=False, page_by=None,
                    subline_by=None, nsec=nsec, sec_rows=sec_rows, footnote=fk, source=sk, placements=list(placements),
                    pf=pf, pl=plast, bf=str([b["border_first"] for b in bodies]),
                    bl=str([b["border_last"] for b in bodies]), user=[], nrow=nrow)
        return spec, info

    def gen_empty_plain(self, rng, k):
        """single-frame document (df=<frame>) whose frame has no rows: header row(s) and table-rendered footnote /
        source are its only table rows"""
        fk = ["table", "absent", "para"][k % 3]
        sk = ["absent", "table", "para"][(k // 3) % 3]
        hm = ["none", "default", "explicit", "no_colheader"][k % 4]
        spec, info = laygen.gen_spec(rng, strategy="plain", n=0, nrow=rng.randint(6, 40), header_mode=hm, footnote=fk,
                                     source=sk, long_rows=False, dividers=False)
        pf, plast = rng.choice(STYLES), rng.choice(STYLES)
        spec["page"]["border_first"] = pf
        spec["page"]["border_last"] = plast
        info.update(gen="sections", strategy="plain-empty", nsec=1, sec_rows=[0], pf=pf, pl=plast, user=[], top0=False,
                    bf="single", bl="single", model=False)
        return spec, info

    @staticmethod
    def sections_of(spec):
        frames = spec["df"] if isinstance(spec["df"], list) else [spec["df"]]
        bodies = spec["body"] if isinstance(spec["body"], list) else [spec.get("body") or {}] * len(frames)
        return frames, bodies

    def oracle_multi(self, spec, info, ob):
        """first-row, last-row and page-boundary clauses on a document given as a list of sections (also: on a 0-row
        single frame).  The first / last clause come back as dicts (clause, msg, …): `known_filter` needs the clause."""
        fails = []
        pages, raws = ob["pages"], ob["_raw"]
        frames, bodies = self.sections_of(spec)
        starts, acc = [], 0
        for f in frames:
            starts.append(acc)
            acc += len(f["rows"])
        ends = [st + len(f["rows"]) - 1 for st, f in zip(starts, frames)]     # index of each section's last row

        def section_of(r):
            return max(i for i, st in enumerate(starts) if st <= r and len(frames[i]["rows"]) > 0)
        rowroles = ("colHeader", "data", "footnote", "source")
        per_page = [[(b, r) for b, r in zip(bl, rb) if b[0] in rowroles and (b[0] not in ("footnote", "source") or b[1])]
                    for bl, rb in zip(pages, raws)]
        flat = [(pno, b, r) for pno, rows in enumerate(per_page, 1) for b, r in rows]
        if not flat:
            return fails
        # (a) / (b): first and last table row of the document
        # ('' on a header / component row leaves that component's own border setting in place: not judged)
        _, fb, fr = flat[0]
        got = self.edges(fr, "t")
        if any(x != code(info["pf"]) for x in got) and not (info["pf"] == "" and fb[0] != "data"):
            fails.append(dict(clause="first", role=fb[0], got=got,
                              msg=f"top edge of the document's first table row ({fb}) is {got}, "
                                  f"rtf_page.border_first = {info['pf']}"))
        _, lb, lr = flat[-1]
        got = self.edges(lr, "b")
        if any(x != code(info["pl"]) for x in got) and not (info["pl"] == "" and lb[0] != "data"):
            fails.append(dict(clause="last", role=lb[0], got=got,
                              msg=f"bottom edge of the document's last table row ({lb}) is {got}, "
                                  f"rtf_page.border_last = {info['pl']}"))
        # (c) page boundaries: a break lies inside ONE section (sections follow each other without a break); the last
        # table row before it carries that section's rtf_body.border_last, the first data row after it that section's
        # rtf_body.border_first
        for pno in range(2, len(per_page) + 1):
            before, after = per_page[pno - 2], per_page[pno - 1]
            data_after = [(b, r) for b, r in after if b[0] == "data"]
            if not before or not data_after:
                continue
            fd_b, fd_r = data_after[0]
            sec = section_of(fd_b[1])
            if fd_b[1] == starts[sec]:
                continue        # the break precedes a section's first row: not a boundary inside a table section
            body = bodies[sec]
            want = body.get("border_first", "single")
            got = self.edges(fd_r, "t")
            if any(x != code(want) for x in got):
                fails.append(f"page {pno}: top edge of the first data row (row {fd_b[1]}, section {sec}) is {got}, that "
                             f"section's rtf_body.border_first = {want}")
            lb2, lr2 = before[-1]
            want = body.get("border_last", "single")
            got = self.edges(lr2, "b")
            if lb2[0] == "colHeader" or (lb2[0] == "data" and section_of(lb2[1]) != sec):
                continue
            if any(x != code(want) for x in got) and not (want == "" and lb2[0] != "data"):
                fails.append(f"page {pno - 1}: bottom edge of the last table row before the break ({lb2}, section {sec}) "
                             f"is {got}, that section's rtf_body.border_last = {want}")
        # (d) the last data row of a non-final section, when the next section continues on the same page, is an interior
        # row: its bottom edge is the user's border_bottom (none given → no border)
        joint = {e for e, f in zip(ends[:-1], frames[:-1]) if f["rows"]}
        if flat[-1][1][0] == "data":
            joint.discard(flat[-1][1][1])      # it IS the document's last table row (only empty sections follow)
        for i, (pno, b, r) in enumerate(flat[:-1]):
            if b[0] == "data" and b[1] in joint:
                npno, nb, _ = flat[i + 1]
                if npno == pno and nb[0] in ("colHeader", "data"):
                    got = self.edges(r, "b")
                    if any(x is not None for x in got):
                        fails.append(f"page {pno}: row {b[1]} ends a non-final section and the next section continues on "
                                     f"the same page, but its bottom edge is {got}; the user's border_bottom is ''")
        # (e) … and the first data row of a later section that follows a data row on the same page (no header row, no
        # break between them) is an interior row as well: its top edge is the user's border_top (none given)
        first_rows = {st for st, f in zip(starts[1:], frames[1:]) if f["rows"]}
        if flat[0][1][0] == "data":
            first_rows.discard(flat[0][1][1])  # it IS the document's first table row (only empty sections precede)
        for i, (pno, b, r) in enumerate(flat):
            if i > 0 and b[0] == "data" and b[1] in first_rows:
                ppno, pb, _ = flat[i - 1]
                if ppno == pno and pb[0] == "data":
                    got = self.edges(r, "t")
                    if any(x is not None for x in got):
                        fails.append(f"page {pno}: row {b[1]} begins a later section right under the previous section's "
                                     f"last data row, but its top edge is {got}; the user's border_top is ''")
        return fails[:6]

    # ------------------------------------------------------------------ recycled border patterns × removed columns
    # strategies of the pattern stream: six of eight take columns out of the table (page_by spanning rows, subline_by)
    PAT_STRATS = ["page_by", "subline", "page_by_np_first", "subline_page_by", "page_by", "plain", "subline", "page_by_np"]
    SIDES = ["border_left", "border_bottom", "border_top", "border_right"]

    def npat(self, tier):
        return 224 if tier == "quick" else 3000

    @staticmethod
    def permute_columns(rng, spec, info):
        """the frame's columns (and every row) in a random order: the removed columns sit anywhere among the others"""
        cols = spec["df"]["cols"]
        order = list(range(len(cols)))
        rng.shuffle(order)
        spec["df"]["cols"] = [cols[j] for j in order]
        spec["df"]["rows"] = [[r[j] for j in order] for r in spec["df"]["rows"]]
        removed = set(info["removed"])
        info["displayed"] = [c for c in spec["df"]["cols"] if c not in removed]

    def gen_patterns(self, rng, k):
        """User borders given as PATTERNS that rtflite recycles over the ORIGINAL table: per-column patterns of every
        length 1 .. ncol+1 (flat list or one-row matrix), per-row patterns of every length 1 .. nrow+1 (tuple or
        one-column matrix), matrices of both, and scalars — for all four edges — on tables from which page_by (spanning
        rows) / subline_by take 1-4 columns out, at the front or anywhere among the columns (permuted frames), and on
        tables that keep all their columns.  A pattern shorter than the original column count whose cycle does not
        divide the removed columns' positions is the case where "the user's border of that cell" binds to the original
        column, not to the position among the displayed ones."""
        strategy = self.PAT_STRATS[k % 8]
        ndata = 2 + (k // 8) % 4
        fk = ["absent", "para", "table"][k % 3]
        sk = ["absent", "absent", "para", "table"][(k // 3) % 4]
        pl3 = ["first", "last", "all"]
        placements = (rng.choice(pl3), rng.choice(pl3), rng.choice(pl3))
        target = [1, 2, 3][(k // 8) % 3]
        nrow = rng.randint(6, 12)
        n = max(1, (target - 1) * (nrow - 4) + rng.randint(1, 3))
        spec, info = laygen.gen_spec(rng, strategy=strategy, n=n, nrow=nrow, ndata=ndata, footnote=fk, source=sk,
                                     placements=placements, long_rows=False, dividers=False)
        labels = []
        if k % 3 != 0 and info["removed"]:
            self.permute_columns(rng, spec, info)
            labels.append("pattern:permuted columns (removed columns anywhere)")
        pf, plast, bf, bl = (rng.choice(STYLES) for _ in range(4))
        spec["page"]["border_first"] = pf
        spec["page"]["border_last"] = plast
        spec["body"]["border_first"] = bf
        spec["body"]["border_last"] = bl
        cols = spec["df"]["cols"]
        ncols = len(cols)
        rem_idx = [cols.index(c) for c in info["removed"]]
        disp_idx = [cols.index(c) for c in info["displayed"]]
        user, top0 = [], False
        sides = rng.sample(self.SIDES, rng.choice([1, 2, 2, 3, 4, 4]))
        for si, side in enumerate(sides):
            shape = ["percol", "matrix", "percol-nested", "perrow", "matrix", "percol", "perrow-nested", "scalar"][
                (k // 2 + si * 3 + rng.randrange(2)) % 8]
            # column-pattern length 1 .. ncol+1 (every length by rotation; the short ones 2 .. ncol-1 twice as often)
            lens = list(range(1, ncols + 2)) + list(range(2, ncols))
            L = lens[(k // 8 + si) % len(lens)] if rng.random() < 0.7 else rng.randint(1, ncols + 1)
            mlens = sorted({1, 2, 3, max(1, n - 1), n, n + 1, rng.randint(1, n + 1)})
            M = mlens[(k // 4 + si) % len(mlens)]
            if shape in ("percol", "percol-nested"):
                M = 1
            elif shape in ("perrow", "perrow-nested"):
                L = 1
            elif shape == "scalar":
                M = L = 1

            def style():
                return rng.choice(STYLES + ["", ""])
            m = [[style() for _ in range(L)] for _ in range(M)]
            if L > 1 and len({tuple(r) for r in zip(*m)}) == 1:
                m[0][rng.randrange(L)] = rng.choice([x for x in STYLES if x != m[0][0]])     # a real pattern, not a constant
            if side == "border_top":
                if M > 1 and (k % 6 != 5):
                    m[0] = [""] * L     # see MANIFEST note: keep table row 0 empty
                # a non-empty TABLE row 0 wider than the border_first row overrides body.border_first (modelled rule):
                # the top-edge clause of the first data row is then judged against the model only
                top0 = top0 or (L > 1 and any(m[0]))
            if shape == "scalar":
                v = m[0][0]
            elif shape == "percol":
                v = m[0]                                   # flat list: one value per column, recycled
            elif shape == "perrow":
                v = {"__tuple__": [r[0] for r in m]}       # tuple: one value per row, recycled
            else:
                v = m
            spec["body"][side] = v
            user.append(side)
            labels.append(f"pattern:shape:{shape}")
            if L > 1:
                labels.append("pattern:cols:" + ("1<L<ncol" if L < ncols else "L=ncol" if L == ncols else "L=ncol+1"))
            if M > 1:
                labels.append("pattern:rows:" + ("1<M<nrow" if M < n else "M=nrow" if M == n else "M=nrow+1"))
            if rem_idx and 1 < L < ncols:
                shifted = any(m[r][oc % L] != m[r][j % L] for r in range(M) for j, oc in enumerate(disp_idx))
                labels.append("pattern:short column pattern × removed columns" + (": cycle shifted by the removal" if shifted else ""))
                labels.append(f"pattern:short column pattern × removed columns:{side}")
        info.update(pf=pf, pl=plast, bf=bf, bl=bl, user=sorted(user), top0=top0, gen="patterns",
                    labels=sorted(set(labels)))
        return spec, info

    def gen(self, rng, k, tier):
        if k >= self.nbase(tier) + self.nsections(tier):
            return self.gen_patterns(rng, k - self.nbase(tier) - self.nsections(tier))
        if k >= self.nbase(tier):
            return self.gen_sections(rng, k - self.nbase(tier))
        if k % 8 == 7:
            return self.gen_multi(rng, k // 8)
        fk = ["absent", "para", "table"][k % 3]
        sk = ["absent", "para", "table"][(k // 3) % 3]
        pl = ["first", "last", "all"]
        placements = (rng.choice(pl), pl[(k // 9) % 3], pl[(k // 27) % 3])
        target = [1, 2, 3, 5][k % 4]
        nrow = rng.randint(6, 12)
        n = max(1, (target - 1) * (nrow - 4) + rng.randint(1, 3))
        spec, info = laygen.gen_spec(rng, n=n, nrow=nrow, footnote=fk, source=sk, placements=placements,
                                     long_rows=False, dividers=False)
        # '' = "no border / no override": such documents carry no user border_top/border_bottom, so that "the edge
        # carries the setting" and "the edge keeps the user's border" name the same expected style (none)
        empties = k % 5 == 2
        pf, plast, bf, bl = (rng.choice(STYLES + ([""] if empties else [])) for _ in range(4))
        if k % 10 == 2:
            plast = ""
        spec["page"]["border_first"] = pf
        spec["page"]["border_last"] = plast
        spec["body"]["border_first"] = bf
        spec["body"]["border_last"] = bl
        ncols = len(spec["df"]["cols"])
        user = {}
        top0 = False
        if rng.random() < 0.6:
            sides = ["border_left", "border_right"] if empties else ["border_top", "border_bottom", "border_left", "border_right"]
            for side in rng.sample(sides, rng.randint(1, min(3, len(sides)))):
                # a full per-row matrix, or a short pattern of 2-3 rows that rtflite recycles over the table rows
                nr = n if rng.random() < 0.65 else rng.choice([2, 3])
                m = [[rng.choice(STYLES + ["", ""]) for _ in range(ncols)] for _ in range(nr)]
                if side == "border_top" and k % 6 != 5:
                    m[0] = [""] * ncols     # see MANIFEST note: keep table row 0 empty
                elif side == "border_top":
                    # every sixth document keeps a non-empty TABLE row 0 in border_top: the code then lets it override
                    # body.border_first on every page when that row is longer than the border_first row (modelled rule);
                    # such documents are compared with the model only (the top-edge clause of the oracle is skipped)
                    top0 = True
                spec["body"][side] = m
                user[side] = m
        info.update(pf=pf, pl=plast, bf=bf, bl=bl, user=sorted(user), top0=top0)
        return spec, info

    # ------------------------------------------------------------------ observation helpers
    def cross_prepare(self, spec, info):
        """documents of the whole-encoder class (harness/crosscorr.py) carry their border settings in the spec: the
        oracle's facts (page / body border_first / border_last as the constructors default them, which sides carry user
        borders, whether border_top has a non-empty table row 0) are read from there.  Settings in a form the oracle
        does not read (lists for border_first / border_last) leave the document to the projection comparison."""
        if spec.get("kind", "table") != "table" or not isinstance(spec.get("df"), dict) or "displayed" not in info:
            return info
        page, body = spec.get("page") or {}, spec.get("body") or {}
        vals = dict(pf=page.get("border_first", "double"), pl=page.get("border_last", "double"),
                    bf=body.get("border_first", "single"), bl=body.get("border_last", "single"))
        if not all(isinstance(v, str) for v in vals.values()):
            return info
        top = mat_of(body.get("border_top"), "")
        return dict(info, user=sorted(s for s in self.SIDES if body.get(s) is not None),
                    top0=bool(top and len(top[0]) > 1 and any(top[0])), **vals)

    def cross_extra(self, spec, info, ob):
        """documents of the whole-encoder class (harness/crosscorr.py): the border style of every edge of every table
        row, by page and role"""
        from .. import crosscorr

        return [[pno, b[:2], crosscorr.row_edges(r)] for pno, b, r in crosscorr.table_rows(ob)]

    @staticmethod
    def edges(rowblock, side):
        return [(d.borders.get(side) or {}).get("style") for d in rowblock.defs]

    def oracle(self, spec, info, ob):
        if info["strategy"] in ("multi", "plain-empty"):
            return self.oracle_multi(spec, info, ob)
        fails = []
        pages, raws = ob["pages"], ob["_raw"]
        P = len(pages)
        cols = spec["df"]["cols"]
        disp = [cols.index(c) for c in info["displayed"]]
        body = spec["body"]
        pb_no_header_excl = bool(info["page_by"]) and (not info["new_page"] or info["pageby_row"] != "column")

        def user(side, r, oc, default):
            # the user's border of table row r, ORIGINAL column oc: scalar | per-column list | per-row tuple | matrix,
            # recycled over the original table
            return laygen.attr_at(body.get(side), r, oc, default)
        rowroles = ("colHeader", "heading", "data", "footnote", "source")
        for pno, (blocks, rb) in enumerate(zip(pages, raws), 1):
            tbl = [(b, r) for b, r in zip(blocks, rb) if b[0] in rowroles and (b[0] not in ("footnote", "source") or b[1])]
            data = [(b, r) for b, r in tbl if b[0] == "data"]
            if not tbl or not data:
                continue
            first_b, first_r = tbl[0]
            last_b, last_r = tbl[-1]
            # (a) document's first table row
            # ('' on a header / component row leaves that component's own border setting in place: not judged here)
            if pno == 1 and not (first_b[0] == "heading" and pb_no_header_excl) and \
                    not (info["pf"] == "" and first_b[0] != "data"):
                got = self.edges(first_r, "t")
                if any(x != code(info["pf"]) for x in got):
                    fails.append(f"top edge of the document's first table row ({first_b}) is {got}, "
                                 f"rtf_page.border_first = {info['pf']}")
            # (b) document's last table row / (c) last table row before a break
            want = info["pl"] if pno == P else info["bl"]
            got = self.edges(last_r, "b")
            if any(x != code(want) for x in got) and not (want == "" and last_b[0] != "data"):
                which = "rtf_page.border_last" if pno == P else "rtf_body.border_last"
                fails.append(f"page {pno} of {P}: bottom edge of the last table row ({last_b}) is {got}, {which} = {want}")
            # (c) first data row of every page
            fd_b, fd_r = data[0]
            has_header = any(b[0] == "colHeader" for b, _ in tbl)
            if pno == 1 and not any(b[0] == "colHeader" for b in blocks):
                # no header row on page 1: page border_first — unless a heading row precedes (excluded case)
                if not (first_b[0] == "heading"):
                    want_top = info["pf"]
                else:
                    want_top = None
            else:
                want_top = info["bf"]
            if info.get("top0"):
                want_top = None        # the override rule for a non-empty table row 0 is judged against the model only
            if want_top is not None:
                got = self.edges(fd_r, "t")
                if any(x != code(want_top) for x in got):
                    fails.append(f"page {pno}: top edge of the first data row (row {fd_b[1]}) is {got}, expected "
                                 f"{want_top} ({'page' if want_top == info['pf'] and pno == 1 and not has_header else 'body'}"
                                 f".border_first)")
            # (d) all other data-cell edges: user's borders at the original position
            for k, (b, r) in enumerate(data):
                ri = b[1]
                for j, oc in enumerate(disp):
                    if j >= len(r.defs):
                        fails.append(f"row {ri}: cell {j} missing")
                        continue
                    d = r.defs[j]
                    exp = {"l": user("border_left", ri, oc, "single")}
                    if j == len(disp) - 1:
                        exp["r"] = user("border_right", ri, oc, "single")
                    if k > 0:
                        exp["t"] = user("border_top", ri, oc, "")
                    if k < len(data) - 1:
                        exp["b"] = user("border_bottom", ri, oc, "")
                    for side, st in exp.items():
                        got = (d.borders.get(side) or {}).get("style")
                        if got != code(st):
                            fails.append(f"row {ri} col {j}: {side}-edge is {got}, the user's border at the original "
                                         f"position is {st!r}")
            if len(fails) >= 4:
                break
        return fails[:4]

    def worker_extra(self, spec, info, ob):
        """BorderIn per page for the Lean model + the observed grids"""
        if info["strategy"] == "multi":
            return self.worker_extra_sections(spec, info, ob)
        if info["strategy"] == "plain-empty":
            return []
        cols = spec["df"]["cols"]
        disp = [cols.index(c) for c in info["displayed"]]
        removed = [cols.index(c) for c in info["removed"]]
        body = spec["body"]
        n = info["n"]
        P = len(ob["pages"])

        def processed(side, default):
            m = mat_of(body.get(side), default)
            if removed and body.get(side) is not None:
                return [[m[r % len(m)][oc % len(m[0])] for oc in disp] for r in range(n)]
            return m
        out = []
        for pno, (blocks, rb) in enumerate(zip(ob["pages"], ob["_raw"]), 1):
            data = [(b, r) for b, r in zip(blocks, rb) if b[0] == "data"]
            if not data:
                continue
            fn_here = any(b[0] == "footnote" and b[1] is True for b in blocks)
            src_here = any(b[0] == "source" and b[1] is True for b in blocks)
            has_headers = (spec["headers"] == "default" and body.get("as_colheader", True)) or \
                          (isinstance(spec["headers"], list) and len(spec["headers"]) > 0)
            bin_ = dict(isFirst=pno == 1, isLast=pno == P, start=data[0][0][1], height=len(data), width=len(disp),
                        top=processed("border_top", ""), bottom=processed("border_bottom", ""),
                        bodyFirst=[[info["bf"]]], bodyTopOrig=mat_of(body.get("border_top"), ""),
                        bodyLast=[[info["bl"]]], pageFirst=info["pf"], pageLast=info["pl"],
                        hasHeaders=bool(has_headers), fnTableHere=fn_here, srcTableHere=src_here)
            obs_top = [self.edges(r, "t") for _, r in data]
            obs_bot = [self.edges(r, "b") for _, r in data]
            fn_bot = [self.edges(r, "b") for b, r in zip(blocks, rb) if b[0] == "footnote" and b[1] is True]
            src_bot = [self.edges(r, "b") for b, r in zip(blocks, rb) if b[0] == "source" and b[1] is True]
            out.append(dict(req=bin_, top=obs_top, bottom=obs_bot, fn=fn_bot, src=src_bot, page=pno))
        return out

    def worker_extra_sections(self, spec, info, ob):
        """section list: one BorderIn per (section, page of that section) — the section is paginated on its own, its
        page borders are what the model's `sectionDoc` leaves to section i of n (filled in by `model_corr`)"""
        frames, bodies = self.sections_of(spec)
        nsec = len(frames)
        starts, acc = [], 0
        for f in frames:
            starts.append(acc)
            acc += len(f["rows"])
        page = spec.get("page") or {}
        hdr = spec.get("headers", "default")

        def has_headers(sec):
            auto = bool(bodies[sec].get("as_colheader", True))
            if hdr == "default":
                hs = [dict(text=None)] if sec == 0 else []
            elif hdr and isinstance(hdr[0], list):
                hs = hdr[sec]
            else:
                hs = hdr if sec == 0 else []
            return any(h is not None and (h.get("text") is not None or auto) for h in hs)

        def shows(pl, first, last):
            return pl == "all" or (pl == "first" and first) or (pl == "last" and last)

        def comp_table(key, default_table, plkey, sec, first, last):
            c = spec.get(key)
            pl = page.get(plkey, "last")
            if c is None or not c.get("text") or not c.get("as_table", default_table):
                return False
            if sec < nsec - 1 and pl == "last":
                return False        # text suppressed on a non-last section
            return shows(pl, first, last)
        out = []
        for sec, f in enumerate(frames):
            n = len(f["rows"])
            if n == 0:
                continue
            lo, hi = starts[sec], starts[sec] + n
            spages = []     # per page of the section: (physical page number, [(position in page, block, raw)])
            for pno, (blocks, rb) in enumerate(zip(ob["pages"], ob["_raw"]), 1):
                rows = [(i, b, r) for i, (b, r) in enumerate(zip(blocks, rb)) if b[0] == "data" and lo <= b[1] < hi]
                if rows:
                    spages.append((pno, rows))
            for q, (pno, rows) in enumerate(spages, 1):
                first, last = q == 1, q == len(spages)
                blocks, rb = ob["pages"][pno - 1], ob["_raw"][pno - 1]
                fn_bot, src_bot = [], []
                for b, r in list(zip(blocks, rb))[rows[-1][0] + 1:]:
                    if b[0] in ("data", "colHeader"):
                        break
                    if b[0] == "footnote" and b[1] is True:
                        fn_bot.append(self.edges(r, "b"))
                    if b[0] == "source" and b[1] is True:
                        src_bot.append(self.edges(r, "b"))
                body = bodies[sec]
                req = dict(isFirst=first, isLast=last, start=rows[0][1][1] - lo, height=len(rows), width=len(f["cols"]),
                           top=[[""]], bottom=[[""]], bodyFirst=[[body.get("border_first", "single")]],
                           bodyTopOrig=[[""]], bodyLast=[[body.get("border_last", "single")]], pageFirst=None,
                           pageLast=None, hasHeaders=has_headers(sec),
                           fnTableHere=comp_table("footnote", True, "page_footnote", sec, first, last),
                           srcTableHere=comp_table("source", False, "page_source", sec, first, last))
                out.append(dict(req=req, section=[nsec, sec, info["pf"], info["pl"]],
                                top=[self.edges(r, "t") for _, _, r in rows], bottom=[self.edges(r, "b") for _, _, r in rows],
                                fn=fn_bot, src=src_bot, page=f"{pno} (section {sec} of {nsec}, its page {q})"))
        return out

    def project(self, pages, info):
        return [[b for b in p if b[0] in ("data", "footnote", "source", "colHeader")] for p in pages]

    def nontrivial(self, spec, info, ob):
        if info.get("gen") == "patterns" and info.get("removed") and \
                any("cycle shifted" in lab for lab in info.get("labels") or []):
            # a short per-column pattern whose cycle the removed columns shift: any number of pages
            return [info["strategy"], "patterns", str(spec["df"]["cols"]), str([spec["body"].get(s) for s in self.SIDES]),
                    len(ob["pages"])]
        if len(ob["pages"]) >= 2:
            return [info["strategy"], info["header_mode"], info["footnote"], info["source"], str(info["placements"]),
                    info["pf"], info["pl"], info["bf"], info["bl"], str(info["user"]), len(ob["pages"]),
                    str(info.get("sec_rows"))]
        if info.get("gen") == "sections" and (info["nsec"] == 1 or info["nsec"] >= 4 or min(info["sec_rows"]) <= 1):
            # one page, but a section list of an edge length or with an edge-sized (0- / 1-row) section
            return [info["strategy"], info["header_mode"], info["footnote"], info["source"], str(info["placements"]),
                    info["pf"], info["pl"], info["bf"], info["bl"], str(info["sec_rows"])]
        return None


FAM = C07()


def model_corr(res, outs):
    reqs, meta = [], []
    # section lists: the page borders of section i of n come from the model of the section loop (sectionDoc)
    keys = sorted({tuple(e["section"][k] for k in (0, 2, 3)) for o in outs for e in o.get("extra") or [] if "section" in e})
    secb = dict(zip(keys, common.driver_batch([dict(op="section_borders", n=n, pageFirst=pf, pageLast=pl)
                                               for n, pf, pl in keys]))) if keys else {}
    for o in outs:
        for e in o.get("extra") or []:
            if "section" in e:
                n, i, pf, pl = e["section"]
                e["req"]["pageFirst"], e["req"]["pageLast"] = secb[(n, pf, pl)][i]
            reqs.append(dict(op="borders", **e["req"]))
            meta.append((o, e))
    drv = common.driver_batch(reqs)
    for (o, e), d in zip(meta, drv):
        res.corr_checked += 1
        case = dict(spec=o["spec"], info=o["info"])
        mt = [[code(x) if x is not None else "ERR" for x in row] for row in d["top"]]
        mb = [[code(x) if x is not None else "ERR" for x in row] for row in d["bottom"]]
        if mt != e["top"]:
            res.disagree(case, f"page {e['page']}: model top-border grid {mt} != observed {e['top']}")
        elif mb != e["bottom"]:
            res.disagree(case, f"page {e['page']}: model bottom-border grid {mb} != observed {e['bottom']}")
        else:
            for key, obs in (("fnOverride", e["fn"]), ("srcOverride", e["src"])):
                if d[key] is not None and obs and any(x != code(d[key]) for x in obs[0]):
                    res.disagree(case, f"page {e['page']}: model {key} = {d[key]} but the component's bottom edge is {obs[0]}")


KID = "C07-empty-edge-section"
KNOWN_TEXT = {
    KID: "a document whose first / last section (or only frame) has 0 data rows: the page border is handed to the "
         "section by its POSITION in the list and _apply_pagination_borders returns early on a 0-row page, so the "
         "document's first table row misses rtf_page.border_first / its last table row misses rtf_page.border_last",
}


def known_filter(o, fails):
    """explained-deviation function of the open known finding of C07 (DESIGN.md §5): suppresses exactly a failing
    first-row clause on a document whose FIRST section has 0 data rows and a failing last-row clause on a document whose
    LAST section has 0 data rows (the single 0-row frame is both); every other clause on those documents is judged."""
    open_ids = {e["id"] for e in common.known_findings("C07")}
    frames, _ = FAM.sections_of(o["spec"])
    remaining, hits = [], []
    for f in fails:
        if not isinstance(f, dict):
            remaining.append(f)
            continue
        edge = frames[0] if f["clause"] == "first" else frames[-1]
        if KID in open_ids and len(edge["rows"]) == 0:
            hits.append((KID, f"KNOWN-FINDING: property=C07 {KID}: {KNOWN_TEXT[KID]}"))
        else:
            remaining.append(f["msg"])
    return remaining, hits


def run(res, build):
    fam = FAM
    jobs = [(fam, res.seed, -1 - i, res.tier, c) for i, c in enumerate(fam.corpus())]
    jobs += [(fam, res.seed, k, res.tier, None) for k in range(fam.ndocs(res.tier))]
    outs = common.pool_map(layfamily._worker, jobs, chunksize=4)
    for o in outs:
        if "machinery" in o:
            raise common.MachineryError("worker failed: " + o["machinery"])
    known_lines = {}
    for o in outs:
        case = dict(spec=o["spec"], info=o["info"])
        info = o["info"]
        nt = o.get("nt")
        res.case(case, tuple(nt) if isinstance(nt, list) else nt)
        res.count("strategy:" + str(info.get("strategy")))
        res.count("header:" + str(info.get("header_mode")))
        res.count(f"fn:{info['footnote']}/src:{info['source']}")
        for lab in info.get("labels") or []:      # input classes the pattern stream names itself
            res.count(str(lab))
        if info.get("gen") == "patterns":
            res.count("pattern:documents" + (" with removed columns" if info.get("removed") else " without removal"))
        if info.get("strategy") in ("multi", "plain-empty"):
            frames, _ = fam.sections_of(o["spec"])
            rows = [len(f["rows"]) for f in frames]
            res.count(f"sections:{min(len(frames), 6)}" + ("+" if len(frames) >= 6 else ""))
            if isinstance(o["spec"]["df"], list) and len(frames) == 1:
                res.count("sections:one-element list (df=[frame])")
            if 0 in rows:
                res.count("sections:has a 0-row section")
            if rows[0] == 0 or rows[-1] == 0:
                res.count("sections:0-row FIRST or LAST section (known finding " + KID + ")")
            if 1 in rows:
                res.count("sections:has a 1-row section")
            if o["status"] == "ok":
                kinds = {b[0] for pg in o["pages"] for b in pg if b[0] in ("footnote", "source") and b[1] is True}
                if kinds:
                    res.count("sections:table-rendered " + "+".join(sorted(kinds)))
                if len(o["pages"]) >= 2:
                    res.count("sections:page break inside a section")
        if o["status"] == "ok":
            res.count(f"pages:{min(len(o['pages']), 9)}")
        fails, hits = known_filter(o, list(o.get("fails") or []))
        for kid, line in hits:
            res.known_hits[kid] = res.known_hits.get(kid, 0) + 1
            known_lines.setdefault(kid, line)
        for f in fails[:1]:
            res.fail(case, f)
    model_corr(res, [o for o in outs if o["status"] == "ok"])
    from .. import crosscorr

    crosscorr.run_cross(fam, res)
    return common.finish(
        res, build, RULE, layfamily.TRUSTED_COMMON, layfamily.ASSUME_COMMON,
        explanation="C07_first_page_no_header, C07_body_first(_default), C07_closing_style, "
                    "C07_closing_on_last_data_row, C07_closing_on_component, C07_other_edges, C07_top_untouched hold "
                    "for every well-formed page input. Header-row top border and the emission of the component "
                    "override are observation-level clauses. Section lists: C07encm_page_borders / _first_only / "
                    "_last_only / _one_section (the page borders go to the first / last section BY POSITION, for every "
                    "list length from one up); C07encm_witness refutes the full statement for a list whose last "
                    "section has no rows (known finding " + KID + ").",
        known_lines=[known_lines[k] for k in sorted(known_lines)])


def replay(payload):
    case = payload.get("case") or {}
    if case.get("cross"):
        from .. import crosscorr

        return crosscorr.replay_cross(FAM, case)
    if "spec" in case:
        o = common.pool_map(layfamily._worker, [(FAM, 0, 0, "quick", dict(spec=case["spec"], info=case["info"],
                                                                        history=case.get("history")))] * 4)[0]
        if "machinery" in o:
            print(o["machinery"])
            return 2
        print("status:", o["status"])
        import json
        for i, p in enumerate(o.get("pages") or []):
            print(f" page {i + 1}: {json.dumps(p)[:400]}")
        fails, hits = known_filter(o, list(o.get("fails") or []))
        for _, line in hits:
            print(line)
        for f in fails:
            print("FAIL:", f)
        if fails:
            print("VIOLATION property=C07 replay=<given>")
            return 1
        print("property holds on this input" + (" (apart from listed known findings)" if hits else ""))
        return 0
    return layfamily.replay_family(FAM, payload)
