"""C06 — titles, headers, footnotes and sources appear on exactly the configured pages.

Theorems: lean/Props/C06.lean about `Model.Layout.renderPage` (order, placement, headers, break, one-page case).
Oracle on the implementation (independent of the model): the role sequence of every observed page equals the
sequence the statement prescribes for page k of P; every page break restates the paper size and margins of the
document start, which equal configured inches × 1440 (rounded); landscape flagged; page header / footer defined
exactly once.  Correspondence: role sequence per page of the Lean layout equals the observed one.

Container spellings (`SPELLED` documents, docgen "spelling"): the statement speaks about the configured components,
not about the Python container they are handed over in.  The same documents are therefore also constructed with
rtf_column_header as a tuple / a single RTFColumnHeader object (header rows with and without their own
col_rel_width, 1–3 rows), the table as a one-section list (df=[frame], rtf_body=[RTFBody]), and the texts of title /
subline / page header / page footer / footnote / source / header rows as str / list / tuple / one-row frame.  The
layout model takes the header LIST (`LDoc.headers`); what the constructor and the renderer's type guards make of the
container is Model/HeaderInput.lean (Props/C06in.lean), tied by the post-construction observation of
`worker_extra` / `extra_model_check`.
"""
from __future__ import annotations

import json
import struct
from fractions import Fraction

from .. import common, laygen, layfamily, docgen, rtfread

MANIFEST = dict(
    text="Lean theorems over renderPage for every document, page and flag combination: blocks appear in the order "
         "break, title, subline, subline heading, column headers, body, footnote, source; title/subline/footnote/"
         "source occur at most once and exactly on the pages their placement selects; column headers on page 1 and "
         "later pages iff pageby_header; one break at the start of every later page; on a one-page document the three "
         "placements coincide. Tied to the code by observation over the full placement product on 1/2/3/many-page "
         "documents, random paper geometry and figure documents, with the component arguments in every container "
         "spelling the constructors accept (column headers as list / tuple / single object, the table as a one-section "
         "list, texts as str / list / tuple / frame); _should_show_element is translated from its source "
         "on every run and proved equal to the model's placement rule (Props/C06py.lean). Props/C06in.lean: whatever "
         "container the header rows are handed over in, exactly the configured rows reach the renderer's header loop "
         "(Model/HeaderInput.lean: field validation, the constructor's rebuild as a list, the type guards' dispatch), "
         "tied to the code by the field after construction and the rendered rows for every argument shape. "
         "Props/C06fig.lean: a figure document has one page per FIGURE with title slot, subline, picture, footnote, "
         "source placed against the figure count, whatever the lengths of fig_width / fig_height (a non-empty size "
         "list answers every position, the last value reused; the roles of a page do not depend on the sizes) - tied "
         "to the code on 1-6 figures with either size as scalar / int / one entry / fewer, as many, more entries than "
         "figures, list or tuple (role sequences per page of the real text against Model.EncodeFigure's text).",
    note="Paper geometry after each break and the single header/footer definition are checked on the observation "
         "(exact rational arithmetic on the configured floats); they are emitted by string templates outside the "
         "role-level model. The layout model takes the header LIST; the container is a construction matter "
         "(Model/HeaderInput.lean). Recorded refusals: nested headers on a single table and a tuple as first section "
         "raise AttributeError at construction; [()] is accepted and raises AttributeError at encode.",
    technique="Lean 4 proof (unfolding + finite flag split, universal in page count) + observation-level correspondence",
    design="7/C06",
)

RULE = ("the product page_title × page_footnote × page_source × footnote kind × source kind × pageby_header × strategy × "
        "header mode on documents of 1, 2, 3 and many pages, random paper size/margins incl. A4 and landscape, figure "
        "documents with 1..6 figures × fig_width / fig_height each as scalar, int, one-entry list, list with fewer "
        "(1 < k < n) / as many / more entries than figures, list or tuple × fig_align × placements × title / subline / "
        "footnote / source / page header / page footer; the same product with the component arguments in every container spelling the "
        "constructors accept (column headers as list / tuple / single object with 1-3 rows carrying own widths on "
        "all / some / no rows, the table as a one-section list, texts as str / list / tuple / frame); non-trivial = "
        "≥ 2 pages with at least one placed component; distinct by the configuration tuple and page count")

PLACE = ["first", "last", "all"]


def png_bytes(w=3, h=2):
    return (b"\x89PNG\r\n\x1a\n" + struct.pack(">I", 13) + b"IHDR" + struct.pack(">IIBBBBB", w, h, 8, 2, 0, 0, 0)
            + b"\0\0\0\0" + b"x" * 12)


# How `fig_width` / `fig_height` are handed over.  The statement speaks about figure documents with 1..n figures, not
# about the container of the sizes: RTFFigure documents "single value or list", the page loop resolves the size of
# figure i positionally and reuses the LAST value for the figures beyond the list (`_get_dimension`; Model.Figure.getDim).
# Every shape must therefore give one page per figure with the placements evaluated against the FIGURE count.
DIM_SHAPES = ["scalar", "int-scalar", "list-one", "list-short", "list-full", "list-long", "tuple-one", "tuple-short",
              "tuple-full", "tuple-long"]
_DIM_VALUES = [1.0, 1.5, 2.0, 2.5, 3.0, 0.75, 4, 2]


def draw_dim(rng, shape, nfig):
    """a value of fig_width / fig_height in the given shape for a document of `nfig` figures (docgen JSON form);
    `short` = 1 < k < nfig entries where the figure count allows it (else one entry fewer than figures, at least 1)"""
    if shape == "scalar":
        return float(rng.choice(_DIM_VALUES))
    if shape == "int-scalar":
        return rng.choice([1, 2, 3])
    rel = shape.split("-")[1]
    if rel == "one":
        k = 1
    elif rel == "short":
        k = rng.randint(2, nfig - 1) if nfig >= 3 else 1
    elif rel == "full":
        k = nfig
    else:
        k = nfig + rng.randint(1, 3)
    vals = [rng.choice(_DIM_VALUES) for _ in range(k)]
    return {"__tuple__": vals} if shape.startswith("tuple") else vals


def dim_class(v, nfig):
    """the class of a drawn size value relative to the figure count (evidence label)"""
    if isinstance(v, dict):
        box, v = "tuple", v["__tuple__"]
    elif isinstance(v, list):
        box = "list"
    else:
        return "int-scalar" if isinstance(v, int) else "scalar"
    k = len(v)
    rel = "one" if k == 1 else "short" if k < nfig else "full" if k == nfig else "long"
    return f"{box}-{rel}" + ("(1<k<n)" if rel == "short" else "")


def gen_figure(rng, nfig=None, shapes=None, kinds=("absent", "para")):
    nfig = rng.randint(1, 5) if nfig is None else nfig
    pt, pf, ps = rng.choice(PLACE), rng.choice(PLACE), rng.choice(PLACE)
    has_title = rng.random() < 0.7
    has_subl = rng.random() < 0.5
    fk = rng.choice(kinds)
    sk = rng.choice(kinds)
    geo = rand_geometry(rng)
    page = dict(page_title=pt, page_footnote=pf, page_source=ps)
    page.update(geo)
    spec = dict(kind="figure",
                figure=dict(files=[dict(name=f"f{i}.png", hex=png_bytes(3 + i, 2).hex()) for i in range(nfig)],
                            fig_width=3.0, fig_height=2.0, _as_list=True),
                page=page, title=dict(text=["TTL0"]) if has_title else None,
                subline=dict(text="SUBLN") if has_subl else None,
                footnote=dict(text="FTNOTE", as_table=fk == "table") if fk != "absent" else None,
                source=dict(text="SRCTXT", as_table=sk == "table") if sk != "absent" else None,
                page_header=dict(text="PGHDR") if rng.random() < 0.5 else None)
    # the sizes in a drawn shape (scalar / one entry / fewer, as many, more entries than figures; list / tuple) and the
    # alignment — drawn after everything else
    sw, sh = shapes or (rng.choice(DIM_SHAPES), rng.choice(DIM_SHAPES))
    fig = spec["figure"]
    fig["fig_width"], fig["fig_height"] = draw_dim(rng, sw, nfig), draw_dim(rng, sh, nfig)
    fig["fig_align"] = rng.choice(["left", "center", "right"])
    if rng.random() < 0.3:
        spec["page_footer"] = dict(text="PGFTR")
    info = dict(strategy="figure", header_mode="figure", model=False, n=0, nfig=nfig, placements=[pt, pf, ps],
                has_title=has_title, has_subline_txt=has_subl, footnote=fk, source=sk, page_by=None, subline_by=None,
                geometry=geo, has_ph=spec["page_header"] is not None, has_pf=spec.get("page_footer") is not None,
                labels=[f"figures:{nfig}", f"fig_width:{dim_class(fig['fig_width'], nfig)}",
                        f"fig_height:{dim_class(fig['fig_height'], nfig)}", f"fig_align:{fig['fig_align']}"])
    return spec, info


def gen_figure_sys(rng, j):
    """document j of the figure class: 1..6 figures × the shape of fig_width (systematic) × the shape of fig_height
    (systematic on a second walk, so every pair of shapes occurs), placements / components / geometry random
    (footnote and source as paragraphs: RTFDocument refuses as_table=True next to an RTFFigure)"""
    nfig = 1 + j % 6
    S = len(DIM_SHAPES)
    sw = DIM_SHAPES[(j // 6) % S]
    sh = DIM_SHAPES[(j // 6 + j // (6 * S) + 3 * (j % 6)) % S]
    if j % 2:
        sw, sh = sh, sw
    return gen_figure(rng, nfig=nfig, shapes=(sw, sh), kinds=("absent", "para", "para"))


def rand_geometry(rng):
    r = rng.random()
    if r < 0.35:
        return {}
    if r < 0.5:
        return dict(orientation="landscape")
    m = [round(rng.uniform(0.3, 1.6), rng.choice([1, 2, 3, 5])) for _ in range(6)]
    if r < 0.6:
        # a standard paper with the user's own margins (many documents share the paper and differ in the margins)
        return dict(rng.choice([{}, dict(orientation="landscape"), dict(width=8.27, height=11.69)]), margin=m)
    if r < 0.7:
        return dict(width=8.27, height=11.69)   # A4
    w = round(rng.uniform(6.0, 14.0), rng.choice([1, 2, 3]))
    h = round(rng.uniform(6.0, 17.0), rng.choice([1, 2, 3]))
    m = [round(rng.uniform(0.3, 1.6), rng.choice([1, 2, 3, 5])) for _ in range(6)]
    return dict(width=w, height=h, margin=m, orientation=rng.choice(["portrait", "landscape"]))


def expected_geometry(geo):
    """configured inches × 1440 as exact rationals (RTFPage defaults for what is not given)"""
    land = geo.get("orientation") == "landscape"
    w = geo.get("width", 11 if land else 8.5)
    h = geo.get("height", 8.5 if land else 11)
    m = geo.get("margin", [1, 1, 2, 1.25, 1.25, 1.25] if land else [1.25, 1, 1.75, 1.25, 1.75, 1.00625])
    names = ["paperw", "paperh", "margl", "margr", "margt", "margb", "headery", "footery"]
    return {k: Fraction(v) * 1440 for k, v in zip(names, [w, h] + list(m))}, land


BASE = {"quick": 420, "thorough": 6000}
SPELLED = {"quick": 300, "thorough": 3000}     # documents of the container-spelling class, after the BASE documents
HEADER_CONTAINERS = ["tuple", "single", "tuple", "list"]
OWN_WIDTHS = ["all", "all", "mixed", "none"]


def spelled_headers(rng, spec, info, j):
    """explicit header rows for document j of the container-spelling class: 1–3 rows (upper rows span), own
    col_rel_width (one entry per cell) on all / some / none of them, and the container they are handed over in"""
    how = HEADER_CONTAINERS[j % 4]
    own = OWN_WIDTHS[(j // 4) % 4]
    if info["header_mode"] == "no_colheader" or rng.random() < 0.12:
        # default / absent / suppressed headers stay (no container to spell, or an empty one)
        return {"headers": how} if spec["headers"] == [] and how != "single" else {}
    nd = len(info["displayed"])
    nrows = 1 if how == "single" else rng.choice([1, 2, 2, 3])
    rows = []
    for i in range(nrows):
        # upper rows may span; a row with fewer cells than the table has columns needs widths of its own
        ncell = nd if i == nrows - 1 or own == "none" else rng.choice([1, 1, nd, max(1, nd // 2)])
        rows.append(dict(text=[f"HD{i}c{c}" for c in range(ncell)]))
    flags = {"all": [True] * nrows, "none": [False] * nrows}.get(own)
    if flags is None:
        flags = [rng.random() < 0.5 for _ in range(nrows)]
        if nrows > 1 and len(set(flags)) == 1:
            flags[rng.randrange(nrows)] = not flags[0]
    for row, f in zip(rows, flags):
        if f or len(row["text"]) != nd:
            row["col_rel_width"] = [rng.choice([1, 1, 2, 1.5]) for _ in row["text"]]
    spec["headers"] = rows
    info["header_mode"] = f"explicit:{nrows}-rows/own-widths={docgen.own_widths_class(rows)}"
    return {"headers": how}


class C06(layfamily.Family):
    prop, tag = "C06", "c06"

    def ndocs(self, tier):
        return BASE[tier] + SPELLED[tier]

    def gen(self, rng, k, tier):
        if k < BASE[tier]:
            return self.gen_base(rng, k, tier)
        # the container-spelling class: a document of the base generator (its own index walks the same systematic
        # product), explicit headers re-drawn with own widths, every component argument in a drawn spelling
        j = k - BASE[tier]
        spec, info = self.gen_base(rng, 7 * j + 3, tier)
        force = spelled_headers(rng, spec, info, j) if spec.get("kind") != "figure" else {}
        if spec.get("kind") == "table" and j % 3 == 2:
            force["sections"] = "list"
        spec["spelling"] = docgen.gen_spelling(rng, spec, p=0.5, force=force)
        if spec.get("kind") == "table" and j % 3 != 2:
            spec["spelling"].pop("sections", None)
        info["labels"] = sorted(set((info.get("labels") or []) + ["spelled-doc"] + docgen.spelling_labels(spec)))
        return spec, info

    def gen_base(self, rng, k, tier):
        if k % 10 == 9:
            return gen_figure(rng)
        # systematic part of the product through k, the rest random
        pt, pf, ps = PLACE[k % 3], PLACE[(k // 3) % 3], PLACE[(k // 9) % 3]
        fk = ["absent", "para", "table"][(k // 27) % 3]
        sk = ["absent", "para", "table"][(k // 81) % 3]
        target_pages = [1, 2, 3, 7][k % 4]
        nrow = rng.randint(6, 14)
        strategy = rng.choice(laygen.STRATEGIES)
        n = 0 if rng.random() < 0.03 else max(1, (target_pages - 1) * (nrow - 4) + rng.randint(1, 3))
        geo = rand_geometry(rng)
        spec, info = laygen.gen_spec(rng, strategy=strategy, n=n, nrow=nrow, footnote=fk, source=sk,
                                     placements=(pt, pf, ps), long_rows=False, title=rng.random() < 0.8,
                                     subline=rng.random() < 0.5, geometry=geo or None)
        info["geometry"] = geo
        info["has_ph"] = spec["page_header"] is not None
        info["has_pf"] = spec["page_footer"] is not None
        return spec, info

    def oracle(self, spec, info, ob):
        fails = []
        doc = ob["_doc"]
        pages = ob["pages"]
        P = len(pages)
        pt, pf, ps = info["placements"]

        def show(pl, k):
            return pl == "all" or (pl == "first" and k == 1) or (pl == "last" and k == P)
        is_fig = info["strategy"] == "figure"
        if is_fig and P != info["nfig"]:
            fails.append(f"{info['nfig']} figures on {P} pages")
        nhdr = 0
        if not is_fig:
            h = spec["headers"]
            if h == "default":
                nhdr = 1 if spec["body"].get("as_colheader", True) else 0
            else:
                nhdr = len(h)
        for k, blocks in enumerate(pages, 1):
            roles = [b[0] for b in blocks]
            bodyroles = {"heading", "data", "pict", "data-untagged"}
            body = [r for r in roles if r in bodyroles]
            # collapse the body into one marker, keeping its position
            seq = []
            for r in roles:
                if r in bodyroles:
                    if not seq or seq[-1] != "BODY":
                        seq.append("BODY")
                else:
                    seq.append(r)
            exp = []
            if k > 1:
                exp.append("brk")
            if info["has_title"] and show(pt, k):
                exp.append("title")
            if info["has_subline_txt"] and show(pt, k):
                exp.append("subline")
            if info.get("subline_by") and info["n"] > 0:
                exp.append("sublineHeading")
            if not is_fig and (k == 1 or info["pageby_header"]):
                exp += ["colHeader"] * nhdr
            if body or is_fig:
                exp.append("BODY")
            if info["footnote"] != "absent" and show(pf, k):
                exp.append("footnote")
            if info["source"] != "absent" and show(ps, k):
                exp.append("source")
            if seq != exp:
                fails.append(f"page {k} of {P}: observed roles {seq} but the configuration prescribes {exp}")
            if is_fig and roles.count("pict") != 1:
                fails.append(f"page {k}: {roles.count('pict')} pictures")
        # geometry
        expg, land = expected_geometry(info.get("geometry") or {})
        start = doc.start_geometry
        for name, val in expg.items():
            got = start.get(name)
            if got is None or abs(Fraction(got) - val) > Fraction(1, 2):
                fails.append(f"document start {name}={got}, configured inches×1440 = {float(val):.3f}")
        if bool(start.get("landscape")) != land:
            fails.append(f"landscape flag at document start is {start.get('landscape')} for orientation "
                         f"{'landscape' if land else 'portrait'}")
        for k, pg in enumerate(doc.pages[1:], 2):
            g = {n: pg.geometry.get(n) for n in expg}
            s = {n: start.get(n) for n in expg}
            if g != s:
                fails.append(f"page {k} begins with geometry {g}, the document start has {s}")
        # header / footer exactly once
        if len(doc.headers) != (1 if info.get("has_ph") else 0):
            fails.append(f"{len(doc.headers)} \\header destinations for has_page_header={info.get('has_ph')}")
        if len(doc.footers) != (1 if info.get("has_pf") else 0):
            fails.append(f"{len(doc.footers)} \\footer destinations for has_page_footer={info.get('has_pf')}")
        return fails

    def project(self, pages, info):
        out = []
        for p in pages:
            seq = []
            for b in p:
                r = b[0]
                if r in ("heading", "data"):
                    r = "BODY"
                    if seq and seq[-1] == "BODY":
                        continue
                seq.append(r if r != "colHeader" else f"colHeader{b[1]}")
            out.append(seq)
        return out

    def nontrivial(self, spec, info, ob):
        if len(ob["pages"]) >= 2 and (info["has_title"] or info["footnote"] != "absent" or info["source"] != "absent"):
            return [info["strategy"], info["header_mode"], info["footnote"], info["source"], str(info["placements"]),
                    info.get("pageby_header"), len(ob["pages"])]
        return None


FAM = C06()


# ----------------------------------------------------------------------------- the header argument (Model/HeaderInput)
# What RTFDocument makes of the `rtf_column_header=` ARGUMENT in every container shape — a single object, a list or a
# tuple of 0–3 rows (own widths on all / some / none, a None entry), lists / tuples of per-section lists / tuples —
# for a single frame and for lists of 1–3 frames: accepted or refused (error class), the field after construction
# (container types included) and the header objects rendered above each section's rows, against
# `Model.HeaderInput.construct` / `renderedDoc` (driver op `header_input`).  Oracle (independent of the model): on a
# single table — handed over as a frame or as a one-section list — with a flat header argument that was accepted,
# every configured row appears above the first data row of the first page, in order (C06's header clause; the
# multi-page side is the layout documents' business).

def _hin_rows(rng, n, ids, none_ok):
    rows = []
    for _ in range(n):
        if none_ok and rng.random() < 0.2:
            rows.append(None)
        else:
            rows.append([len(ids), rng.random() < 0.5])
            ids.append(rows[-1])
    return rows


def gen_header_input(rng, k):
    nsec = [None, None, 1, 2, 3, 1][k % 6]
    kind = ["flat", "flat", "nested", "flat", "single", "nested", "flat", "nested"][(k // 6) % 8]
    ids: list = []
    box = lambda: rng.choice(["list", "tuple"])      # noqa: E731
    own = rng.choice(["all", "none", "mixed", "mixed"])
    if k % 97 == 96:
        arg = None
    elif kind == "single":
        arg = dict(single=_hin_rows(rng, 1, ids, False)[0])
    elif kind == "flat":
        arg = dict(flat=box(), rows=_hin_rows(rng, rng.choice([0, 1, 1, 2, 2, 3]), ids, rng.random() < 0.1))
    else:
        m = rng.choice([nsec or 1] * 3 + [1, 2, 3])
        arg = dict(nested=box(), secs=[dict(box="list" if (i == 0 and rng.random() < 0.6) else box(),
                                            rows=_hin_rows(rng, rng.choice([0, 1, 1, 2]), ids, True)) for i in range(m)])
    if own != "mixed":
        for h in ids:
            h[1] = own == "all"
    return dict(level="header-input", arg=arg, nsec=nsec, pageby_header=rng.random() < 0.7,
                nrow=rng.choice([40, 40, 6]))


def _hin_shape(v):
    """JSON form (Driver/HeaderInput.lean) of a value of the field rtf_column_header"""
    import rtflite as rtf

    def hdr(h):
        if h is None:
            return None
        if not isinstance(h, rtf.RTFColumnHeader):
            raise TypeError(f"entry of type {type(h).__name__}")
        return [int(h.text[0][2:-1]), h.col_rel_width is not None]
    if v is None:
        return None
    if isinstance(v, rtf.RTFColumnHeader):
        return dict(single=hdr(v))
    b = {list: "list", tuple: "tuple"}[type(v)]
    if any(isinstance(x, (list, tuple)) for x in v):
        return dict(nested=b, secs=[dict(box={list: "list", tuple: "tuple"}[type(x)], rows=[hdr(h) for h in x]) for x in v])
    return dict(flat=b, rows=[hdr(h) for h in v])


def _hin_worker(case):
    try:
        import contextlib
        import io
        import re

        import polars as pl
        import rtflite as rtf

        def mk(h):
            if h is None:
                return None
            kw = dict(text=[f"HD{h[0]}x", "HDy"])
            if h[1]:
                kw["col_rel_width"] = [1, 2]
            return rtf.RTFColumnHeader(**kw)

        def seq(b, items):
            return list(items) if b == "list" else tuple(items)
        a = case["arg"]
        if a is None:
            arg = None
        elif "single" in a:
            arg = mk(a["single"])
        elif "flat" in a:
            arg = seq(a["flat"], [mk(h) for h in a["rows"]])
        else:
            arg = seq(a["nested"], [seq(s["box"], [mk(h) for h in s["rows"]]) for s in a["secs"]])
        nsec = case["nsec"]
        frames = [pl.DataFrame({"a": [f"S{i}r{j}" for j in range(9)], "b": ["v"] * 9}) for i in range(nsec or 1)]
        body = lambda: rtf.RTFBody(pageby_header=case["pageby_header"])     # noqa: E731
        kw = dict(df=frames[0], rtf_body=body()) if nsec is None else dict(df=frames, rtf_body=[body() for _ in frames])
        out = dict(case=case)
        with contextlib.redirect_stdout(io.StringIO()):
            try:
                doc = rtf.RTFDocument(rtf_column_header=arg, rtf_page=rtf.RTFPage(nrow=case["nrow"]), **kw)
            except Exception as e:  # noqa: BLE001
                out["construct_error"] = docgen.classify_exc(e)
                return out
            out["post"] = _hin_shape(doc.rtf_column_header)
            try:
                text = doc.rtf_encode()
            except Exception as e:  # noqa: BLE001
                out["encode_error"] = docgen.classify_exc(e)
                return out
        # header objects above each section's rows ON THE FIRST PAGE the section appears on
        rendered = [[] for _ in frames]
        started = [False] * len(frames)
        pending: list = []
        for m in re.finditer(r"HD(\d+)x|S(\d+)r(\d+)|\\page\b", text):
            if m.group(1) is not None:
                pending.append(int(m.group(1)))
            elif m.group(2) is not None:
                i = int(m.group(2))
                if not started[i]:
                    started[i] = True
                    rendered[i] = pending
                pending = []
            else:
                pending = []
        out["rendered_ids"] = rendered
        out["pages"] = text.count("\\page{") + 1
        return out
    except Exception:  # noqa: BLE001
        import traceback

        return dict(machinery=traceback.format_exc()[-1500:])


def _hin_judge(o, d):
    """(fails, disagreements) of one header-input outcome `o` against the model's answer `d`"""
    case = o["case"]
    a = case["arg"]
    fails, dis = [], []
    flat_rows = None
    if a is not None and "single" in a:
        flat_rows = [a["single"]]
    elif a is not None and "flat" in a and all(h is not None for h in a["rows"]):
        flat_rows = a["rows"]
    if flat_rows is not None and case["nsec"] in (None, 1) and "rendered_ids" in o:
        want = [h[0] for h in flat_rows]
        if o["rendered_ids"][0] != want:
            fails.append(f"column header rows {want} were configured ({'a single object' if 'single' in a else 'a ' + a['flat']}"
                         f", own col_rel_width on {sum(1 for h in flat_rows if h[1])} of {len(flat_rows)}; "
                         f"{'one-section list' if case['nsec'] else 'single frame'}); the first page shows the rows "
                         f"{o['rendered_ids'][0]} above its first data row")
    mine = {k: o[k] for k in ("construct_error", "post", "encode_error") if k in o}
    theirs = {k: d[k] for k in ("construct_error", "post", "encode_error") if k in d}
    if "rendered_ids" in o:
        mine["rendered"] = o["rendered_ids"]
    if "rendered" in d:
        theirs["rendered"] = [[h[0] for h in sec] for sec in d["rendered"]]
    if mine != theirs:
        dis.append(f"rtf_column_header={json.dumps(a)} with df {'a frame' if case['nsec'] is None else 'a list of %d' % case['nsec']}: "
                   f"implementation {json.dumps(mine)[:300]} vs Model.HeaderInput {json.dumps(theirs)[:300]}")
    return fails, dis


def _hin_label(case):
    a = case["arg"]
    kind = "None" if a is None else "single" if "single" in a else f"flat-{a['flat']}" if "flat" in a else \
        f"nested-{a['nested']}-of-" + "+".join(sorted({s_["box"] for s_ in a["secs"]}))
    return kind, ("frame" if case["nsec"] is None else f"{case['nsec']}-section-list")


def run_header_input(res):
    n = 240 if res.tier == "quick" else 3000
    cases = [gen_header_input(common.sub_rng(res.seed, "c06hin", k), k) for k in range(n)]
    outs = common.pool_map(_hin_worker, cases, chunksize=8)
    for o in outs:
        if "machinery" in o:
            raise common.MachineryError("worker failed: " + o["machinery"])
    drv = common.driver_batch([dict(op="header_input", arg=c["arg"], nsec=c["nsec"]) for c in cases])
    for o, d in zip(outs, drv):
        kind, secs = _hin_label(o["case"])
        outcome = "refused" if "construct_error" in o else "encode-error" if "encode_error" in o else "rendered"
        res.count(f"header-input:{kind}:{secs}:{outcome}")
        res.case(o["case"], ("header-input", kind, secs, outcome) if outcome == "rendered" and any(o["rendered_ids"]) else None)
        fails, dis = _hin_judge(o, d)
        res.corr_checked += 1
        for f in fails[:1]:
            res.fail(o["case"], f)
        for m in dis[:1]:
            res.disagree(o["case"], m)


# ----------------------------------------------------------------------------- figure documents (Model/EncodeFigure)
# One page per figure, whatever the shape of fig_width / fig_height: 1–6 figures × {scalar, int, one entry, fewer /
# as many / more entries than figures; list or tuple} for either size × the placement product × title / subline /
# footnote / source / page header / page footer × geometry × alignment.  Oracle: `C06.oracle` on
# the real text (role sequence of page k of nfig, one picture per page, geometry restated, header / footer once).
# Tie: the post-construction state goes to `Model.EncodeFigure.encodeWithF` (driver op `encode_figure`, sizes resolved
# by `Model.Figure.getDim`: positional, last value reused); the model's text is read by the same reader and the role
# sequences per page are compared.

FIGS = {"quick": 240, "thorough": 2400}


def _fig_worker(case):
    """real rtflite on one figure document: observation + oracle + the state the model is asked about"""
    try:
        import contextlib
        import io
        import tempfile

        from .. import encodecorr2

        spec, info = case["spec"], case["info"]
        out = dict(case=case)
        wd = tempfile.mkdtemp(prefix="rtfv_c06fig_")
        try:
            with contextlib.redirect_stdout(io.StringIO()):
                doc = docgen.build(spec, wd)
        except Exception as e:  # noqa: BLE001
            out["error"] = f"construction refused: {docgen.classify_exc(e)}: {str(e)[:200]}"
            return out
        req, real = encodecorr2.encode_real(doc, "figure")
        req.pop("check", None)
        out["req"] = req
        if real[0] != "ok":
            out["error"] = f"rtf_encode raised {real[1]}: {real[2]}"
            return out
        try:
            rd = rtfread.read(real[1])
        except rtfread.RtfError as e:
            out["error"] = f"output unreadable: {e}"
            return out
        pages, raw = laygen.classify(rd, info)
        out["pages"] = pages
        out["fails"] = FAM.oracle(spec, info, dict(pages=pages, _raw=raw, _doc=rd, _rtf=real[1]))
        out["nt"] = FAM.nontrivial(spec, info, dict(pages=pages))
        return out
    except Exception:  # noqa: BLE001
        import traceback

        return dict(machinery=traceback.format_exc()[-1500:])


def _fig_classify(args):
    """role blocks per page of a text the model printed (same reader, same classification)"""
    text, info = args
    try:
        return dict(pages=laygen.classify(rtfread.read(text), info)[0])
    except rtfread.RtfError as e:
        return dict(unreadable=str(e))


def _fig_describe(spec, info):
    f = spec["figure"]
    return (f"{info['nfig']} figure(s), fig_width={json.dumps(f['fig_width'])}, fig_height={json.dumps(f['fig_height'])}, "
            f"page_title/footnote/source={'/'.join(info['placements'])}")


def _fig_judge(o, d, pm):
    """(fails, disagreements) of one figure document: worker outcome, driver answer, the model text's pages"""
    spec, info = o["case"]["spec"], o["case"]["info"]
    what = _fig_describe(spec, info)
    if "error" in o:
        # every drawn configuration is documented as accepted: a refusal leaves the configured pages unproduced
        return [f"{what}: {o['error']}"], []
    fails = [f"{what}: {f}" for f in o.get("fails") or []]
    dis = []
    if "error" in d:
        dis.append(f"{what}: implementation produced {len(o['pages'])} page(s), Model.EncodeFigure raises {d['error']}")
    elif pm is None or "unreadable" in pm:
        dis.append(f"{what}: the model's text is unreadable: {(pm or {}).get('unreadable')}")
    else:
        a, b = FAM.project(o["pages"], info), FAM.project(pm["pages"], info)
        if a != b:
            dis.append(f"{what}: " + layfamily._first_diff(a, b))
    return fails, dis


def _fig_cases(seed, tier):
    cases = []
    for j in range(FIGS[tier]):
        spec, info = gen_figure_sys(common.sub_rng(seed, "c06fig", j), j)
        cases.append(dict(spec=spec, info=info, level="figure-doc"))
    return cases


def _fig_model(outs):
    reqs = [o["req"] for o in outs if "req" in o]
    drv = iter(common.driver_batch(reqs))
    ds = [next(drv) if "req" in o else {"error": "not asked"} for o in outs]
    todo = [(d["text"], o["case"]["info"]) for o, d in zip(outs, ds) if "text" in d and "pages" in o]
    pms = iter(common.pool_map(_fig_classify, todo, chunksize=8) if len(todo) >= 4 else
               [common.isolated(_fig_classify, t) for t in todo])
    return ds, [next(pms) if "text" in d and "pages" in o else None for o, d in zip(outs, ds)]


def run_figure_docs(res):
    cases = _fig_cases(res.seed, res.tier)
    outs = common.pool_map(_fig_worker, cases, chunksize=4)
    for o in outs:
        if "machinery" in o:
            raise common.MachineryError("worker failed: " + o["machinery"])
    ds, pms = _fig_model(outs)
    for o, d, pm in zip(outs, ds, pms):
        case = o["case"]
        nt = o.get("nt")
        res.case(case, ("figure-doc",) + tuple(nt) if isinstance(nt, list) else None)
        res.count("figure-doc")
        for lab in case["info"]["labels"]:
            res.count("figure-doc:" + lab)
        fails, dis = _fig_judge(o, d, pm)
        res.corr_checked += 1
        for f in fails[:1]:
            res.fail(case, f)
        for m in dis[:1]:
            res.disagree(case, m)


def _extra_streams(res):
    run_header_input(res)
    run_figure_docs(res)


FAM.extra_streams = _extra_streams


def run(res, build):
    return layfamily.run_family(
        FAM, res, build, RULE, layfamily.TRUSTED_COMMON, layfamily.ASSUME_COMMON,
        explanation="C06_order, C06_title/subline/footnote/source, C06_col_headers, C06_break, C06_single_page hold "
                    "for every LDoc and page. Geometry restatement and the single header/footer definition are "
                    "observation-level clauses (oracle). Figure documents: C06fig_page / C06fig_dims_total / "
                    "C06fig_roles_independent_of_sizes about Model.EncodeFigure (one page per figure, placements "
                    "against the figure count, whatever the lengths of the size lists), tied per page by role "
                    "sequence; the oracle decides the statement on the real text. C06in_*: for every container the "
                    "constructors accept for the column headers (single object, list, tuple; the table as a "
                    "one-section list) the configured rows reach the header loop, because construction hands on a "
                    "list — the only sequence the renderer's type guards recognise.")


def replay(payload):
    case = payload.get("case") or {}
    if "spec" not in case:
        for b in payload.get("broken", []):
            if b.get("kind") == "correspondence" and (b.get("case") or {}).get("level") in ("header-input", "figure-doc"):
                case = b["case"]
    if case.get("level") == "header-input":
        o = common.pool_map(_hin_worker, [case] * 4)[0]
        if "machinery" in o:
            print(o["machinery"])
            return 2
        d = common.driver_batch([dict(op="header_input", arg=case["arg"], nsec=case["nsec"])])[0]
        print("argument:", json.dumps(case["arg"]), "| df:", "a frame" if case["nsec"] is None else f"a list of {case['nsec']}")
        print("implementation:", json.dumps({k: v for k, v in o.items() if k != "case"}))
        print("model:", json.dumps(d))
        fails, dis = _hin_judge(o, d)
        for f in fails:
            print("FAIL:", f)
        for m in dis:
            print("MODEL DISAGREES:", m)
        if fails:
            print("VIOLATION property=C06 replay=<given>")
            return 1
        if dis:
            print("VIOLATION property=C06 replay=<given> no-failing-input-found")
            return 1
        print("property holds on this input")
        return 0
    if case.get("level") == "figure-doc":
        o = common.isolated(_fig_worker, case)
        if "machinery" in o:
            print(o["machinery"])
            return 2
        ds, pms = _fig_model([o])
        print("document:", _fig_describe(case["spec"], case["info"]))
        for i, p in enumerate(o.get("pages") or []):
            print(f" page {i + 1}: {json.dumps(p)[:400]}")
        if pms[0] and "pages" in pms[0]:
            print("model pages:", json.dumps(FAM.project(pms[0]["pages"], case["info"]))[:800])
        fails, dis = _fig_judge(o, ds[0], pms[0])
        for f in fails:
            print("FAIL:", f)
        for m in dis:
            print("MODEL DISAGREES:", m)
        if fails:
            print("VIOLATION property=C06 replay=<given>")
            return 1
        if dis:
            print("VIOLATION property=C06 replay=<given> no-failing-input-found")
            return 1
        print("property holds on this input")
        return 0
    return layfamily.replay_family(FAM, payload)
