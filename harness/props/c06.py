"""C06 — titles, headers, footnotes and sources appear on exactly the configured pages.

Theorems: lean/Props/C06.lean about `Model.Layout.renderPage` (order, placement, headers, break, one-page case).
Oracle on the implementation (independent of the model): the role sequence of every observed page equals the
sequence the statement prescribes for page k of P; every page break restates the paper size and margins of the
document start, which equal configured inches × 1440 (rounded); landscape flagged; page header / footer defined
exactly once.  Correspondence: role sequence per page of the Lean layout equals the observed one.
"""
from __future__ import annotations

import struct
from fractions import Fraction

from .. import common, laygen, layfamily, docgen, rtfread

MANIFEST = dict(
    text="Lean theorems over renderPage for every document, page and flag combination: blocks appear in the order "
         "break, title, subline, subline heading, column headers, body, footnote, source; title/subline/footnote/"
         "source occur at most once and exactly on the pages their placement selects; column headers on page 1 and "
         "later pages iff pageby_header; one break at the start of every later page; on a one-page document the three "
         "placements coincide. Tied to the code by observation over the full placement product on 1/2/3/many-page "
         "documents, random paper geometry and figure documents; _should_show_element is translated from its source "
         "on every run and proved equal to the model's placement rule (Props/C06py.lean).",
    note="Paper geometry after each break and the single header/footer definition are checked on the observation "
         "(exact rational arithmetic on the configured floats); they are emitted by string templates outside the "
         "role-level model.",
    technique="Lean 4 proof (unfolding + finite flag split, universal in page count) + observation-level correspondence",
    design="7/C06",
)

RULE = ("the product page_title × page_footnote × page_source × footnote kind × source kind × pageby_header × strategy × "
        "header mode on documents of 1, 2, 3 and many pages, random paper size/margins incl. A4 and landscape, figure "
        "documents with 1..5 figures; non-trivial = ≥ 2 pages with at least one placed component; distinct by the "
        "configuration tuple and page count")

PLACE = ["first", "last", "all"]


def png_bytes(w=3, h=2):
    return (b"\x89PNG\r\n\x1a\n" + struct.pack(">I", 13) + b"IHDR" + struct.pack(">IIBBBBB", w, h, 8, 2, 0, 0, 0)
            + b"\0\0\0\0" + b"x" * 12)


def gen_figure(rng):
    nfig = rng.randint(1, 5)
    pt, pf, ps = rng.choice(PLACE), rng.choice(PLACE), rng.choice(PLACE)
    has_title = rng.random() < 0.7
    has_subl = rng.random() < 0.5
    fk = rng.choice(["absent", "para"])
    sk = rng.choice(["absent", "para"])
    geo = rand_geometry(rng)
    page = dict(page_title=pt, page_footnote=pf, page_source=ps)
    page.update(geo)
    spec = dict(kind="figure",
                figure=dict(files=[dict(name=f"f{i}.png", hex=png_bytes(3 + i, 2).hex()) for i in range(nfig)],
                            fig_width=3.0, fig_height=2.0, _as_list=True),
                page=page, title=dict(text=["TTL0"]) if has_title else None,
                subline=dict(text="SUBLN") if has_subl else None,
                footnote=dict(text="FTNOTE", as_table=False) if fk == "para" else None,
                source=dict(text="SRCTXT", as_table=False) if sk == "para" else None,
                page_header=dict(text="PGHDR") if rng.random() < 0.5 else None)
    info = dict(strategy="figure", header_mode="figure", model=False, n=0, nfig=nfig, placements=[pt, pf, ps],
                has_title=has_title, has_subline_txt=has_subl, footnote=fk, source=sk, page_by=None, subline_by=None,
                geometry=geo, has_ph=spec["page_header"] is not None, has_pf=False)
    return spec, info


def rand_geometry(rng):
    r = rng.random()
    if r < 0.35:
        return {}
    if r < 0.5:
        return dict(orientation="landscape")
    m = [round(rng.uniform(0.3, 1.6), rng.choice([1, 2, 3, 5])) for _ in range(6)]
    if r < 0.6:
        # a standard paper with the user's own margins (many documents share the paper and differ in the margins)
        return dict(rng.choice([{}, dict(orientation="landscape"), dict(width=8.27, height=11.69)]), margin=m)
    if r < 0.7:
        return dict(width=8.27, height=11.69)   # A4
    w = round(rng.uniform(6.0, 14.0), rng.choice([1, 2, 3]))
    h = round(rng.uniform(6.0, 17.0), rng.choice([1, 2, 3]))
    m = [round(rng.uniform(0.3, 1.6), rng.choice([1, 2, 3, 5])) for _ in range(6)]
    return dict(width=w, height=h, margin=m, orientation=rng.choice(["portrait", "landscape"]))


def expected_geometry(geo):
    """configured inches × 1440 as exact rationals (RTFPage defaults for what is not given)"""
    land = geo.get("orientation") == "landscape"
    w = geo.get("width", 11 if land else 8.5)
    h = geo.get("height", 8.5 if land else 11)
    m = geo.get("margin", [1, 1, 2, 1.25, 1.25, 1.25] if land else [1.25, 1, 1.75, 1.25, 1.75, 1.00625])
    names = ["paperw", "paperh", "margl", "margr", "margt", "margb", "headery", "footery"]
    return {k: Fraction(v) * 1440 for k, v in zip(names, [w, h] + list(m))}, land


class C06(layfamily.Family):
    prop, tag = "C06", "c06"

    def ndocs(self, tier):
        return 420 if tier == "quick" else 6000

    def gen(self, rng, k, tier):
        if k % 10 == 9:
            return gen_figure(rng)
        # systematic part of the product through k, the rest random
        pt, pf, ps = PLACE[k % 3], PLACE[(k // 3) % 3], PLACE[(k // 9) % 3]
        fk = ["absent", "para", "table"][(k // 27) % 3]
        sk = ["absent", "para", "table"][(k // 81) % 3]
        target_pages = [1, 2, 3, 7][k % 4]
        nrow = rng.randint(6, 14)
        strategy = rng.choice(laygen.STRATEGIES)
        n = 0 if rng.random() < 0.03 else max(1, (target_pages - 1) * (nrow - 4) + rng.randint(1, 3))
        geo = rand_geometry(rng)
        spec, info = laygen.gen_spec(rng, strategy=strategy, n=n, nrow=nrow, footnote=fk, source=sk,
                                     placements=(pt, pf, ps), long_rows=False, title=rng.random() < 0.8,
                                     subline=rng.random() < 0.5, geometry=geo or None)
        info["geometry"] = geo
        info["has_ph"] = spec["page_header"] is not None
        info["has_pf"] = spec["page_footer"] is not None
        return spec, info

    def oracle(self, spec, info, ob):
        fails = []
        doc = ob["_doc"]
        pages = ob["pages"]
        P = len(pages)
        pt, pf, ps = info["placements"]

        def show(pl, k):
            return pl == "all" or (pl == "first" and k == 1) or (pl == "last" and k == P)
        is_fig = info["strategy"] == "figure"
        if is_fig and P != info["nfig"]:
            fails.append(f"{info['nfig']} figures on {P} pages")
        nhdr = 0
        if not is_fig:
            h = spec["headers"]
            if h == "default":
                nhdr = 1 if spec["body"].get("as_colheader", True) else 0
            else:
                nhdr = len(h)
        for k, blocks in enumerate(pages, 1):
            roles = [b[0] for b in blocks]
            bodyroles = {"heading", "data", "pict", "data-untagged"}
            body = [r for r in roles if r in bodyroles]
            # collapse the body into one marker, keeping its position
            seq = []
            for r in roles:
                if r in bodyroles:
                    if not seq or seq[-1] != "BODY":
                        seq.append("BODY")
                else:
                    seq.append(r)
            exp = []
            if k > 1:
                exp.append("brk")
            if info["has_title"] and show(pt, k):
                exp.append("title")
            if info["has_subline_txt"] and show(pt, k):
                exp.append("subline")
            if info.get("subline_by") and info["n"] > 0:
                exp.append("sublineHeading")
            if not is_fig and (k == 1 or info["pageby_header"]):
                exp += ["colHeader"] * nhdr
            if body or is_fig:
                exp.append("BODY")
            if info["footnote"] != "absent" and show(pf, k):
                exp.append("footnote")
            if info["source"] != "absent" and show(ps, k):
                exp.append("source")
            if seq != exp:
                fails.append(f"page {k} of {P}: observed roles {seq} but the configuration prescribes {exp}")
            if is_fig and roles.count("pict") != 1:
                fails.append(f"page {k}: {roles.count('pict')} pictures")
        # geometry
        expg, land = expected_geometry(info.get("geometry") or {})
        start = doc.start_geometry
        for name, val in expg.items():
            got = start.get(name)
            if got is None or abs(Fraction(got) - val) > Fraction(1, 2):
                fails.append(f"document start {name}={got}, configured inches×1440 = {float(val):.3f}")
        if bool(start.get("landscape")) != land:
            fails.append(f"landscape flag at document start is {start.get('landscape')} for orientation "
                         f"{'landscape' if land else 'portrait'}")
        for k, pg in enumerate(doc.pages[1:], 2):
            g = {n: pg.geometry.get(n) for n in expg}
            s = {n: start.get(n) for n in expg}
            if g != s:
                fails.append(f"page {k} begins with geometry {g}, the document start has {s}")
        # header / footer exactly once
        if len(doc.headers) != (1 if info.get("has_ph") else 0):
            fails.append(f"{len(doc.headers)} \\header destinations for has_page_header={info.get('has_ph')}")
        if len(doc.footers) != (1 if info.get("has_pf") else 0):
            fails.append(f"{len(doc.footers)} \\footer destinations for has_page_footer={info.get('has_pf')}")
        return fails

    def project(self, pages, info):
        out = []
        for p in pages:
            seq = []
            for b in p:
                r = b[0]
                if r in ("heading", "data"):
                    r = "BODY"
                    if seq and seq[-1] == "BODY":
                        continue
                seq.append(r if r != "colHeader" else f"colHeader{b[1]}")
            out.append(seq)
        return out

    def nontrivial(self, spec, info, ob):
        if len(ob["pages"]) >= 2 and (info["has_title"] or info["footnote"] != "absent" or info["source"] != "absent"):
            return [info["strategy"], info["header_mode"], info["footnote"], info["source"], str(info["placements"]),
                    info.get("pageby_header"), len(ob["pages"])]
        return None


FAM = C06()


def run(res, build):
    return layfamily.run_family(
        FAM, res, build, RULE, layfamily.TRUSTED_COMMON, layfamily.ASSUME_COMMON,
        explanation="C06_order, C06_title/subline/footnote/source, C06_col_headers, C06_break, C06_single_page hold "
                    "for every LDoc and page. Geometry restatement and the single header/footer definition are "
                    "observation-level clauses (oracle), as are figure documents.")


def replay(payload):
    return layfamily.replay_family(FAM, payload)
