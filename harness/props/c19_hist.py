"""C19 over HISTORIES — every constructor call is judged against the state of the world AT THAT CALL.

The constructor streams of `c19.py` are stateless: every call is judged alone and a figure file either exists or not
for the whole run.  A validator that *remembers* an earlier verdict (a cache keyed on the path, on the value, on the
column names …) passes all of them.  Here a case is a history executed in ONE fresh process:

  file-system histories   `RTFFigure(figures=…)` calls with files created / replaced by other content / deleted /
                          renamed (other name, other suffix = other format, other directory, onto an existing file)
                          and the working directory changed in between; the same file given as absolute or
                          relative path, as `str` or `Path`, with `..` / `./` spellings, scalar or inside a list.
                          Model: `lean/Model/ValidateHist.lean` (`run`, `runSpec`: each call judged in the state
                          reached by the events before it), theorems `lean/Props/C19hist.lean`.
  value histories         sequences of component / page / figure / document constructor calls that present the SAME
                          value (or an ==-equal one of another type: 1 / True / 1.0, 0 / False / 0.0 / -0.0) to
                          fields with different rules, valid-then-invalid and invalid-then-valid on one field, the same
                          grouping names against frames with and without the column, 1–3 sections.  The model of
                          these calls has no state argument at all (`c19_comp`, `c19_page`, `c19_figure`, `c19_doc`
                          are functions of the call); the history checks that the implementation is one, too.

Every history runs in a fresh fork of the (constructor-free) main process, so a failing history is self-contained
and replays alone; it is shrunk by dropping steps, each attempt again in a fresh process.
"""
from __future__ import annotations

import copy
import os
import shutil
import tempfile

from .. import common
from ..common import sub_rng
from . import c19 as B

NDIRS = 3
IMG_NAMES = ["plot.png", "fig1.PNG", "logo.jpg", "chart.jpeg", "draw.emf", "two words.png", "km.curve.png"]
OTHER_NAMES = ["notes.txt", "scan.bmp", "pic.gif", "report.pdf", "noext"]
_JPEG = bytes.fromhex("ffd8ffe000104a46494600010100000100010000ffd9")
CONTENT = dict(png=B._PNG, jpeg=_JPEG, text=b"not an image\n")
ABS_FORMS = ["str", "Path", "dotdot", "sibling"]
REL_FORMS = ["str", "Path", "dot"]


# ------------------------------------------------------------------ file-system histories: generator

class _Sim:
    """the generator's own book-keeping (steers the choice of events; the verdicts come from the Lean model)"""

    def __init__(self, cwd, files):
        self.cwd, self.files = cwd, set(files)

    def key(self, ref):
        return (ref["abs"], ref["n"]) if "abs" in ref else (self.cwd, ref["rel"])

    def exists(self, ref):
        return self.key(ref) in self.files

    def apply(self, st):
        ev = st["ev"]
        if ev == "create":
            self.files.add((st["d"], st["n"]))
        elif ev == "delete":
            self.files.discard((st["d"], st["n"]))
        elif ev == "rename":
            if (st["d"], st["n"]) in self.files:
                self.files.discard((st["d"], st["n"]))
                self.files.add((st["d2"], st["n2"]))
        elif ev == "chdir":
            self.cwd = st["d"]


def _ref(rng, d, n, cwd, rel=None):
    """a path argument naming file (d, n): absolute, or relative when it lies in the working directory"""
    if rel is None:
        rel = d == cwd and rng.random() < 0.4
    if rel and d == cwd:
        return {"rel": n, "form": rng.choice(REL_FORMS)}
    return {"abs": d, "n": n, "form": rng.choice(ABS_FORMS)}


def _respell(rng, ref):
    r = dict(ref)
    r["form"] = rng.choice(REL_FORMS if "rel" in r else ABS_FORMS)
    return r


def _fig_fields(rng):
    """the non-path arguments of a call: mostly none, now and then valid / invalid keywords and sizes"""
    r = rng.random()
    if r < 0.6:
        return {}
    g = B.gen_figure(rng, "valid" if r < 0.88 else "bad")
    return {k: g[k] for k in ("fig_align", "fig_pos", "fig_width", "fig_height") if k in g}


def _call(rng, refs, fields=None):
    c = dict(kind="figure_at", mode="hist", paths=[dict(r) for r in refs] if refs is not None else None)
    c["single"] = refs is not None and len(refs) == 1 and rng.random() < 0.5
    c.update(_fig_fields(rng) if fields is None else fields)
    return {"ev": "call", "call": c}


def _other_name(rng, n, same_format=None):
    """a new name for a file called n: another stem, or the same stem with another suffix"""
    stem, dot, suf = n.rpartition(".")
    if not dot:
        stem, suf = n, ""
    img = [".png", ".jpg", ".jpeg", ".emf", ".PNG"]
    oth = [".txt", ".bmp", ".gif", ".bak", ""]
    if same_format is None:
        same_format = rng.random() < 0.5
    is_img = ("." + suf).lower() in (".png", ".jpg", ".jpeg", ".emf")
    if rng.random() < 0.5:
        pool = img if (is_img == same_format) else oth
        cand = stem + rng.choice(pool)
        if cand != n:
            return cand
    return "old_" + n if same_format else n + ".bak"


SCENARIOS = ["deleted", "renamed", "chdir_dangling", "created_late", "suffix_changed", "content_replaced",
             "list_member_deleted", "moved_dir", "overwritten_by_rename", "random"]


def gen_fs_history(rng, k):
    scen = SCENARIOS[k % len(SCENARIOS)]
    cwd = rng.randrange(NDIRS)
    files = set()
    for n in rng.sample(IMG_NAMES, rng.randint(1, 4)) + rng.sample(OTHER_NAMES, rng.randint(0, 2)):
        for d in rng.sample(range(NDIRS), rng.choice([1, 1, 2])):
            files.add((d, n))
    sim = _Sim(cwd, files)
    init = dict(cwd=cwd, files=sorted([d, n] for d, n in files))
    steps, used = [], []

    def do(st):
        steps.append(st)
        sim.apply(st)
        if st["ev"] == "call":
            for r in st["call"]["paths"] or []:
                used.append(dict(r))

    def pick_existing(img=True, in_cwd=None):
        pool = [f for f in sorted(sim.files) if (f[1] in IMG_NAMES) == img and (in_cwd is None or (f[0] == sim.cwd) == in_cwd)]
        if not pool:
            n = rng.choice(IMG_NAMES if img else OTHER_NAMES)
            d = sim.cwd if in_cwd else rng.randrange(NDIRS)
            do({"ev": "create", "d": d, "n": n, "content": "png"})
            return (d, n)
        return rng.choice(pool)

    plain = {} if rng.random() < 0.7 else None
    if scen == "deleted":
        d, n = pick_existing()
        r = _ref(rng, d, n, sim.cwd)
        do(_call(rng, [r], plain))
        do({"ev": "delete", "d": d, "n": n})
        do(_call(rng, [rng.choice([r, _respell(rng, r)])], plain))
    elif scen == "renamed":
        d, n = pick_existing()
        r = _ref(rng, d, n, sim.cwd)
        do(_call(rng, [r], plain))
        n2 = _other_name(rng, n, same_format=True)
        do({"ev": "rename", "d": d, "n": n, "d2": d, "n2": n2})
        do(_call(rng, [_respell(rng, r)], plain))
        do(_call(rng, [_ref(rng, d, n2, sim.cwd)], plain))
    elif scen == "chdir_dangling":
        d, n = pick_existing(in_cwd=True)
        r = {"rel": n, "form": rng.choice(REL_FORMS)}
        do(_call(rng, [r], plain))
        others = [x for x in range(NDIRS) if x != sim.cwd]
        do({"ev": "chdir", "d": rng.choice(others)})
        do(_call(rng, [_respell(rng, r)], plain))
        if rng.random() < 0.6:
            do({"ev": "chdir", "d": d})
            do(_call(rng, [_respell(rng, r)], plain))
    elif scen == "created_late":
        n = rng.choice(IMG_NAMES)
        d = rng.randrange(NDIRS)
        if (d, n) in sim.files:
            do({"ev": "delete", "d": d, "n": n})
        r = _ref(rng, d, n, sim.cwd)
        do(_call(rng, [r], plain))
        do({"ev": "create", "d": d, "n": n, "content": rng.choice(["png", "jpeg"])})
        do(_call(rng, [_respell(rng, r)], plain))
    elif scen == "suffix_changed":
        d, n = pick_existing()
        r = _ref(rng, d, n, sim.cwd)
        do(_call(rng, [r], plain))
        n2 = _other_name(rng, n, same_format=False)
        do({"ev": "rename", "d": d, "n": n, "d2": d, "n2": n2})
        do(_call(rng, [_ref(rng, d, n2, sim.cwd)], plain))
        do(_call(rng, [_respell(rng, r)], plain))
        if rng.random() < 0.5:
            do({"ev": "rename", "d": d, "n": n2, "d2": d, "n2": n})
            do(_call(rng, [_respell(rng, r)], plain))
    elif scen == "content_replaced":
        d, n = pick_existing()
        r = _ref(rng, d, n, sim.cwd)
        do(_call(rng, [r], plain))
        do({"ev": "create", "d": d, "n": n, "content": rng.choice(["text", "jpeg", "png"])})
        do(_call(rng, [_respell(rng, r)], plain))
    elif scen == "list_member_deleted":
        a = pick_existing()
        b = pick_existing()
        if b == a:
            n = rng.choice([x for x in IMG_NAMES if x != a[1]])
            do({"ev": "create", "d": a[0], "n": n, "content": "png"})
            b = (a[0], n)
        ra, rb = _ref(rng, *a, sim.cwd), _ref(rng, *b, sim.cwd)
        do(_call(rng, [ra, rb], plain))
        do({"ev": "delete", "d": b[0], "n": b[1]})
        for refs in rng.sample([[ra, rb], [rb, ra], [rb], [ra], [ra, ra, rb]], 3):
            do(_call(rng, [_respell(rng, x) if rng.random() < 0.5 else x for x in refs], plain))
    elif scen == "moved_dir":
        d, n = pick_existing()
        r = _ref(rng, d, n, sim.cwd)
        do(_call(rng, [r], plain))
        d2 = rng.choice([x for x in range(NDIRS) if x != d])
        do({"ev": "rename", "d": d, "n": n, "d2": d2, "n2": n})
        do(_call(rng, [_respell(rng, r)], plain))
        do(_call(rng, [_ref(rng, d2, n, sim.cwd)], plain))
    elif scen == "overwritten_by_rename":
        a = pick_existing()
        cand = [f for f in sorted(sim.files) if f != a]
        b = rng.choice(cand) if cand else None
        if b is None:
            b = (a[0], _other_name(rng, a[1], same_format=True))
            do({"ev": "create", "d": b[0], "n": b[1], "content": "png"})
        ra, rb = _ref(rng, *a, sim.cwd), _ref(rng, *b, sim.cwd)
        do(_call(rng, [ra, rb], plain))
        do({"ev": "rename", "d": a[0], "n": a[1], "d2": b[0], "n2": b[1]})
        do(_call(rng, [ra], plain))
        do(_call(rng, [rb], plain))
    # random continuation (the whole history for scen == "random")
    total = rng.randint(max(len(steps), 4), 14)
    while len(steps) < total:
        r = rng.random()
        present = sorted(sim.files)
        used_keys = [sim.key(u) for u in used]
        if r < 0.45 or not present:
            refs = []
            for _ in range(rng.choice([1, 1, 1, 2, 3])):
                q = rng.random()
                if used and q < 0.6:
                    u = rng.choice(used)
                    refs.append(_respell(rng, u) if rng.random() < 0.5 else dict(u))
                elif present and q < 0.9:
                    refs.append(_ref(rng, *rng.choice(present), sim.cwd))
                else:
                    refs.append(_ref(rng, rng.randrange(NDIRS), rng.choice(IMG_NAMES + OTHER_NAMES), sim.cwd))
            do(_call(rng, refs if rng.random() > 0.03 else None))
        elif r < 0.6:
            pool = [f for f in present if f in used_keys] or present
            d, n = rng.choice(pool)
            do({"ev": "delete", "d": d, "n": n})
        elif r < 0.72:
            pool = [f for f in present if f in used_keys] or present
            d, n = rng.choice(pool)
            q = rng.random()
            if q < 0.45:
                d2, n2 = d, _other_name(rng, n)
            elif q < 0.75:
                d2, n2 = rng.choice([x for x in range(NDIRS) if x != d]), n
            else:
                d2, n2 = rng.choice(present)
                if (d2, n2) == (d, n):
                    d2, n2 = d, _other_name(rng, n)
            do({"ev": "rename", "d": d, "n": n, "d2": d2, "n2": n2})
        elif r < 0.84:
            gone = [k2 for k2 in used_keys if k2 not in sim.files]
            if gone and rng.random() < 0.7:
                d, n = rng.choice(gone)
            elif present and rng.random() < 0.5:
                d, n = rng.choice(present)  # new content for an existing file
            else:
                d, n = rng.randrange(NDIRS), rng.choice(IMG_NAMES + OTHER_NAMES)
            do({"ev": "create", "d": d, "n": n, "content": rng.choice(["png", "png", "jpeg", "text"])})
        else:
            do({"ev": "chdir", "d": rng.choice([x for x in range(NDIRS) if x != sim.cwd])})
    if not any(st["ev"] == "call" for st in steps):
        do(_call(rng, [_ref(rng, rng.randrange(NDIRS), rng.choice(IMG_NAMES), sim.cwd)]))
    return dict(kind="hist", mode="hist", theme="fs", scenario=scen, steps=steps, **init)


# ------------------------------------------------------------------ value histories: generator

STR_POOL = ["j", "d", "l", "c", "r", "b", "i", "u", "s", "", "center", "top", "bottom", "left", "right", "first",
            "last", "all", "single", "double", "red", "black", "portrait", "landscape", "before", "after", "column",
            "first_row", "bi", "thick", "gray50"]
NUM_POOL = [1, 10, 11, 15, 100, 0, -1, 2, 1.0, True, False, 0.0, -0.0, 10.0, 11.0, 0.5, 2.5, 2.0, -1.0, 255]
EQ_CLASSES = [[1, True, 1.0], [0, False, 0.0, -0.0], [2, 2.0], [10, 10.0], [11, 11.0], [-1, -1.0]]
STR_CLASSES = ("textJust", "rowJust", "vertAlign", "format", "color", "border")
NUM_CLASSES = ("font", "posInt", "posFloat")


def _doc_legal(cls, v):
    """is v a documented legal value of the class (steers generation only; the verdict is the driver's)"""
    if cls == "format":
        return isinstance(v, str) and all(ch in "bius^_" for ch in v)
    if cls == "color":
        return v in B.DOC["color"] or v in B.color_names()
    if cls in B.DOC:
        return v in B.DOC[cls]
    if isinstance(v, bool) or not isinstance(v, (int, float)):
        return False
    if cls == "font":
        return v in range(1, 11)
    return v > 0


def _embed(rng, cls, v, shapes=("scalar", "flat", "tuple", "nested")):
    """v at a random position of a random shape, the other elements legal"""
    t = rng.choice(shapes)
    jv = B.jv
    if t == "scalar":
        return {"t": t, "v": jv(v)}
    if t in ("flat", "tuple"):
        vals = [jv(B.good_value(rng, cls)) for _ in range(rng.randint(1, 4))]
        vals[rng.randrange(len(vals))] = jv(v)
        return {"t": t, "v": vals}
    nr, nc = rng.randint(1, 3), rng.randint(1, 3)
    rows = [[jv(B.good_value(rng, cls)) for _ in range(nc)] for _ in range(nr)]
    rows[rng.randrange(nr)][rng.randrange(nc)] = jv(v)
    return {"t": t, "v": rows}


def _slots(kind):
    """every place a string (kind='str') or a number (kind='num') can be presented to: (slot, class)"""
    out = []
    classes = STR_CLASSES if kind == "str" else NUM_CLASSES
    for comp in B.TABLE_COMPS + B.TEXT_COMPS:
        for f in (B.TABLE_FIELDS if comp in B.TABLE_COMPS else B.TEXT_FIELDS):
            if B.FIELD_CLASS[f] in classes:
                out.append((("comp", comp, f), B.FIELD_CLASS[f]))
    if kind == "str":
        out += [(("page", f), f) for f in B.PAGE_STR]
        out += [(("figure", "fig_align"), "fig_align"), (("figure", "fig_pos"), "fig_pos"),
                (("pageby_row",), "pageby_row")]
    else:
        out += [(("page", f), cls) for f, cls in B.PAGE_NUM.items()]
        out += [(("figure", "fig_width"), "posFloat"), (("figure", "fig_height"), "posFloat")]
    return out


_SLOT_LEGAL = dict(fig_align=["left", "center", "right"], fig_pos=["before", "after"],
                   pageby_row=["column", "first_row"])


def _slot_legal(slot, cls, v):
    if slot[0] == "page" and slot[1] in B.PAGE_STR:
        return v in B.PAGE_STR[slot[1]][0]
    if cls in _SLOT_LEGAL:
        return v in _SLOT_LEGAL[cls]
    return _doc_legal(cls, v)


def _present(rng, slot, cls, v):
    """a constructor call presenting v to the slot"""
    jv = B.jv
    if slot[0] == "comp":
        shapes = ("scalar", "flat", "tuple") if slot[2] == "col_rel_width" else ("scalar", "flat", "tuple", "nested")
        raw = _embed(rng, cls, v, shapes)
        return dict(kind="comp", comp=slot[1], kw=[[slot[2], raw]], extra={}, mode="hist", shapes=[raw["t"]], pos=["hist"])
    if slot[0] == "page":
        return dict(kind="page", kw=[[slot[1], {"t": "scalar", "v": jv(v)}]], mode="hist", narrow=False)
    if slot[0] == "figure":
        c = dict(kind="figure", mode="hist", figures=None, single_path=False)
        if slot[1] in ("fig_align", "fig_pos"):
            c[slot[1]] = jv(v)
        else:
            c[slot[1]] = _embed(rng, "posFloat", v, ("scalar", "flat", "tuple"))
        return c
    f = rng.choice(["text_font_size", "border_width"])
    return dict(kind="comp", comp="RTFBody", kw=[[f, {"t": "scalar", "v": jv(B.good_value(rng, B.FIELD_CLASS[f]))}]],
                extra={"pageby_row": jv(v)}, mode="hist", shapes=["scalar"], pos=["none"])


def _rule_of(slot, cls):
    """the validation rule a slot is checked by (slots of one rule are interchangeable for a value memo)"""
    if slot[0] == "page":
        f = slot[1]
        if f == "orientation":
            return "page.orientation"
        if f in ("border_first", "border_last"):
            return "page.border"
        if f in B.PAGE_STR:
            return "page.placement"
        return "page." + B.PAGE_NUM[f]
    if slot[0] == "figure":
        return "fig." + (slot[1] if slot[1] in ("fig_align", "fig_pos") else "dim")
    if slot[0] == "pageby_row":
        return "pageby_row"
    return cls


def cross_rule_triples():
    """every (rule A, rule B, value) with the value legal under A and illegal under B — strings and numbers"""
    out = []
    for kind, pool in (("str", STR_POOL), ("num", NUM_POOL)):
        rules = {}
        for s, c in _slots(kind):
            rules.setdefault(_rule_of(s, c), []).append((s, c))
        for a in rules:
            for b in rules:
                if a == b:
                    continue
                for v in pool:
                    if _slot_legal(*rules[a][0], v) and not _slot_legal(*rules[b][0], v):
                        out.append((kind, a, b, v, rules))
    return out


def gen_cross_rule_histories(seed, reps=1):
    """systematic: for every ordered pair of distinct validation rules and every pooled value legal under the first
    and illegal under the second, the value is presented to a field of the one and then of the other (both orders:
    a remembered refusal is as wrong as a remembered acceptance), then now and then to further fields"""
    out = []
    tri = cross_rule_triples()
    for rep in range(reps):
        for k, (kind, a, b, v, rules) in enumerate(tri):
            rng = sub_rng(seed, "c19hist_rule", rep, k)
            seq = [rng.choice(rules[a]), rng.choice(rules[b])]
            if (k + seed + rep) % 3 == 0:
                seq.reverse()
            for _ in range(rng.choice([0, 0, 1, 2])):
                seq.append(rng.choice(rules[rng.choice([a, b, rng.choice(sorted(rules))])]))
            calls = [_present(rng, s, cls, v) for s, cls in seq]
            out.append(dict(kind="hist", mode="hist", theme="value", scenario="cross_rule", cwd=0, files=[],
                            rules=[a, b], steps=[{"ev": "call", "call": c} for c in calls]))
    return out


VALUE_THEMES = ["cross_class_string", "cross_class_number", "equal_values", "same_field_flip", "doc_frames",
                "page_flip", "mixed"]


def _doc_case(df, body, header=None):
    return dict(kind="doc", mode="hist", rule="cols", comps=[], figure=False, df=df, body=body,
                header=header or {"flat": 1}, shaped=True)


def gen_value_history(rng, k):
    theme = VALUE_THEMES[k % len(VALUE_THEMES)]
    calls = []
    if theme in ("cross_class_string", "cross_class_number"):
        kind = "str" if theme == "cross_class_string" else "num"
        slots = _slots(kind)
        for _ in range(40):
            v = rng.choice(STR_POOL if kind == "str" else NUM_POOL)
            ok = [s for s in slots if _slot_legal(s[0], s[1], v)]
            ko = [s for s in slots if not _slot_legal(s[0], s[1], v)]
            if ok and ko:
                break
        seq = [rng.choice(ok), rng.choice(ko)] if (ok and ko) else [rng.choice(slots), rng.choice(slots)]
        if rng.random() < 0.4:
            seq.reverse()
        for _ in range(rng.randint(1, 4)):
            seq.insert(rng.randint(1, len(seq)), rng.choice(ok + ko if rng.random() < 0.7 else slots))
        calls = [_present(rng, s, cls, v) for s, cls in seq]
    elif theme == "equal_values":
        slots = _slots("num")
        vs = rng.choice(EQ_CLASSES)
        same_slot = rng.random() < 0.6
        s0 = rng.choice(slots)
        for _ in range(rng.randint(2, 6)):
            s, cls = s0 if same_slot else rng.choice(slots)
            calls.append(_present(rng, s, cls, rng.choice(vs)))
    elif theme == "same_field_flip":
        comp = rng.choice(B.TABLE_COMPS + B.TEXT_COMPS)
        f = rng.choice(B.TABLE_FIELDS if comp in B.TABLE_COMPS else B.TEXT_FIELDS)
        cls = B.FIELD_CLASS[f]
        good, bad = B.good_value(rng, cls), B.bad_value(rng, cls)
        start = rng.random() < 0.6
        for i in range(rng.randint(2, 6)):
            is_good = (i % 2 == 0) == start if rng.random() < 0.8 else rng.random() < 0.5
            v = (good if rng.random() < 0.7 else B.good_value(rng, cls)) if is_good else \
                (bad if rng.random() < 0.7 else B.bad_value(rng, cls))
            c2 = comp if rng.random() < 0.7 else rng.choice([c for c in B.TABLE_COMPS + B.TEXT_COMPS
                                                               if f in (B.TABLE_FIELDS if c in B.TABLE_COMPS else B.TEXT_FIELDS)])
            calls.append(_present(rng, ("comp", c2, f), cls, v))
    elif theme == "doc_frames":
        cols = rng.sample(B.COLS, rng.randint(2, 5))
        key = rng.choice(B.GROUP_KEYS)
        name = rng.choice(cols)
        names = [name] if rng.random() < 0.6 else rng.sample(cols, 2)
        if name not in names:
            names[rng.randrange(len(names))] = name
        without = [c for c in cols if c != name]
        bs = {key: names}
        if len(names) == 1 and rng.random() < 0.4:
            bs["_str"] = [key]
        rows = lambda: rng.choice(B.ROW_CHOICES)  # noqa: E731
        variants = []
        if rng.random() < 0.5:
            variants.append(_doc_case({"single": cols, "rows": rows()}, {"single": copy.deepcopy(bs)}))
            variants.append(_doc_case({"single": without, "rows": rows()}, {"single": copy.deepcopy(bs)}))
        else:
            # the name is a column of ANOTHER section of the same list, not of the section that groups by it
            other = rng.sample(B.COLS, rng.randint(1, 3))
            if name not in other:
                other.append(name)
            variants.append(_doc_case({"multi": [other, cols], "rows": [rows(), rows()]},
                                      {"multi": [{}, copy.deepcopy(bs)]}, {"flat": 1}))
            variants.append(_doc_case({"multi": [other, without], "rows": [rows(), rows()]},
                                      {"multi": [{}, copy.deepcopy(bs)]}, {"flat": 1}))
            if rng.random() < 0.5:  # list lengths: two frames, three bodies
                variants.append(_doc_case({"multi": [other, cols], "rows": [rows(), rows()]},
                                          {"multi": [{}, copy.deepcopy(bs), {}]}, {"flat": 1}))
        order = [0, 1] if rng.random() < 0.6 else [1, 0]
        for i in range(rng.randint(2, 5)):
            idx = order[i % 2] if rng.random() < 0.8 else rng.randrange(len(variants))
            if len(variants) > 2 and rng.random() < 0.25:
                idx = 2
            c = copy.deepcopy(variants[idx])
            c["encode"] = rng.random() < 0.5
            calls.append(c)
    elif theme == "page_flip":
        f = rng.choice(list(B.PAGE_STR) + list(B.PAGE_NUM))
        start = rng.random() < 0.6
        for i in range(rng.randint(2, 6)):
            is_good = (i % 2 == 0) == start
            if f in B.PAGE_STR:
                v = rng.choice(B.PAGE_STR[f][0 if is_good else 1])
            else:
                v = B.good_value(rng, B.PAGE_NUM[f]) if is_good else B.bad_value(rng, B.PAGE_NUM[f])
                if f in ("width", "height") and is_good:
                    v = rng.choice([8.5, 11, 11.7, 8.27, 14, 7.5])
            calls.append(dict(kind="page", kw=[[f, {"t": "scalar", "v": B.jv(v)}]], mode="hist", narrow=False))
    else:  # mixed: independent random calls of every kind, one after the other in the same process
        for _ in range(rng.randint(4, 10)):
            r = rng.random()
            mode = "bad" if r < 0.5 else ("valid" if r < 0.85 else "free")
            kind = rng.choice(["comp"] * 6 + ["page"] * 3 + ["figure"] * 2 + ["doc"] * 4)
            if kind == "comp":
                c = B.gen_comp(rng, mode)
            elif kind == "page":
                c = B.gen_page(rng, mode)
            elif kind == "figure":
                c = B.gen_figure(rng, mode)
            else:
                c = B.apply_shape(rng, B.gen_doc(rng, mode))
            calls.append(c)
    return dict(kind="hist", mode="hist", theme="value", scenario=theme, cwd=0, files=[],
                steps=[{"ev": "call", "call": c} for c in calls])


def corpus_histories():
    import json

    d = common.CORPUS / "C19"
    out = []
    if d.is_dir():
        for f in sorted(d.glob("*.json")):
            c = json.loads(f.read_text())
            if c.get("kind") == "hist":
                c.setdefault("mode", "corpus")
                c.setdefault("theme", "corpus")
                c.setdefault("scenario", f.stem)
                out.append(c)
    return out


def gen_histories(seed, tier):
    nfs, nval = (400, 350) if tier == "quick" else (6000, 5000)
    out = corpus_histories()
    out += [gen_fs_history(sub_rng(seed, "c19hist_fs", k), k) for k in range(nfs)]
    out += [gen_value_history(sub_rng(seed, "c19hist_val", k), k) for k in range(nval)]
    out += gen_cross_rule_histories(seed, 1 if tier == "quick" else 6)
    return out


# ------------------------------------------------------------------ running a history against the real code

def _spell(root, ref):
    from pathlib import Path

    form = ref.get("form", "str")
    if "rel" in ref:
        n = ref["rel"]
        return Path(n) if form == "Path" else ("./" + n if form == "dot" else n)
    d, n = ref["abs"], ref["n"]
    full = os.path.join(root, f"d{d}", n)
    if form == "Path":
        return Path(full)
    if form == "dotdot":
        return os.path.join(root, f"d{d}", "..", f"d{d}", n)
    if form == "sibling":  # relative spelling of a fixed place: the working directory is always one of root/d*
        return os.path.join("..", f"d{d}", n)
    return full


def _figure_at(root, call):
    """one `RTFFigure(figures=…)` call of a history → observation"""
    import rtflite as rtf
    import rtflite.input as inp

    kw = {}
    for k in ("fig_align", "fig_pos"):
        if k in call:
            kw[k] = B.pv(call[k])
    for k in ("fig_width", "fig_height"):
        if k in call:
            kw[k] = B.praw(call[k])
    exists = []
    if call.get("paths") is not None:
        ps = [_spell(root, r) for r in call["paths"]]
        exists = [os.path.exists(p) for p in ps]
        kw["figures"] = ps[0] if (call.get("single") and len(ps) == 1) else ps
    try:
        fig = inp.RTFFigure(**kw)
    except Exception as e:  # noqa: BLE001
        out = B._classify(e)
        out.update(stage="component", exists=exists)
        return out
    out = dict(pi="ok", exc=None, msg="", stage="done", exists=exists)
    if not all(exists):
        # an RTFFigure on a missing file: what the caller gets next ("no document object and no RTF string")
        try:
            doc = rtf.RTFDocument(rtf_figure=fig)
            try:
                s = doc.rtf_encode()
                out["after"] = f"RTFDocument(rtf_figure=…) was constructed and rtf_encode() returned {len(s)} characters"
            except Exception as e:  # noqa: BLE001
                out["after"] = (f"RTFDocument(rtf_figure=…) was constructed, too; the error surfaces only in rtf_encode(): "
                                f"{type(e).__name__}: {str(e)[:80]}")
        except Exception as e:  # noqa: BLE001
            out["after"] = f"RTFDocument(rtf_figure=…) then raised {type(e).__name__}: {str(e)[:80]}"
    return out


def _hist_worker(case):
    """→ dict(obs=[one observation per call, in order], final=[[d, name]…], cwd=…)"""
    try:
        import rtflite  # noqa: F401
    except Exception as e:  # noqa: BLE001
        return dict(unavailable=f"{type(e).__name__}: {str(e)[:200]}")
    old = os.getcwd()
    root = os.path.realpath(tempfile.mkdtemp(prefix="rtfv_c19h_"))
    obs = []
    try:
        for d in range(NDIRS):
            os.mkdir(os.path.join(root, f"d{d}"))
        for d, n in case.get("files", []):
            with open(os.path.join(root, f"d{d}", n), "wb") as f:
                f.write(CONTENT["png"])
        # the always-present file of the stateless streams (`c19._figpath`) lives inside this history's directory
        os.mkdir(os.path.join(root, "figs"))
        with open(os.path.join(root, "figs", "ok.png"), "wb") as f:
            f.write(CONTENT["png"])
        B._FIGDIR = os.path.join(root, "figs")
        os.chdir(os.path.join(root, f"d{case.get('cwd', 0)}"))
        for st in case["steps"]:
            ev = st["ev"]
            if ev == "create":
                with open(os.path.join(root, f"d{st['d']}", st["n"]), "wb") as f:
                    f.write(CONTENT[st.get("content", "png")])
            elif ev == "delete":
                try:
                    os.unlink(os.path.join(root, f"d{st['d']}", st["n"]))
                except FileNotFoundError:
                    pass
            elif ev == "rename":
                src = os.path.join(root, f"d{st['d']}", st["n"])
                if os.path.exists(src):
                    os.replace(src, os.path.join(root, f"d{st['d2']}", st["n2"]))
            elif ev == "chdir":
                os.chdir(os.path.join(root, f"d{st['d']}"))
            elif ev == "call":
                call = st["call"]
                obs.append(_figure_at(root, call) if call["kind"] == "figure_at" else B._worker(call))
            else:
                raise common.MachineryError(f"unknown history event {ev}")
        final = sorted([d, n] for d in range(NDIRS) for n in os.listdir(os.path.join(root, f"d{d}")))
        cwd = int(os.path.basename(os.getcwd())[1:])
        return dict(obs=obs, final=final, cwd=cwd)
    finally:
        os.chdir(old)
        B._FIGDIR = None
        shutil.rmtree(root, ignore_errors=True)


def run_fresh(cases):
    """every history in a fresh fork of this process (which has made no constructor call): nothing an earlier
    history left behind in a worker can decide a verdict, and a failing history replays alone"""
    import multiprocessing as mp

    cases = list(cases)
    if not cases:
        return []
    ctx = mp.get_context("fork")
    with ctx.Pool(min(common.NCPU, len(cases)), maxtasksperchild=1) as pool:
        return pool.map(_hist_worker, cases, chunksize=1)


# ------------------------------------------------------------------ model / oracle

def _ev_request(st):
    if st["ev"] != "call":
        return {k: v for k, v in st.items() if k != "content"}
    c = st["call"]
    rq = dict(ev="call")
    for k in ("fig_align", "fig_pos", "fig_width", "fig_height"):
        if k in c:
            rq[k] = c[k] if c[k] is not None else {"t": "none"}
    if c.get("paths") is not None:
        rq["paths"] = [({"abs": r["abs"], "n": r["n"]} if "abs" in r else {"rel": r["rel"]}) for r in c["paths"]]
    return rq


def requests(case):
    """driver requests of a history: one `c19_hist` for the file-system events and the `RTFFigure(figures=…)` calls,
    one stateless single-call request for every other call → (requests, plan) with plan[k] = ('hist', j) | ('one', i)"""
    steps = [st for st in case["steps"] if st["ev"] != "call" or st["call"]["kind"] == "figure_at"]
    reqs = [dict(op="c19_hist", cwd=case.get("cwd", 0), files=case.get("files", []),
                 steps=[_ev_request(st) for st in steps])]
    plan, j = [], 0
    for st in case["steps"]:
        if st["ev"] != "call":
            continue
        if st["call"]["kind"] == "figure_at":
            plan.append(("hist", j))
            j += 1
        else:
            plan.append(("one", len(reqs)))
            reqs.append(B._request(st["call"]))
    return reqs, plan


def verdicts(case, answers, plan):
    """per call: dict(model, spec[, status])"""
    out = []
    for how, i in plan:
        out.append(answers[0]["calls"][i] if how == "hist" else answers[i])
    return out


def _fmt_ref(r):
    return (f"d{r['abs']}/{r['n']}" if "abs" in r else r["rel"]) + f"<{r.get('form', 'str')}>"


def describe_call(call, status=None) -> str:
    parts = []
    for a in ("fig_align", "fig_pos"):
        if a in call:
            parts.append(f"{a}={B.pv(call[a])!r}")
    for a in ("fig_width", "fig_height"):
        if a in call:
            parts.append(f"{a}={B.praw(call[a])!r}")
    ps = call.get("paths")
    if ps is None:
        parts.append("figures=None")
    else:
        shown = [_fmt_ref(r) + (f" [{s} at this call]" if status else "") for r, s in zip(ps, status or [None] * len(ps))]
        parts.append("figures=" + (shown[0] if call.get("single") and len(ps) == 1 else "[" + ", ".join(shown) + "]"))
    return "RTFFigure(" + ", ".join(parts) + ")"


def _fmt_step(st, verdict=None, ob=None):
    ev = st["ev"]
    if ev == "create":
        return f"write d{st['d']}/{st['n']} ({st.get('content', 'png')} bytes)"
    if ev == "delete":
        return f"delete d{st['d']}/{st['n']}"
    if ev == "rename":
        return f"rename d{st['d']}/{st['n']} -> d{st['d2']}/{st['n2']}"
    if ev == "chdir":
        return f"chdir d{st['d']}"
    c = st["call"]
    txt = describe_call(c, (verdict or {}).get("status")) if c["kind"] == "figure_at" else B._describe(c)
    if len(txt) > 220:
        txt = txt[:220] + "…"
    if ob is not None:
        txt += " -> " + ("accepted" if ob["pi"] == "ok" else ob.get("exc") or ob["pi"])
    return txt


def narrative(case, vs, obs, upto):
    """the history up to and including call number `upto`, one line"""
    out, k = [f"start in d{case.get('cwd', 0)} with files " +
              (", ".join(f"d{d}/{n}" for d, n in case.get("files", [])) or "none")], 0
    for st in case["steps"]:
        if st["ev"] == "call":
            out.append(_fmt_step(st, vs[k], obs[k]))
            k += 1
            if k > upto:
                break
        else:
            out.append(_fmt_step(st))
    return "; ".join(out)


def check_machinery(case, ob, answers, plan):
    """the harness's own file-system book-keeping: the real `os.path.exists` at every call and the real directory
    listing at the end must be what the Lean state says — otherwise the history was not the one that was judged"""
    vs = verdicts(case, answers, plan)
    calls = [st["call"] for st in case["steps"] if st["ev"] == "call"]
    if len(ob["obs"]) != len(calls):
        raise common.MachineryError(f"history produced {len(ob['obs'])} observations for {len(calls)} calls")
    for c, o, v in zip(calls, ob["obs"], vs):
        if c["kind"] == "figure_at":
            want = [s != "missing" for s in v["status"]]
            if o.get("exists") != want:
                raise common.MachineryError(f"history book-keeping: os.path.exists {o.get('exists')} != model state "
                                            f"{v['status']} at {describe_call(c)} in {case}")
    fin = answers[0]["final"]
    if sorted(fin["files"]) != sorted(ob["final"]) or fin["cwd"] != ob["cwd"]:
        raise common.MachineryError(f"history book-keeping: final state {ob['final']} cwd {ob['cwd']} != model {fin} in {case}")
    return vs


def judge_history(case, ob, vs):
    """→ (failures, disagreements): lists of (call index, why); every call judged by `c19.judge` against the
    specification verdict / the model outcome of the state at that call"""
    fails, dis = [], []
    calls = [st["call"] for st in case["steps"] if st["ev"] == "call"]
    for k, (c, o, v) in enumerate(zip(calls, ob["obs"], vs)):
        t = common.Result("C19", "quick", 0)
        if c["kind"] == "figure_at":
            c = dict(c, _status=v.get("status"))
        B.judge(t, c, o, v)
        for _, why in t.failures:
            if o.get("after"):
                why += "; " + o["after"]
            fails.append((k, why))
        for _, why in t.disagreements:
            dis.append((k, why))
        if (c["kind"] == "doc" and v.get("stage") and o["pi"] != "ok" and v["model"] != "ok"
                and v["stage"] != o["stage"]):
            dis.append((k, f"{B._describe(c)}: exception raised at stage {o['stage']}, model says {v['stage']}"))
    return fails, dis


def evaluate(cases):
    """run histories (fresh process each) and the model → [(case, ob, vs, fails, dis)]"""
    obs = run_fresh(cases)
    bad = next((o["unavailable"] for o in obs if "unavailable" in o), None)
    if bad:
        raise common.MachineryError("rtflite cannot be imported: " + bad)
    reqs, spans = [], []
    for c in cases:
        r, plan = requests(c)
        spans.append((len(reqs), len(r), plan))
        reqs += r
    ans = common.driver_batch(reqs)
    out = []
    for c, o, (a, n, plan) in zip(cases, obs, spans):
        vs = check_machinery(c, o, ans[a:a + n], plan)
        f, d = judge_history(c, o, vs)
        out.append((c, o, vs, f, d))
    return out


def _truncate(case, k):
    """the history up to and including call number k"""
    steps, n = [], 0
    for st in case["steps"]:
        steps.append(st)
        if st["ev"] == "call":
            if n == k:
                break
            n += 1
    return dict(case, steps=steps)


def shrink(case, k, want_fail=True):
    """drop steps while the LAST call keeps failing (each attempt in a fresh process)"""
    cur = _truncate(case, k)

    def still(c):
        (_, _, _, f, d), = evaluate([c])
        last = sum(1 for st in c["steps"] if st["ev"] == "call") - 1
        return any(i == last for i, _ in (f if want_fail else d))

    if not still(cur):
        return case, k

    def drop_steps(cur):
        i = len(cur["steps"]) - 2
        while i >= 0:
            cand = dict(cur, steps=cur["steps"][:i] + cur["steps"][i + 1:])
            try:
                if still(cand):
                    cur = cand
            except common.MachineryError:
                pass
            i -= 1
        return cur

    cur = drop_steps(cur)
    # files of the initial state nobody needs
    for f in list(cur.get("files", [])):
        cand = dict(cur, files=[g for g in cur["files"] if g != f])
        try:
            if still(cand):
                cur = cand
        except common.MachineryError:
            pass
    cur = drop_steps(cur)
    # the last call itself: one path at a time
    last = cur["steps"][-1]["call"]
    if last.get("kind") == "figure_at" and last.get("paths") and len(last["paths"]) > 1:
        for r in last["paths"]:
            cand = dict(cur, steps=cur["steps"][:-1] + [{"ev": "call", "call": dict(last, paths=[r])}])
            if still(cand):
                cur = cand
                break
    return cur, sum(1 for st in cur["steps"] if st["ev"] == "call") - 1


def _shared(a, b):
    """do two figure calls name a common file spelling-independently (same ref up to `form`)?"""
    ka = {(r.get("abs"), r.get("n"), r.get("rel")) for r in a.get("paths") or []}
    kb = {(r.get("abs"), r.get("n"), r.get("rel")) for r in b.get("paths") or []}
    return bool(ka & kb)


def _values(call):
    """the scalar values a stateless call presents (for the 'same value again' transition count)"""
    out = set()
    for _, raw in call.get("kw", []):
        t = raw.get("t")
        if t == "scalar":
            out.add(repr(raw["v"]))
        elif t in ("flat", "tuple"):
            out |= {repr(x) for x in raw["v"]}
        elif t == "nested":
            out |= {repr(x) for row in raw["v"] for x in row}
    for k in ("fig_align", "fig_pos"):
        if k in call:
            out.add(repr(call[k]))
    return out


def run(res):
    """the history part of `./check C19`"""
    cases = gen_histories(res.seed, res.tier)
    results = evaluate(cases)
    first_fail = first_dis = None
    more_fail, more_dis = [], []
    for c, o, vs, fails, dis in results:
        calls = [st["call"] for st in c["steps"] if st["ev"] == "call"]
        key = None
        if any(v["spec"] != "free" for v in vs):
            key = ("hist", c["theme"], c["scenario"], tuple((cl["kind"], v["spec"]) for cl, v in zip(calls, vs)),
                   repr(c["steps"])[:300])
        res.case(c, key)
        res.count(f"hist:{c['theme']}:{c['scenario']}")
        if c.get("rules"):
            res.count(f"hist_cross_rule:{c['rules'][0]}->{c['rules'][1]}")
        res.count("hist_calls", len(calls))
        res.corr_checked += len(calls)
        for st in c["steps"]:
            if st["ev"] != "call":
                res.count(f"hist_event:{st['ev']}" + (f":{st.get('content')}" if st["ev"] == "create" else ""))
        prev_fig = prev_val = None
        for cl, v in zip(calls, vs):
            res.count(f"hist_call:{cl['kind']}:{v['spec']}")
            if cl["kind"] == "figure_at":
                for r in cl.get("paths") or []:
                    res.count(f"hist_path:{'rel' if 'rel' in r else 'abs'}:{r.get('form', 'str')}")
                ps = cl.get("paths")
                res.count("hist_figures_arg:" + ("None" if ps is None else "scalar" if cl.get("single") and len(ps) == 1
                                                 else f"list{len(ps)}"))
                for s in v.get("status", []):
                    res.count(f"hist_path_status:{s}")
                if prev_fig is not None and _shared(prev_fig[0], cl):
                    res.count(f"hist_same_path_again:{prev_fig[1]}->{v['spec']}")
                prev_fig = (cl, v["spec"])
            else:
                if prev_val is not None and (_values(prev_val[0]) & _values(cl)):
                    res.count(f"hist_same_value_again:{prev_val[1]}->{v['spec']}")
                prev_val = (cl, v["spec"])
        if fails and first_fail is None:
            first_fail = (c, o, vs, fails)
        elif fails:
            k, why = fails[0]
            more_fail.append((c, f"call {k + 1} of a history: {why}"))
        if dis and first_dis is None:
            first_dis = (c, o, vs, dis)
        elif dis:
            k, why = dis[0]
            more_dis.append((c, f"call {k + 1} of a history: {why}"))
    if first_fail is not None:
        c, o, vs, fails = first_fail
        k, _ = fails[0]
        small, k2 = shrink(c, k, want_fail=True)
        (_, o2, vs2, f2, _), = evaluate([small])
        hit = [w for i, w in f2 if i == k2] or [fails[0][1]]
        if not f2:
            small, o2, vs2, k2 = c, o, vs, k
        small = dict(small, failing_call=k2)
        res.failures.append((small, f"call {k2 + 1} of a history in one process, judged against the file system / "
                                       f"arguments AT THAT CALL: {hit[0]}. History: {narrative(small, vs2, o2['obs'], k2)}"))
    if first_dis is not None:
        c, o, vs, dis = first_dis
        k, why = dis[0]
        small, k2 = shrink(c, k, want_fail=False)
        (_, o2, vs2, _, d2), = evaluate([small])
        hit = [w for i, w in d2 if i == k2] or [why]
        if not d2:
            small, o2, vs2, k2 = c, o, vs, k
        res.disagreements.append((dict(small, failing_call=k2),
                                  f"call {k2 + 1} of a history: {hit[0]}. History: {narrative(small, vs2, o2['obs'], k2)}"))
    res.failures.extend(more_fail)
    res.disagreements.extend(more_dis)


def settle_standalone(res, n_std):
    """The stateless streams run many calls per worker process.  A call that failed there is re-run ALONE in a fresh
    process: if it does not fail alone, the failure needed the calls made before it in that worker (a remembered
    verdict) — it stays a failure, but the self-contained histories (which replay) are reported first."""
    std, hist = res.failures[:n_std], res.failures[n_std:]
    if not std:
        return
    head = std[:6]
    one = [dict(kind="hist", mode="hist", theme="value", scenario="alone", cwd=0, files=[],
                steps=[{"ev": "call", "call": c}]) for c, _ in head]
    stable, unstable = [], []
    for (c, why), (_, _, _, f, _) in zip(head, evaluate(one)):
        if f:
            stable.append((c, why))
        else:
            res.count("standalone_failure_not_reproduced_alone")
            unstable.append((c, why + " — observed after other constructor calls in the same worker process; the same "
                                      "call ALONE in a fresh process does not fail: the verdict depends on the calls "
                                      "made before it"))
    res.failures[:] = stable + (std[6:] if stable else []) + hist + unstable + ([] if stable else std[6:])


def replay_case(case) -> int:
    (_, o, vs, fails, dis), = _evaluate_inprocess([case])
    calls = [st["call"] for st in case["steps"] if st["ev"] == "call"]
    print("history (one process):")
    print("  start in d%d with files %s" % (case.get("cwd", 0), case.get("files", [])))
    k = 0
    for st in case["steps"]:
        if st["ev"] == "call":
            print(f"  call {k + 1}: {_fmt_step(st, vs[k], o['obs'][k])}    [model {vs[k]['model']}, "
                  f"specification verdict {vs[k]['spec']}]")
            k += 1
        else:
            print("  " + _fmt_step(st))
    for i, why in fails:
        print(f"FAIL (call {i + 1} of {len(calls)}):", why)
    for i, why in dis:
        print(f"DISAGREE (call {i + 1} of {len(calls)}):", why)
    if fails:
        print("VIOLATION property=C19 replay=<given>")
        return 1
    if dis:
        print("VIOLATION property=C19 replay=<given> no-failing-input-found")
        return 1
    print("property holds on this history")
    return 0


def _evaluate_inprocess(cases):
    """as `evaluate`, in this (fresh) interpreter — the replay path"""
    out = []
    for c in cases:
        o = _hist_worker(c)
        if "unavailable" in o:
            raise common.MachineryError("rtflite cannot be imported: " + o["unavailable"])
        reqs, plan = requests(c)
        vs = check_machinery(c, o, common.driver_batch(reqs), plan)
        f, d = judge_history(c, o, vs)
        out.append((c, o, vs, f, d))
    return out
