"""C03 — no page exceeds the nrow row budget.

Theorems: lean/Props/C03.lean (greedy-fill load bound `C03_load`, the budget with explicit excess terms
`C03_budget`, `C03_lines_cover`, `C03_partial`, and `C03_witness : ¬ C03_full`).
Oracle on the implementation (independent of the model): for every observed page
   #column-header rows + #group heading rows (spanning rows, subline heading) + Σ data rows' line lower bound
   + #table-rendered footnote/source rows  ≤  nrow,
unless the page holds a single data row.  The line lower bound of a data row is
max over its cells of ⌈width(text shown in the cell, the cell's font, the cell's size) / the column's width⌉,
measured here with Pillow directly, the font file opened at the cell's exact size (`true_width`; not rtflite's own
get_string_width, which the pagination under test uses too), on the text read back from the output — not rtflite's
own estimate, and whatever the dtype of the column.  The fit stream (gen_fit) places cells 0.05–0.2 % above (and
below) a whole multiple of their column's width at sizes 6..24, so that the last per-mille of the measurement at the
cell's OWN size decides the row's line count.
Group values need not be visible texts: '' / blanks give a blank spanning row, which is a row of the page like any
other (counted from the OUTPUT); the edge stream (gen_edge) draws them, with documents whose groups do not straddle
pages, so that an unreserved heading row cannot hide behind a continuation heading.
Known findings (known_findings.json): D3 auto-populated headers are rendered but not reserved; D4 page_by heading
rows are reserved once per group start but rendered per level and again on every continuation page.  A page is
excused only while its excess is within what the listed findings explain for that very page.
"""
from __future__ import annotations

import math

from .. import common, docgen, laygen, layfamily, rtfread
from . import c14_fit

MANIFEST = dict(
    text="Lean theorems over the pagination + layout model for every table: the reserved load of a page never exceeds "
         "max(1, nrow − reserved components) unless the page holds one row (greedy-fill invariant, induction over "
         "rows), every rendered page satisfies rows ≤ nrow + (headers rendered but not reserved) + (heading rows "
         "rendered beyond those reserved), the line estimate covers the text width, and the full statement is "
         "refuted by two concrete witnesses (recorded as known findings). Tied to the code by observation over body "
         "fonts 1..10, sizes 6..24, all strategies and reservations, with data columns of every rendered dtype "
         "(strings, integers, floats, booleans, dates, datetimes, times, decimals, categoricals, nulls) holding the "
         "row's tallest cell, and with group values of the edge family ('', blanks, null, '-----', 'None', 'nan', "
         "numbers, booleans, the column's name, wrapping texts) at every page_by / subline_by level, in documents "
         "whose groups do and do not straddle pages (a blank spanning row is a row), and with cells whose exact width "
         "at their own font (1..10) and size (6..24; scalar, per column, per row) lies 0.05–0.2 % beside a whole "
         "multiple of their column's width.",
    note="The unchanged code violates C03 in two recorded classes (auto headers, page_by heading rows); the check "
         "prints KNOWN-FINDING for them and reports any excess beyond what they explain. Pillow widths are measured by "
         "the oracle itself (font file opened at the exact size), independently of rtflite.get_string_width; "
         "the text measured for a data cell is the text the real output shows in that cell (read back from the RTF), "
         "at the cell's own font, size and relative column width.",
    technique="Lean 4 proof (accumulator invariant of the greedy fill + reservation accounting) + observation oracle "
              "with explained-deviation known findings",
    design="7/C03",
)

RULE = ("single-section tagged tables, 0..60 rows with 1..4-line rows produced by text width at the body's font (1..10) "
        "and size (6..24), nrow 1..50, explicit / default / multi-row / absent headers, footnote and source in every "
        "form and placement, all strategies; plus tables whose data columns have non-string dtypes (Int64 / Int8 / "
        "UInt64 / Float64 / Float32 / Boolean / Date / Datetime / Time / Decimal / Categorical, with nulls) in their "
        "unformatted display forms (unrounded floats, 19-digit integers, microsecond timestamps), per-column fonts and "
        "sizes, equal and unequal col_rel_width, portrait / landscape / narrow col_width, so that the tallest cell "
        "of a row (1..6 lines) is a cell of each of those dtypes; plus grouped tables under every grouping strategy "
        "whose page_by / subline_by VALUES come from the edge family — '' and blanks (a blank spanning row is rendered), "
        "null, the '-----' divider, 'None' / 'nan' / 'null', numeric and boolean texts and genuinely numeric / boolean "
        "key columns, the column's own name, values long enough to wrap — at every level and for first / middle / last "
        "groups, a third of them with groups tiled so that none straddles a page (pages start at a group start and are "
        "filled to exactly nrow: no continuation heading could explain an excess); spanning rows of such documents are "
        "recognised by elimination (every other row is tagged), whatever they show; plus fitted tables: fonts 1..10, sizes "
        "6 / 7 / 8 / 10 / 11 / 12 / 14 / 18 / 24 (and 9, 6.5, 7.5, 16, 20) as scalar, per-column and per-row attributes, "
        "equal and unequal col_rel_width, portrait / landscape / col_width 0.9275..5.5, in which a third to nine tenths "
        "of the rows hold a cell whose exact Pillow width at its own font and size is k·(column width)·(1 + m), k = 1..4, "
        "m in 0.05 %..0.2 % (some with −m), enough of them to fill pages, under per-row sizes most of them also standing "
        "in an earlier row of the same column at another size; non-trivial = ≥ 2 pages with at least one page filled to within one row "
        "of its capacity; distinct by (strategy, nrow, font, size, rows per page)")


def true_width(text, font, size) -> float:
    """width (inches) of `text` in the metric-compatible file of RTF font `font`, opened by Pillow AT THE EXACT SIZE
    `size` — the measurement the statement's 'lines a cell needs at its own font and size' refers to.  Pillow is called
    directly (c14_fit): the oracle does not share rtflite's own `get_string_width` with the pagination it judges, so a
    measurement that drifts from the real one (another size, a scaled reference size, a cached font of another
    document) shows as pages holding more lines than nrow."""
    if not text:
        return 0.0
    if not isinstance(font, int):
        from rtflite.fonts_mapping import FontMapping

        font = FontMapping.get_font_name_to_number_mapping()[font]
    return c14_fit.width_in(text, font, size)


def line_lower_bound(spec, info, i, shown=None):
    """⌈width / column width⌉ of the row's widest cell, every cell at its own font, size and column width.  The text
    of a cell is the text the OUTPUT shows in it (`shown`, read back from the real RTF: whatever the dtype of the
    column — string, integer, float, boolean, date, … — and however the renderer formats it), else the display
    text computed from the frame (null → '')."""
    cols = spec["df"]["cols"]
    r = spec["df"]["rows"][i]
    nd = len(info["displayed"])
    rel = laygen.displayed_rel(spec, info)
    rel_sum = sum(rel)
    if shown is not None and len(shown) != nd:
        shown = None
    lb = 1
    for k, c in enumerate(info["displayed"]):
        ci = cols.index(c)
        v = r[ci]
        t = shown[k] if shown is not None else ("" if v is None else docgen.cell_str(spec["df"], ci, v))
        cw = info["col_total"] * rel[k] / rel_sum
        body = spec.get("body") or {}
        w = true_width(t, laygen.attr_at(body.get("text_font"), i, ci, 1),
                       laygen.attr_at(body.get("text_font_size"), i, ci, 9))
        lb = max(lb, math.ceil(w / cw - 1e-9))
    return lb


# ---- cells whose width sits just beside a whole multiple of their column's width, at the cell's own font and size
FIT_SIZES = [6, 7, 8, 10, 11, 12, 14, 18, 24, 9, 7.5, 6.5, 16, 20]
FIT_MARGIN = (0.0005, 0.0020)        # relative distance from the edge k·cw: unambiguous for the exact measurement
                                     # (floats: 1e-16), inside any measurement drift of the order of 0.1 %


def fit_cell(rng, tag, k, cw, font, size, side=1):
    """text starting with `tag` whose exact Pillow width at (font, size) is k·cw·(1 ± m), m within FIT_MARGIN
    (`side` = +1: just above the edge, k + 1 lines; −1: just below, k lines).  None if the quantised advances of the
    font at that size do not allow it within a few draws."""
    lo, hi = FIT_MARGIN
    mid = (lo + hi) / 2
    prefix = tag + " "
    wp = c14_fit.width_in(prefix, font, size)
    target = k * cw * (1 + side * mid)
    if target - wp < 4 * size / 72.0:
        return None
    for _ in range(3):
        t, _w = c14_fit.fit_text(rng, font, size, target - wp, tol=(hi - lo) / 2 * 0.6)
        t = prefix + t
        d = side * (c14_fit.width_in(t, font, size) / (k * cw) - 1)
        if lo <= d <= hi:
            return t
    return None


def fit_columns(rng, spec, info):
    """Per-column fonts and sizes (sizes other than the default 9 first), and in many rows one cell fitted with
    `fit_cell` just above k·(its column's width), k = 1..4 — a row of k + 1 lines that any measurement smaller by
    0.05–0.2 % counts as k lines; some cells just below the edge (k lines, k + 1 for a larger measurement)."""
    cols = spec["df"]["cols"]
    rows = spec["df"]["rows"]
    first = len(info["hier"]) + len([c for c in cols if c.startswith("COLG")])
    ncols = len(cols)
    body = spec["body"]
    mode = rng.choice(["scalar", "columns", "rows"])
    if mode == "scalar":
        sizes = [info["size"]] * ncols
        fonts = [info["font"]] * ncols
        body["text_font_size"], body["text_font"] = info["size"], info["font"]
    else:
        sizes = [rng.choice(FIT_SIZES[:9]) for _ in range(ncols)]
        fonts = [rng.choice([info["font"], rng.randint(1, 10)]) for _ in range(ncols)]
        body["text_font_size"], body["text_font"] = list(sizes), list(fonts)
    rsz = None
    if mode == "rows" and rows:
        # matrix attributes: the size of a cell is its ROW's entry
        rsz = [[rng.choice(FIT_SIZES[:9]) for _ in range(ncols)] for _ in range(len(rows))]
        body["text_font_size"] = rsz
    if len(info["displayed"]) > 1 and rng.random() < 0.5:
        rel = [1] * ncols
        for j in range(ncols):
            rel[j] = rng.choice([0.5, 0.75, 1, 1, 1.5, 2])
        body["col_rel_width"] = rel
    rel = laygen.displayed_rel(spec, info)
    width = {c: info["col_total"] * rel[k] / sum(rel) for k, c in enumerate(info["displayed"])}
    datacols = [j for j in range(first, ncols) if cols[j] in width]
    p = rng.choice([0.35, 0.6, 0.9])
    p_below = rng.choice([0.0, 0.15])
    kmax = rng.choice([1, 1, 2, 4])
    done = {}
    pool = {}
    fitted = set()
    for i, r in enumerate(rows):
        if not datacols or rng.random() >= p:
            continue
        j = rng.choice(datacols)
        sz = rsz[i][j] if rsz else sizes[j]
        k = rng.randint(1, kmax)
        side = -1 if rng.random() < p_below else 1
        tag = f"r{i}c{j - first}"
        key = (j, sz, k, side)
        if key in pool and rng.random() < 0.5 and j != first:
            t = pool[key]                      # the same text again further down the column (no tag: not column 0)
        else:
            t = fit_cell(rng, tag, k, width[cols[j]], fonts[j], sz, side)
            if t is None:
                continue
            if j != first:
                t = t[len(tag) + 1:] if rng.random() < 0.3 and fit_ok(t[len(tag) + 1:], k, width[cols[j]], fonts[j], sz, side) else t
                pool[key] = t
        r[j] = t
        if rsz and j != first and i and rng.random() < 0.8:
            # the same text stands in an EARLIER row of the column at another size (there it is nowhere near an edge):
            # the line count of row i is that of the text at row i's size, whatever was measured before
            cand = [a for a in range(i) if rsz[a][j] != sz and (a, j) not in fitted]
            i0 = rng.choice(cand) if cand else 0
            s0 = rsz[i0][j]
            w0 = c14_fit.width_in(t, fonts[j], s0) / width[cols[j]]
            if cand and w0 < 5.9 and abs(w0 - round(w0)) > 0.01:
                rows[i0][j] = t
                fitted.add((i0, j))
                done["seen-before-at-another-size"] = done.get("seen-before-at-another-size", 0) + 1
        fitted.add((i, j))
        lab = ("above" if side > 0 else "below") + f":k={k}"
        done[lab] = done.get(lab, 0) + 1
        done[f"size:{sz:g}"] = done.get(f"size:{sz:g}", 0) + 1
        done[f"font:{fonts[j]}"] = done.get(f"font:{fonts[j]}", 0) + 1
    info["fit"] = dict(mode=mode, cells=done)


def fit_ok(t, k, cw, font, size, side):
    d = side * (c14_fit.width_in(t, font, size) / (k * cw) - 1)
    return FIT_MARGIN[0] <= d <= FIT_MARGIN[1]


# ---- typed data columns: every dtype the library renders can hold the row's tallest cell
TYPED_KINDS = ["Int64", "Int8", "UInt64", "Float64", "Float32", "Boolean", "Date", "Datetime", "Time", "Decimal:6",
               "Categorical"]
_SHORT = ("Boolean", "Int8", "Date", "Time")
_SIZES = [24, 18, 14, 12, 10, 9, 8, 7.5, 6]
_PHRASES = ["not evaluable at this visit", "see listing 16.2.7", "a somewhat longer remark that wraps in a narrow column"]


def typed_value(rng, dt, wide):
    """JSON cell of dtype dt; `wide`: the long display forms of the dtype (unrounded floats, large integers,
    microsecond timestamps, …) — what a column of real numbers / dates looks like when nobody formatted it"""
    if dt == "Int64":
        return rng.choice([-1, 1]) * rng.randrange(10 ** 11, 9 * 10 ** 18) if wide else rng.randint(-99, 999)
    if dt == "Int8":
        return rng.randint(-128, -100) if wide else rng.randint(0, 99)
    if dt == "UInt64":
        return rng.randrange(10 ** 15, 18 * 10 ** 18) if wide else rng.randint(0, 500)
    if dt == "Float64":
        if not wide:
            return round(rng.uniform(-100, 100), 1)
        return rng.choice([rng.random(), rng.randint(1, 50) / 3, 0.1 + 0.2, rng.uniform(-1e6, 1e6),
                           rng.random() * 1e-7, rng.random() * 1e22, -rng.randint(1, 7) / 7])
    if dt == "Float32":
        return rng.choice([0.1, 0.2, 0.3, rng.random(), rng.randint(1, 50) / 3]) if wide \
            else rng.choice([0.5, 2.5, -1.25, 8.0, 100.0])
    if dt == "Boolean":
        return rng.random() < 0.5
    if dt == "Date":
        return "%04d-%02d-%02d" % (rng.randint(1990, 2030), rng.randint(1, 12), rng.randint(1, 28))
    if dt == "Datetime":
        d = "%04d-%02d-%02d" % (rng.randint(1990, 2030), rng.randint(1, 12), rng.randint(1, 28))
        if not wide:
            return d + "T00:00:00"
        return d + "T%02d:%02d:%02d.%06d" % (rng.randint(0, 23), rng.randint(0, 59), rng.randint(0, 59),
                                             rng.randint(1, 999999))
    if dt == "Time":
        t = "%02d:%02d:%02d" % (rng.randint(0, 23), rng.randint(0, 59), rng.randint(0, 59))
        return t + ".%06d" % rng.randint(1, 999999) if wide else t
    if dt.startswith("Decimal"):
        k = int(dt.split(":")[1])
        whole = rng.randrange(10 ** 12, 10 ** 16) if wide else rng.randint(0, 99)
        return "%d.%0*d" % (whole, k, rng.randrange(10 ** k))
    if dt == "Categorical":
        return rng.choice(_PHRASES) if wide else rng.choice(["x", "ok", "n/a"])
    raise ValueError(dt)


def typed_columns(rng, spec, info):
    """Turn the data columns after the first (which keeps the row tags) into columns of non-string dtypes, with
    per-column font sizes / fonts and (half of the documents) unequal col_rel_width, such that in many rows the
    tallest cell is a cell of a typed column.  Row heights stay within 1..6 lines."""
    cols = spec["df"]["cols"]
    rows = spec["df"]["rows"]
    first = len(info["hier"])
    ncols = len(cols)
    body = spec["body"]
    typed = {}
    kinds = list(TYPED_KINDS)
    rng.shuffle(kinds)
    for n_, j in enumerate(range(first + 1, ncols)):
        typed[cols[j]] = kinds[n_ % len(kinds)]
    spec["df"]["dtypes"] = dict(typed)
    if rng.random() < 0.5:
        rel = [1] * ncols
        rel[first] = rng.choice([1, 2, 3])
        for j in range(first + 1, ncols):
            rel[j] = rng.choice([0.5, 0.75, 1, 1, 1.5])
            if typed[cols[j]] in _SHORT and rng.random() < 0.6:
                rel[j] = rng.choice([0.2, 0.3, 0.5])      # 'True', '-128', a date: tall only in a narrow column
        body["col_rel_width"] = rel
    rel = laygen.displayed_rel(spec, info)
    width = {c: info["col_total"] * rel[k] / sum(rel) for k, c in enumerate(info["displayed"])}
    sizes = [info["size"]] * ncols
    fonts = [info["font"]] * ncols
    for j in range(first + 1, ncols):
        fonts[j] = rng.choice([info["font"], rng.randint(1, 10)])
        sizes[j] = rng.choice([24, 18, 14, 12, 9, 9, 7.5, 6])
    wide_p = rng.choice([0.15, 0.3, 0.6])
    for i, r in enumerate(rows):
        r[first] = f"r{i}c0"
        jw = rng.randrange(first + 1, ncols) if rng.random() < wide_p else None
        for j in range(first + 1, ncols):
            r[j] = None if rng.random() < 0.08 else typed_value(rng, typed[cols[j]], j == jw)
    # keep every typed cell within 6 lines: step the column's size down
    for j in range(first + 1, ncols):
        def worst(sz):
            return max([laygen.measure(docgen.cell_str(spec["df"], j, r[j]), fonts[j], sz) for r in rows] or [0.0])
        if typed[cols[j]] in _SHORT and rng.random() < 0.6:
            # dtypes whose display text is always short: wrap them through the size of the column's font
            fit = [sz for sz in _SIZES if 1.1 * width[cols[j]] < worst(sz) <= 5.8 * width[cols[j]]]
            if fit:
                sizes[j] = rng.choice(fit)
        k = _SIZES.index(sizes[j])
        while worst(_SIZES[k]) > 5.8 * width[cols[j]] and k + 1 < len(_SIZES):
            k += 1
        sizes[j] = _SIZES[k]
    body["text_font_size"] = sizes
    body["text_font"] = fonts
    # which dtypes hold the strictly tallest cell of some row (≥ 2 lines)
    tallest = set()
    for i, r in enumerate(rows):
        ln = {}
        for c in info["displayed"]:
            j = cols.index(c)
            t = "" if r[j] is None else docgen.cell_str(spec["df"], j, r[j])
            ln[c] = max(1, math.ceil(laygen.measure(t, fonts[j], sizes[j]) / width[c] - 1e-9))
        top = max(ln.values())
        if top >= 2:
            tops = [c for c in ln if ln[c] == top]
            if all(c in typed for c in tops):
                tallest.update(typed[c] for c in tops)
    info["typed"] = typed
    info["typed_tallest"] = sorted(tallest)
    info["col_rel"] = body.get("col_rel_width")


class C03(layfamily.Family):
    prop, tag = "C03", "c03"

    BASE = dict(quick=300, thorough=4000)
    TYPED = dict(quick=120, thorough=1200)

    EDGE = dict(quick=240, thorough=2400)
    FIT = dict(quick=200, thorough=2000)

    def ndocs(self, tier):
        t = "quick" if tier == "quick" else "thorough"
        return self.BASE[t] + self.TYPED[t] + self.EDGE[t] + self.FIT[t]

    def gen_fit(self, rng, k, tier):
        """documents k ≥ BASE + TYPED + EDGE: body sizes 6..24 (scalar, per column, per row) and fonts 1..10 with cells
        whose exact width at the cell's own font and size is 0.05–0.2 % above (some: below) a whole multiple of the
        cell's column width — the line count of such a row is decided by the last per-mille of the measurement"""
        font = rng.randint(1, 10)
        size = rng.choice(FIT_SIZES)
        hm = ["explicit", "none", "explicit2", "no_colheader", "explicit", "default"][k % 6]
        # two of three documents have no component a known finding could explain an excess with (unless hm = default)
        strategy = rng.choice(["plain", "plain", "subline"]) if k % 3 else None
        geometry = rng.choice([None, None, "landscape", dict(col_width=rng.choice([0.9275, 1.5, 2.5, 3.5, 4.5, 5.5]))])
        nrow = rng.randint(4, 40)
        spec, info = laygen.gen_spec(rng, strategy=strategy, header_mode=hm, n=rng.randint(nrow, min(60, 3 * nrow + 6)),
                                     nrow=nrow, font=font, size=size,
                                     ndata=rng.choice([1, 2, 2, 3, 4]), geometry=geometry, long_rows=False)
        fit_columns(rng, spec, info)
        return spec, info

    def gen_edge(self, rng, k, tier):
        """documents k ≥ BASE + TYPED: group VALUES of the edge family ('', blanks, null, '-----', 'None', 'nan',
        numeric / boolean texts and columns, the column's own name, headings that wrap) at every level of page_by /
        subline_by, for first / middle / last groups, under every grouping strategy; a third of them with groups
        that do NOT straddle pages (laygen.aligned_keys), so that a page's excess can only come from its own rows"""
        font = rng.choice([1, 1, 1, 4, 9])
        size = rng.choice([9, 9, 9, 8, 10])
        # three of four documents have no auto-populated header (the known finding D3 could explain one row with it)
        hm = ["explicit", "none", "explicit2", "default", "no_colheader", "explicit", "explicit2", "none"][k % 8]
        if k % 3 == 0:
            strategy = ["page_by", "page_by", "page_by_np_first", "subline_page_by"][(k // 3) % 4]
            nrow = rng.randint(5, 24)
            # mostly documents whose every reserved row is also rendered on every page (header repeated, footnote /
            # source as table rows on all pages), so that exactly filled pages show exactly nrow rows
            exact = k % 4 != 3
            spec, info = laygen.gen_spec(rng, strategy=strategy, header_mode=hm, n=rng.randint(nrow, 4 * nrow),
                                         nrow=nrow, long_rows=False, levels=1, font=font, size=size,
                                         footnote=rng.choice(["absent", "table"]) if exact else None,
                                         source=rng.choice(["absent", "absent", "table"]) if exact else None,
                                         placements=(rng.choice(["first", "last", "all"]), "all", "all") if exact else None,
                                         pageby_header=True if exact else None)
            laygen.aligned_keys(rng, spec, info)
        else:
            strategy = ["page_by", "page_by_np_first", "subline_page_by", "subline", "page_by", "page_by_np"][(k // 3) % 6]
            spec, info = laygen.gen_spec(rng, strategy=strategy, header_mode=hm, n=rng.randint(2, 60),
                                         nrow=rng.randint(3, 30), long_rows=(k % 2 == 0), dividers=(k % 5 == 0),
                                         font=font, size=size)
            laygen.edge_keys(rng, spec, info)
        return spec, info

    def worker_extra(self, spec, info, ob):
        """what the real output showed of the edge-valued groups: which kinds of value got a spanning row, and on which
        kinds of page — `tight-unexcused`: the page starts at a group start (no continuation heading), has no
        auto-populated header, renders no more headings than it has group starts, and is filled to exactly nrow —
        one row more on such a page is a violation nothing explains"""
        if not info.get("edge_keys"):
            return None
        out = set()
        cols, rows = spec["df"]["cols"], spec["df"]["rows"]
        pb = info["page_by"] or []
        idx = [cols.index(c) for c in pb]

        def key(i):
            return [str(rows[i][j]) for j in idx]
        for blocks in ob["pages"]:
            for b in blocks:
                if b[0] == "heading":
                    out.add("edge-heading-rendered:" + (laygen.edge_kind(b[2], None) or
                                                        ("number" if laygen._NUMKEY.match(b[2]) else "tagged")))
                elif b[0] == "sublineHeading" and not b[1].startswith("SB"):
                    out.add("edge-subline-heading-rendered:" + (laygen.edge_kind(b[1], None) or "other"))
            data = [b[1] for b in blocks if b[0] == "data" and b[1] < len(rows)]
            if not pb or len(data) < 2 or info["header_mode"] == "default":
                continue
            starts = [i for i in data if i == 0 or key(i) != key(i - 1)]
            nspan = sum(1 for b in blocks if b[0] == "heading")
            if data[0] not in starts or nspan > len(starts):
                continue
            tot = (sum(1 for b in blocks if b[0] in ("colHeader", "heading", "sublineHeading"))
                   + sum(1 for b in blocks if b[0] in ("footnote", "source") and b[1] is True) + len(data))
            kinds = {laygen.edge_kind(rows[i][j], c) for i in starts for j, c in zip(idx, pb)} - {None}
            if tot == info["nrow"]:
                out.add("edge-tight-unexcused-page")
                out.update("edge-tight-unexcused-page-with-group:" + str(kd) for kd in kinds)
        return sorted(out)

    def gen_typed(self, rng, k, tier):
        """documents k ≥ BASE: data columns of every rendered dtype (integers, floats, booleans, dates, datetimes,
        times, decimals, categoricals; nulls in between), each at its own size / font / relative width"""
        font = rng.choice([1, 1, 2, 3, 4, 5, 6, 7, 8, 9, 10])
        size = rng.choice([9, 9, 6, 7.5, 8, 10, 12])
        hm = ["explicit", "explicit2", "none", "default", "no_colheader"][k % 5]
        # every other document has no component a known finding could explain an excess with (unless hm = default)
        strategy = rng.choice(["plain", "plain", "subline"]) if k % 2 == 0 else None
        geometry = rng.choice([None, None, "landscape", dict(col_width=rng.choice([3.5, 4.5, 5.5]))])
        spec, info = laygen.gen_spec(rng, strategy=strategy, header_mode=hm, n=rng.randint(4, 60),
                                     nrow=rng.randint(4, 40), font=font, size=size, ndata=rng.randint(2, 5),
                                     geometry=geometry, long_rows=(k % 4 == 1))
        typed_columns(rng, spec, info)
        return spec, info

    def labels(self, o):
        info = o["info"]
        if info.get("edge_keys"):
            return list(o.get("extra") or [])
        if info.get("fit"):
            out = ["fit-doc", "fit-doc:" + info["fit"]["mode"]]
            if not info["fit"]["cells"]:
                out.append("fit-doc:no-cell-fitted")
            for lab, cnt in info["fit"]["cells"].items():
                out.append("fit-cells-doc:" + lab)
            return out
        if not info.get("typed"):
            return []
        out = ["typed-columns-doc"]
        out += ["typed-col:" + d for d in sorted(set(info["typed"].values()))]
        out += ["typed-tallest-cell:" + d for d in info.get("typed_tallest") or []]
        if info.get("col_rel"):
            out.append("typed-col_rel_width")
        return out

    def gen(self, rng, k, tier):
        t = "quick" if tier == "quick" else "thorough"
        if k >= self.BASE[t] + self.TYPED[t] + self.EDGE[t]:
            return self.gen_fit(rng, k, tier)
        if k >= self.BASE[t] + self.TYPED[t]:
            return self.gen_edge(rng, k, tier)
        if k >= self.BASE[t]:
            return self.gen_typed(rng, k, tier)
        font = rng.choice([1, 1, 2, 3, 4, 5, 6, 7, 8, 9, 10])
        size = rng.choice([9, 9, 6, 7.5, 8, 10, 12, 14, 18, 24])
        hm = ["explicit", "explicit2", "none", "default", "no_colheader"][k % 5]
        spec, info = laygen.gen_spec(rng, header_mode=hm, n=rng.randint(0, 60), nrow=rng.randint(1, 50),
                                     dividers=(k % 7 == 0), font=font, size=size,
                                     nulls=(0.2 if k % 3 == 1 else 0.0))
        n, ncols = info["n"], len(spec["df"]["cols"])
        if k % 3 == 1:
            first = len(info["hier"])
            for i, r in enumerate(spec["df"]["rows"]):
                if r[first] is None:
                    r[first] = f"r{i}c0"
        if n and k % 3 == 1:
            # column-wise sizes / fonts with null cells in between: every cell is measured at ITS column's font, size
            # and width, whatever stands (or does not stand) in the cells to its left
            spec["body"]["text_font_size"] = [rng.choice([6, 7.5, 9, 12, 18, 24]) for _ in range(ncols)]
            if rng.random() < 0.5:
                spec["body"]["text_font"] = [rng.randint(1, 10) for _ in range(ncols)]
            first = len(info["hier"])
            for i, r in enumerate(spec["df"]["rows"]):
                if r[first] is None:
                    r[first] = f"r{i}c0"          # the first data column keeps the row's tag
            phrases = ["the same remark repeated down the column", "not evaluable at this visit", "see listing",
                       "a somewhat longer remark that wraps in a narrow column at a large size"]
            for r in spec["df"]["rows"]:
                for j in range(first + 1, ncols):
                    if r[j] is not None and rng.random() < 0.5:
                        r[j] = rng.choice(phrases)
            info["colwise"] = True
        if n and k % 3 == 0:
            # row-wise fonts / sizes (matrix attributes) and texts that REPEAT down a column: the height of a row
            # depends on the row's own font, not on where the text was first seen
            sizes = [rng.choice([6, 7.5, 9, 12, 18, 24]) for _ in range(n)]
            spec["body"]["text_font_size"] = [[sz] * ncols for sz in sizes]
            if rng.random() < 0.5:
                fonts = [rng.randint(1, 10) for _ in range(n)]
                spec["body"]["text_font"] = [[f] * ncols for f in fonts]
            first = len(info["hier"])
            if info["ndata"] > 1:
                phrases = ["the same remark repeated down the column", "not evaluable at this visit", "see listing"]
                for r in spec["df"]["rows"]:
                    r[first + 1] = rng.choice(phrases[: rng.randint(1, 3)])
            info["rowwise"] = True
        return spec, info

    def oracle(self, spec, info, ob):
        fails = []
        nrow = info["nrow"]
        cols = spec["df"]["cols"]
        rows = spec["df"]["rows"]
        pb = info["page_by"] or []
        raws = ob.get("_raw") or []
        for pno, blocks in enumerate(ob["pages"], 1):
            data = [b[1] for b in blocks if b[0] == "data"]
            shown = {}
            if pno - 1 < len(raws):
                for b, rb in zip(blocks, raws[pno - 1]):
                    if b[0] == "data" and rb is not None and getattr(rb, "kind", None) == "row":
                        shown[b[1]] = [rtfread.para_text(c) for c in rb.cells]
            nh = sum(1 for b in blocks if b[0] == "colHeader")
            ng = sum(1 for b in blocks if b[0] in ("heading", "sublineHeading"))
            nf = sum(1 for b in blocks if b[0] in ("footnote", "source") and b[1] is True)
            lines = sum(line_lower_bound(spec, info, i, shown.get(i)) for i in data if i < len(rows))
            total = nh + ng + nf + lines
            if total <= nrow or len(data) <= 1:
                continue
            # explained deviations (only consulted by the known-findings filter)
            auto = nh if info["header_mode"] == "default" else 0
            starts = 0
            for i in data:
                if i >= len(rows):
                    continue
                key = [str(rows[i][cols.index(c)]) for c in pb]
                prev = [str(rows[i - 1][cols.index(c)]) for c in pb] if i > 0 else None
                if pb and (i == 0 or key != prev) and any(v != "-----" for v in key):
                    starts += 1
            nspan = sum(1 for b in blocks if b[0] == "heading")
            fails.append(dict(page=pno, total=total, nrow=nrow, excess=total - nrow, auto_header_rows=auto,
                              heading_rows_rendered=nspan, heading_rows_reserved=starts,
                              msg=f"page {pno}: {nh} header + {ng} heading + {lines} data-line + {nf} footnote/source "
                                  f"rows = {total} > nrow = {nrow} with {len(data)} data rows"))
        return fails

    def project(self, pages, info):
        out = [[b for b in p if b[0] in ("colHeader", "heading", "sublineHeading", "data", "footnote", "source")]
               for p in pages]
        if info.get("edge_keys"):
            # group values without a level tag: a spanning row is compared by its text and position, not its level;
            # a subline_by heading whose joined text is '' is a block of the role model that the renderer writes
            # nothing for (`if not text: return ""` — Model.Encode.renderBlock does the same)
            out = [[(["heading", b[2]] if b[0] == "heading" else b) for b in p
                    if not (b[0] == "sublineHeading" and b[1] == "")] for p in out]
        return out

    def nontrivial(self, spec, info, ob):
        pages = ob["pages"]
        if len(pages) < 2:
            return None
        return [info["strategy"], info["nrow"], info["font"], info["size"],
                str([sum(1 for b in p if b[0] == "data") for p in pages])]


FAM = C03()


def known_filter(o, fails):
    """explained-deviation functions of the open known findings of C03 (DESIGN.md §5/§8a)"""
    open_ids = {e["id"] for e in common.known_findings("C03")}
    remaining, hits = [], []
    for f in fails:
        if not isinstance(f, dict):
            remaining.append(f)
            continue
        explained = 0
        used = []
        if "C03-auto-header-not-reserved" in open_ids and f["auto_header_rows"]:
            explained += f["auto_header_rows"]
            used.append("C03-auto-header-not-reserved")
        extra_head = max(0, f["heading_rows_rendered"] - f["heading_rows_reserved"])
        if "C03-heading-rows-not-reserved" in open_ids and extra_head:
            explained += extra_head
            used.append("C03-heading-rows-not-reserved")
        if f["excess"] <= explained:
            for kid in used:
                hits.append((kid, f"KNOWN-FINDING: property=C03 {kid}: {KNOWN_TEXT[kid]}"))
        else:
            remaining.append(f["msg"] + f" — {f['excess']} over, only {explained} explained by the listed findings")
    return remaining, hits


KNOWN_TEXT = {
    "C03-auto-header-not-reserved": "a default (auto-populated) column header is rendered but not reserved, pages hold "
                                    "nrow+1 table rows",
    "C03-heading-rows-not-reserved": "page_by heading rows are reserved once per group start but rendered per level and "
                                     "again at the top of continuation pages",
}


def run(res, build):
    return layfamily.run_family(
        FAM, res, build, RULE, layfamily.TRUSTED_COMMON, layfamily.ASSUME_COMMON,
        explanation="C03_load, C03_budget, C03_lines_cover, C03_partial hold for every LDoc; C03_witness refutes the "
                    "full statement (the two known findings). The oracle excuses a page only within the excess terms "
                    "of C03_budget evaluated on that page.",
        known_fn=known_filter)


def replay(payload):
    case = payload.get("case") or {}
    if "spec" in case:
        o = layfamily._worker((FAM, 0, 0, "quick", dict(spec=case["spec"], info=case["info"])))
        fails, hits = known_filter(o, list(o.get("fails") or []))
        for _, line in hits:
            print(line)
        for f in fails:
            print("FAIL:", f)
        if fails:
            print("VIOLATION property=C03 replay=<given>")
            return 1
        print("property holds on this input (apart from listed known findings)")
        return 0
    return layfamily.replay_family(FAM, payload)
