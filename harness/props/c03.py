"""C03 — no page exceeds the nrow row budget.

Theorems: lean/Props/C03.lean (greedy-fill load bound `C03_load`, the budget with explicit excess terms
`C03_budget`, `C03_lines_cover`, `C03_partial`, and `C03_witness : ¬ C03_full`).
Oracle on the implementation (independent of the model): for every observed page
   #column-header rows + #group heading rows (spanning rows, subline heading) + Σ data rows' line lower bound
   + #table-rendered footnote/source rows  ≤  nrow,
unless the page holds a single data row.  The line lower bound of a data row is
max over its cells of ⌈width(text, body font, body size) / column width⌉, measured here with the real
get_string_width — not rtflite's own estimate.
Known findings (known_findings.json): D3 auto-populated headers are rendered but not reserved; D4 page_by heading
rows are reserved once per group start but rendered per level and again on every continuation page.  A page is
excused only while its excess is within what the listed findings explain for that very page.
"""
from __future__ import annotations

import math

from .. import common, laygen, layfamily, rtfread

MANIFEST = dict(
    text="Lean theorems over the pagination + layout model for every table: the reserved load of a page never exceeds "
         "max(1, nrow − reserved components) unless the page holds one row (greedy-fill invariant, induction over "
         "rows), every rendered page satisfies rows ≤ nrow + (headers rendered but not reserved) + (heading rows "
         "rendered beyond those reserved), the line estimate covers the text width, and the full statement is "
         "refuted by two concrete witnesses (recorded as known findings). Tied to the code by observation over body "
         "fonts 1..10, sizes 6..24, all strategies and reservations.",
    note="The unchanged code violates C03 in two recorded classes (auto headers, page_by heading rows); the check "
         "prints KNOWN-FINDING for them and reports any excess beyond what they explain. Pillow widths are measured.",
    technique="Lean 4 proof (accumulator invariant of the greedy fill + reservation accounting) + observation oracle "
              "with explained-deviation known findings",
    design="7/C03",
)

RULE = ("single-section tagged tables, 0..60 rows with 1..4-line rows produced by text width at the body's font (1..10) "
        "and size (6..24), nrow 1..50, explicit / default / multi-row / absent headers, footnote and source in every "
        "form and placement, all strategies; non-trivial = ≥ 2 pages with at least one page filled to within one row "
        "of its capacity; distinct by (strategy, nrow, font, size, rows per page)")


def line_lower_bound(spec, info, i):
    cols = spec["df"]["cols"]
    r = spec["df"]["rows"][i]
    nd = len(info["displayed"])
    cw = info["col_total"] / nd
    lb = 1
    for c in info["displayed"]:
        v = r[cols.index(c)]
        t = "" if v is None else str(v)
        body = spec.get("body") or {}
        ci = cols.index(c)
        w = laygen.measure(t, laygen.attr_at(body.get("text_font"), i, ci, 1),
                           laygen.attr_at(body.get("text_font_size"), i, ci, 9))
        lb = max(lb, math.ceil(w / cw - 1e-9))
    return lb


class C03(layfamily.Family):
    prop, tag = "C03", "c03"

    def ndocs(self, tier):
        return 300 if tier == "quick" else 4000

    def gen(self, rng, k, tier):
        font = rng.choice([1, 1, 2, 3, 4, 5, 6, 7, 8, 9, 10])
        size = rng.choice([9, 9, 6, 7.5, 8, 10, 12, 14, 18, 24])
        hm = ["explicit", "explicit2", "none", "default", "no_colheader"][k % 5]
        spec, info = laygen.gen_spec(rng, header_mode=hm, n=rng.randint(0, 60), nrow=rng.randint(1, 50),
                                     dividers=(k % 7 == 0), font=font, size=size,
                                     nulls=(0.2 if k % 3 == 1 else 0.0))
        n, ncols = info["n"], len(spec["df"]["cols"])
        if k % 3 == 1:
            first = len(info["hier"])
            for i, r in enumerate(spec["df"]["rows"]):
                if r[first] is None:
                    r[first] = f"r{i}c0"
        if n and k % 3 == 1:
            # column-wise sizes / fonts with null cells in between: every cell is measured at ITS column's font, size
            # and width, whatever stands (or does not stand) in the cells to its left
            spec["body"]["text_font_size"] = [rng.choice([6, 7.5, 9, 12, 18, 24]) for _ in range(ncols)]
            if rng.random() < 0.5:
                spec["body"]["text_font"] = [rng.randint(1, 10) for _ in range(ncols)]
            first = len(info["hier"])
            for i, r in enumerate(spec["df"]["rows"]):
                if r[first] is None:
                    r[first] = f"r{i}c0"          # the first data column keeps the row's tag
            phrases = ["the same remark repeated down the column", "not evaluable at this visit", "see listing",
                       "a somewhat longer remark that wraps in a narrow column at a large size"]
            for r in spec["df"]["rows"]:
                for j in range(first + 1, ncols):
                    if r[j] is not None and rng.random() < 0.5:
                        r[j] = rng.choice(phrases)
            info["colwise"] = True
        if n and k % 3 == 0:
            # row-wise fonts / sizes (matrix attributes) and texts that REPEAT down a column: the height of a row
            # depends on the row's own font, not on where the text was first seen
            sizes = [rng.choice([6, 7.5, 9, 12, 18, 24]) for _ in range(n)]
            spec["body"]["text_font_size"] = [[sz] * ncols for sz in sizes]
            if rng.random() < 0.5:
                fonts = [rng.randint(1, 10) for _ in range(n)]
                spec["body"]["text_font"] = [[f] * ncols for f in fonts]
            first = len(info["hier"])
            if info["ndata"] > 1:
                phrases = ["the same remark repeated down the column", "not evaluable at this visit", "see listing"]
                for r in spec["df"]["rows"]:
                    r[first + 1] = rng.choice(phrases[: rng.randint(1, 3)])
            info["rowwise"] = True
        return spec, info

    def oracle(self, spec, info, ob):
        fails = []
        nrow = info["nrow"]
        cols = spec["df"]["cols"]
        rows = spec["df"]["rows"]
        pb = info["page_by"] or []
        for pno, blocks in enumerate(ob["pages"], 1):
            data = [b[1] for b in blocks if b[0] == "data"]
            nh = sum(1 for b in blocks if b[0] == "colHeader")
            ng = sum(1 for b in blocks if b[0] in ("heading", "sublineHeading"))
            nf = sum(1 for b in blocks if b[0] in ("footnote", "source") and b[1] is True)
            lines = sum(line_lower_bound(spec, info, i) for i in data if i < len(rows))
            total = nh + ng + nf + lines
            if total <= nrow or len(data) <= 1:
                continue
            # explained deviations (only consulted by the known-findings filter)
            auto = nh if info["header_mode"] == "default" else 0
            starts = 0
            for i in data:
                if i >= len(rows):
                    continue
                key = [str(rows[i][cols.index(c)]) for c in pb]
                prev = [str(rows[i - 1][cols.index(c)]) for c in pb] if i > 0 else None
                if pb and (i == 0 or key != prev) and any(v != "-----" for v in key):
                    starts += 1
            nspan = sum(1 for b in blocks if b[0] == "heading")
            fails.append(dict(page=pno, total=total, nrow=nrow, excess=total - nrow, auto_header_rows=auto,
                              heading_rows_rendered=nspan, heading_rows_reserved=starts,
                              msg=f"page {pno}: {nh} header + {ng} heading + {lines} data-line + {nf} footnote/source "
                                  f"rows = {total} > nrow = {nrow} with {len(data)} data rows"))
        return fails

    def project(self, pages, info):
        return [[b for b in p if b[0] in ("colHeader", "heading", "sublineHeading", "data", "footnote", "source")]
                for p in pages]

    def nontrivial(self, spec, info, ob):
        pages = ob["pages"]
        if len(pages) < 2:
            return None
        return [info["strategy"], info["nrow"], info["font"], info["size"],
                str([sum(1 for b in p if b[0] == "data") for p in pages])]


FAM = C03()


def known_filter(o, fails):
    """explained-deviation functions of the open known findings of C03 (DESIGN.md §5/§8a)"""
    open_ids = {e["id"] for e in common.known_findings("C03")}
    remaining, hits = [], []
    for f in fails:
        if not isinstance(f, dict):
            remaining.append(f)
            continue
        explained = 0
        used = []
        if "C03-auto-header-not-reserved" in open_ids and f["auto_header_rows"]:
            explained += f["auto_header_rows"]
            used.append("C03-auto-header-not-reserved")
        extra_head = max(0, f["heading_rows_rendered"] - f["heading_rows_reserved"])
        if "C03-heading-rows-not-reserved" in open_ids and extra_head:
            explained += extra_head
            used.append("C03-heading-rows-not-reserved")
        if f["excess"] <= explained:
            for kid in used:
                hits.append((kid, f"KNOWN-FINDING: property=C03 {kid}: {KNOWN_TEXT[kid]}"))
        else:
            remaining.append(f["msg"] + f" — {f['excess']} over, only {explained} explained by the listed findings")
    return remaining, hits


KNOWN_TEXT = {
    "C03-auto-header-not-reserved": "a default (auto-populated) column header is rendered but not reserved, pages hold "
                                    "nrow+1 table rows",
    "C03-heading-rows-not-reserved": "page_by heading rows are reserved once per group start but rendered per level and "
                                     "again at the top of continuation pages",
}


def run(res, build):
    return layfamily.run_family(
        FAM, res, build, RULE, layfamily.TRUSTED_COMMON, layfamily.ASSUME_COMMON,
        explanation="C03_load, C03_budget, C03_lines_cover, C03_partial hold for every LDoc; C03_witness refutes the "
                    "full statement (the two known findings). The oracle excuses a page only within the excess terms "
                    "of C03_budget evaluated on that page.",
        known_fn=known_filter)


def replay(payload):
    case = payload.get("case") or {}
    if "spec" in case:
        o = layfamily._worker((FAM, 0, 0, "quick", dict(spec=case["spec"], info=case["info"])))
        fails, hits = known_filter(o, list(o.get("fails") or []))
        for _, line in hits:
            print(line)
        for f in fails:
            print("FAIL:", f)
        if fails:
            print("VIOLATION property=C03 replay=<given>")
            return 1
        print("property holds on this input (apart from listed known findings)")
        return 0
    return layfamily.replay_family(FAM, payload)
