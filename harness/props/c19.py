"""C19 — invalid configuration is rejected up front with ValueError.

Theorems: lean/Props/C19.lean about `Model.Validate` (validator rule table + pydantic outcome classes) and
`Model.ValidateSpec` (the statement's notion of legal / illegal configuration with *literal* documented value
sets; the generated code tables are proved equal to them, so a table edit re-opens a proof obligation).

Tie to the code on every run (observation level: public constructors only)
  malformed stream  every validated field of every component, a bad value at a random position inside scalar /
                    list / tuple / nested-list forms mixed with valid values; page, figure and document rules
  valid stream      all-valid values in all shapes must be ACCEPTED (a validator rejecting everything is caught;
                    the legal values come from the documentation, not from the code tables)
  free stream       empty lists, None elements, ill-typed values: outside the statement, compared with the model only
  data shapes       every document rule over frames of 0 / 1 / few / many rows, frames without columns, an empty
                    section anywhere in a multi-section list; systematic product grouping option × string / list form
                    × position of the missing name × data shape × section layout, each with its legal twin
  near-valid        every string-coded option (format letters, justifications, vertical alignment, border styles,
                    colour names of every attribute component; pageby_row; orientation, page border styles, title /
                    footnote / source placement; figure alignment / position; grouping column names): a documented
                    legal value with one of 18 white-space / control / invisible characters (LF CR CRLF TAB SP NUL VT
                    FF FS US NEL NBSP LS PS EM-SPACE IDEOGRAPHIC-SPACE ZWSP BOM) after it, before it, doubled after it,
                    inside it, on both sides, alone, after another such character; another letter case; the value
                    repeated (with and without a separator); the empty string; a `str` subclass holding a legal / such
                    a value — at any position of any shape; legality of each drawn string is decided by the Lean
                    specification (exact membership in the documented sets), never by the generator
  whole calls       components built inline, then `RTFDocument(...)`, then `rtf_encode()`: the stage at which the
                    exception appears is recorded (“up front” = before any document object exists)
  histories         (`c19_hist.py`) sequences of constructor calls in ONE process, every call judged against the
                    state of the world AT THAT CALL: `RTFFigure(figures=…)` with files created / replaced / deleted /
                    renamed and the working directory changed in between (absolute and relative paths, str and Path,
                    scalar and list) against `Model.ValidateHist.run`; the same or an ==-equal value presented to
                    fields with different rules, valid-then-invalid on one field, the same grouping names against
                    frames with and without the column — a validator that remembers an earlier verdict is caught
π = exception class mapped to {ok, ValueError (pydantic ValidationError included), FileNotFoundError, other}.
For every case the driver returns the model's outcome and the Lean-defined specification verdict
(reject / notFound / rejectAny / accept / free); `fail` = implementation contradicts the verdict,
`disagree` = implementation differs from the model under π.
Unit level: `_to_nested_list` against `Model.Validate.toNested`.
"""
from __future__ import annotations

import os
import tempfile
from fractions import Fraction

from .. import common
from ..common import sub_rng

RULE = ("constructor calls of the 8 attribute components, RTFPage, RTFFigure, RTFDocument with 1–3 supplied "
        "validated fields in scalar / list / tuple / nested-list shape; RTFDocument calls over frames of 0 / 1 / few / "
        "many rows and frames without columns (single frame or any section of a 1–3 section list), grouping options "
        "as string or list with the missing name first / inner / last / alone; non-trivial = the specification "
        "verdict is not `free` (reject, notFound, rejectAny or accept); distinct by (constructor, fields, shapes, "
        "position class of the bad value, the bad value, data shape, verdict); near-valid strings for every string-coded "
        "option (97 constructor × option slots + grouping column names): a legal code word × 18 white-space / control / "
        "invisible characters × {after, before, doubled after, inside, both sides, alone, after another one}, letter "
        "case, repetition, empty string, str subclass, at any position of any shape, one call in seven as a component "
        "built inline for RTFDocument; histories of 1–14 steps run in one fresh "
        "process each: RTFFigure calls with file-system events in between (create / new content / delete / rename to "
        "another name, suffix, directory or onto an existing file / chdir; paths absolute or relative, str or Path, "
        "with ./ and .. spellings, scalar or in a list of 1–3), and sequences of 2–10 stateless constructor calls "
        "sharing a value, a field or grouping names; every call judged in the state at that call; a history is "
        "non-trivial when one of its calls has a verdict other than `free`, distinct by (scenario, verdict sequence, steps)")
TRUSTED = [
    "Lean 4.33 kernel; axioms ⊆ {propext, Classical.choice, Quot.sound} (audited per theorem on every run)",
    "Lean compiler for the driver executable (compiled evaluation agrees with kernel reduction)",
    "harness/translate.py prints the code tables it read (cross-checked per run through op c19_tables)",
    "the harness serialises the Python argument values faithfully (floats as exact rationals)",
    "histories: the harness performs the file-system events it reports (cross-checked per call: os.path.exists of "
    "every path and the final directory listing against the Lean state, machinery error otherwise)",
]
MANIFEST = dict(
    text="Lean theorems over the validator model: for every validated attribute field, every accepted shape and "
         "every position, an illegal element makes the field validation, the component constructor and hence the "
         "whole call fail with a ValueError-class exception and never with anything else (induction over the nested "
         "lists: the loops visit every element; `validate = ok ↔ all elements ok`); all-legal input is accepted; "
         "page, figure (FileNotFoundError) and document rules as decision-logic theorems; the generated code tables "
         "equal the documented value sets (kernel-decided, re-opened by any table edit). The model is tied to the "
         "code on every run by malformed / valid / free constructor streams judged by the Lean-defined verdict.",
    note="String-coded options are drawn not only from hand lists of wrong words but as near-valid variants of every "
         "documented value (a trailing / leading / inner / doubled line feed, carriage return, tab, blank, NUL, VT, FF, "
         "FS, US, NEL, NBSP, LS, PS, wide and zero-width spaces, BOM; letter case; repetition; empty string; str "
         "subclasses) for every option of every constructor: a validator that matches with `$`, strips, splits, "
         "case-folds or truncates at NUL before looking the word up is seen. bytes values are ill-typed (outside the "
         "statement) and pydantic's bytes→str coercion is not modelled: not drawn. "
         "Document rules (grouping columns missing from the data, df xor figure, list lengths, figure rules, inline "
         "components, new_page without page_by) run over the range of data shapes: frames of 0 ('no observations' "
         "table), 1, few and many rows, frames without columns, an empty section at any place of a 1–3 section list, "
         "the missing name at any position of a string- or list-valued group_by / page_by / subline_by; the model's "
         "frame carries column names and height separately and the theorems state that only the names matter. "
         "pydantic's type coercion and error collection are modelled only as far as the outcome class depends on "
         "them; numeric strings, DataFrame-valued attributes and default values are outside the model (defaults are "
         "exercised by every constructor call of the valid stream). "
         "Existence of a figure file is an input of each call in the model (`FigArgs.figures` = exists at the time of "
         "the call); `Model/ValidateHist.lean` + `Props/C19hist.lean` make the time explicit: folding the construction "
         "over any history of file-system events and calls, each verdict is that of the state reached at the call "
         "(earlier calls, accepted or refused, do not enter), and the check runs such histories — and histories of "
         "stateless calls sharing values, fields, grouping names — in one process each, so a validator that caches "
         "a verdict per path / value / name is seen. Mutating a component object after construction is out of scope.",
    technique="Lean 4 proof (induction over nested lists + kernel-decided table facts) + differential "
              "correspondence model/implementation on constructor calls",
    design="7/C19",
)
ASSUME = [
    "pydantic v2 semantics: before-validators, lax coercion, ValueError→ValidationError wrapping, other exceptions escape",
    "component defaults are valid (every valid-stream call exercises them)",
    "os.path existence of figure files is a parameter of each call (exists flags at the time of the call; in "
    "histories computed by the Lean file-system model from the events before the call)",
    "an embeddable image format is decided by the file name's suffix (.png .jpg .jpeg .emf, any case); the mimetypes "
    "fallback is not modelled (the histories use no suffix it maps to PNG/JPEG); an existing file of another format "
    "is outside the statement (verdict free, compared with the model only)",
]

# ------------------------------------------------------------------ documented legal values (NOT read from the code)

DOC = dict(
    border=["single", "double", "thick", "dotted", "dashed", "small-dash", "dash-dotted", "dash-dot-dotted",
            "triple", "wavy", "double-wavy", "striped", "embossed", "engraved", "frame", ""],
    textJust=["", "l", "c", "r", "d", "j"],
    rowJust=["", "l", "c", "r"],
    vertAlign=["top", "center", "bottom", "merge_first", "merge_rest", ""],
    format=["", "b", "i", "u", "s", "^", "_", "bi", "ib", "bius^_", "bb", "^_", "us"],
    color=["", "red", "blue", "black", "white", "gray50", "grey50", "lightgoldenrodyellow", "darkolivegreen3",
           "yellowgreen", "aliceblue", "antiquewhite4", "gray100", "gray0", "mediumvioletred", "snow"],
)
BAD = dict(
    border=["zigzag", "Single", "SINGLE", " single", "single ", "dot", "none", "solid", "dash_dotted", "doubled",
            "dash-dot", "triple-wavy", "1", "brdrs", "\\brdrs", "thin", "dott", "engrave"],
    textJust=["x", "L", "left", "cc", "lr", "center", " l", "q", "J", "justify"],
    rowJust=["j", "d", "x", "C", "centre", "left", "lc", " c", "R", "q"],
    vertAlign=["middle", "Top", "centre", "t", "merge", "merge-first", "bottom ", "BOTTOM", "centered"],
    format=["x", "bq", "B", "b i", "bold", "i,", "u-", "I", "sb!", "^^1", "italic", "__x", " "],
    color=["notacolor", "Red", "RED", "#FF0000", "grey101", "gray 50", "light blue", "rgb(1,2,3)", " red", "red ",
           "gray101", "bluee", "transparent", "none", "0"],
)
PAGE_STR = dict(
    orientation=(["portrait", "landscape"], ["diagonal", "Portrait", "LANDSCAPE", "", "portait", "landscape ", "p"]),
    border_first=(DOC["border"], BAD["border"]),
    border_last=(DOC["border"], BAD["border"]),
    page_title=(["first", "last", "all"], ["middle", "First", "ALL", "", "none", "every", "all ", "lst"]),
    page_footnote=(["first", "last", "all"], ["middle", "First", "ALL", "", "none", "every", "all ", "lst"]),
    page_source=(["first", "last", "all"], ["middle", "First", "ALL", "", "none", "every", "all ", "lst"]),
)
FIELD_CLASS = dict(
    text_font="font", text_format="format", text_font_size="posFloat", text_color="color",
    text_background_color="color", text_justification="textJust", col_rel_width="posFloat",
    border_left="border", border_right="border", border_top="border", border_bottom="border",
    border_first="border", border_last="border",
    border_color_left="color", border_color_right="color", border_color_top="color",
    border_color_bottom="color", border_color_first="color", border_color_last="color",
    border_width="posInt", cell_height="posFloat", cell_justification="rowJust",
    cell_vertical_justification="vertAlign", cell_nrow="posInt",
)
TEXT_FIELDS = ["text_font", "text_format", "text_font_size", "text_color", "text_background_color",
               "text_justification"]
TABLE_FIELDS = list(FIELD_CLASS)
TABLE_COMPS = ["RTFBody", "RTFColumnHeader", "RTFFootnote", "RTFSource"]
TEXT_COMPS = ["RTFTitle", "RTFSubline", "RTFPageHeader", "RTFPageFooter"]

_COLOR_NAMES = None


def color_names():
    """valid colour names beyond the hard-coded sample: the r2rtf table shipped with the package"""
    global _COLOR_NAMES
    if _COLOR_NAMES is None:
        try:
            from rtflite.dictionary.color_table import color_table
            _COLOR_NAMES = [r[0] for r in color_table]
        except Exception:  # noqa: BLE001
            _COLOR_NAMES = []
    return _COLOR_NAMES


# ------------------------------------------------------------------ value encoding (JSON <-> Python <-> Lean)

class StrSub(str):
    """a user-defined subclass of `str` (an `Enum`-less "tagged string", numpy.str_-like): for the validators it IS
    the string it holds; transported as {"s": …, "sub": 1}, the Lean model reads the "s" part"""

    __slots__ = ()


def jv(v):
    """Python scalar → JSON val of the driver protocol"""
    if v is None:
        return None
    if isinstance(v, StrSub):
        return {"s": str.__str__(v), "sub": 1}
    if isinstance(v, bool):
        return {"b": v}
    if isinstance(v, int):
        return {"i": v}
    if isinstance(v, float):
        n, d = v.as_integer_ratio()
        return {"q": [n, d]}
    if isinstance(v, str):
        return {"s": v}
    raise TypeError(v)


def pv(j):
    """JSON val → Python scalar (floats rebuilt exactly)"""
    if j is None:
        return None
    if "s" in j:
        return StrSub(j["s"]) if j.get("sub") else j["s"]
    if "i" in j:
        return j["i"]
    if "b" in j:
        return j["b"]
    n, d = j["q"]
    return float(Fraction(n, d))


def praw(r):
    t = r["t"]
    if t == "none":
        return None
    if t == "scalar":
        return pv(r["v"])
    if t == "flat":
        return [pv(x) for x in r["v"]]
    if t == "tuple":
        return tuple(pv(x) for x in r["v"])
    if t == "nested":
        return [[pv(x) for x in row] for row in r["v"]]
    raise ValueError(t)


# ------------------------------------------------------------------ generators

def good_value(rng, cls):
    if cls == "font":
        return rng.randint(1, 10)
    if cls == "posInt":
        return rng.choice([1, 1, 2, 15, 30, 100, rng.randint(1, 2000)])
    if cls == "posFloat":
        return rng.choice([1, 2, 9, 12, 0.15, 0.5, 2.5, 1e-9, 7.25, 0.1, rng.randint(1, 40), rng.random() + 0.001])
    if cls == "color":
        names = color_names()
        if names and rng.random() < 0.5:
            return rng.choice(names)
        return rng.choice(DOC["color"])
    return rng.choice(DOC[cls])


def bad_value(rng, cls):
    if cls == "font":
        return rng.choice([0, 11, -1, 100, 12, -10, 255, 11])
    if cls == "posInt":
        return rng.choice([0, 0, -1, -15, -2000, rng.randint(-50, 0)])
    if cls == "posFloat":
        return rng.choice([0, 0.0, -0.0, -1.5, -1, -0.15, -1e-9, -9, -rng.random()])
    if cls in BAD and rng.random() < 0.75:
        return rng.choice(BAD[cls])
    # perturb a legal value
    g = rng.choice([x for x in DOC[cls] if x] if cls != "color" else DOC["color"][1:])
    k = rng.randrange(4)
    cand = [g.upper(), g + " ", g[:-1] + "?", g + g[-1] + "x"][k]
    legal = set(DOC[cls]) | (set(color_names()) if cls == "color" else set())
    if cls == "format":
        legal = None
        if all(ch in "bius^_" for ch in cand):
            cand = cand + "x"
    if legal is not None and cand in legal:
        cand = cand + "_x"
    return cand


def free_value(rng, cls):
    """outside the statement's domain: wrong Python type for the attribute"""
    if cls in ("font", "posInt"):
        return rng.choice([None, "abc", 1.5, 2.5, True, False, 2.0, "x"])
    if cls == "posFloat":
        return rng.choice([None, "abc", True, False, "x"])
    return rng.choice([None, 3, 0, True, 1.5])


def make_shape(rng, shapes=("scalar", "flat", "tuple", "nested")):
    t = rng.choice(shapes)
    if t == "scalar":
        return t, None
    if t in ("flat", "tuple"):
        return t, rng.choice([1, 2, 3, 3, 4, 5])
    nr, ncol = rng.choice([1, 2, 3, 4]), rng.choice([1, 2, 3, 4])
    if rng.random() < 0.15:  # ragged
        return t, [rng.randint(0, 4) for _ in range(nr)]
    return t, [ncol] * nr


def fill(rng, cls, shape, nbad, free=False):
    """a raw value of the given shape with `nbad` bad (or out-of-domain) values at random positions.
    Returns (raw_json, position_class)"""
    t, dims = shape
    if t == "scalar":
        n = 1
    elif t in ("flat", "tuple"):
        n = dims
    else:
        n = sum(dims)
    nbad = min(nbad, n)
    pos = set(rng.sample(range(n), nbad)) if n else set()
    vals = []
    for i in range(n):
        if i in pos:
            vals.append(jv(free_value(rng, cls) if free else bad_value(rng, cls)))
        else:
            vals.append(jv(good_value(rng, cls)))
    if not pos:
        pc = "none"
    elif 0 in pos:
        pc = "first"
    elif n - 1 in pos:
        pc = "last"
    else:
        pc = "inner"
    if t == "scalar":
        return {"t": t, "v": vals[0]}, pc
    if t in ("flat", "tuple"):
        return {"t": t, "v": vals}, pc
    rows, k = [], 0
    for w in dims:
        rows.append(vals[k:k + w])
        k += w
    if pos and t == "nested":
        # position class by row for matrices: first row / later row
        first_row = set(range(dims[0]))
        pc = "row0" if pos & first_row else "row+"
    return {"t": t, "v": rows}, pc


def gen_comp(rng, mode, comp=None, field=None):
    """mode: 'bad' | 'valid' | 'free'"""
    comp = comp or rng.choice(TABLE_COMPS + TABLE_COMPS + TEXT_COMPS)
    table = comp in TABLE_COMPS
    pool = TABLE_FIELDS if table else TEXT_FIELDS
    nf = rng.choice([1, 1, 1, 2, 3])
    fields = rng.sample(pool, nf)
    if field and field not in fields:
        fields[0] = field
    target = fields[0]
    # for RTFBody a quarter of the bad calls are bad *only* through a scalar rule of the class itself
    extra_only = mode == "bad" and comp == "RTFBody" and field is None and rng.random() < 0.25
    field_mode = "valid" if extra_only else mode
    kw, shapes, pcs, badvals = [], [], [], []
    for f in fields:
        cls = FIELD_CLASS[f]
        shapeset = ("scalar", "flat", "tuple") if f == "col_rel_width" else ("scalar", "flat", "tuple", "nested")
        shape = make_shape(rng, shapeset)
        if field_mode == "free" and f == target:
            r = rng.random()
            if r < 0.35:  # empty containers
                raw = rng.choice([{"t": "flat", "v": []}, {"t": "tuple", "v": []}, {"t": "nested", "v": [[]]},
                                  {"t": "nested", "v": [[], [jv(bad_value(rng, cls))]]}, {"t": "none"},
                                  {"t": "flat", "v": [None]}, {"t": "flat", "v": [None, None]},
                                  {"t": "tuple", "v": [None]}])
                pc = "empty"
            else:
                raw, pc = fill(rng, cls, shape, rng.choice([1, 1, 2]), free=True)
            if f == "col_rel_width" and rng.random() < 0.3:
                raw, pc = {"t": "nested", "v": [[jv(good_value(rng, cls)), jv(bad_value(rng, cls))]]}, "nested-vector"
        elif field_mode == "bad" and f == target:
            raw, pc = fill(rng, cls, shape, rng.choice([1, 1, 1, 2, 3]))
        elif field_mode == "bad" and rng.random() < 0.15:
            raw, pc = fill(rng, cls, shape, 1)
        else:
            raw, pc = fill(rng, cls, shape, 0)
        kw.append([f, raw])
        shapes.append(raw["t"])
        pcs.append(pc)
    extra = {}
    if extra_only:
        if rng.random() < 0.5:
            extra["pageby_row"] = jv(rng.choice(["row", "", "Column", "first-row", "firstrow", "col", " column"]))
            if rng.random() < 0.5:
                extra["page_by"], extra["new_page"] = True, rng.random() < 0.5
        else:
            extra["page_by"], extra["new_page"] = False, True
            if rng.random() < 0.3:
                extra["pageby_row"] = jv(rng.choice(["column", "first_row"]))
        if rng.random() < 0.5:
            extra["also"] = {k: ["a"] for k in rng.sample(["subline_by", "group_by"], rng.choice([1, 1, 2]))}
    elif comp == "RTFBody":
        r = rng.random()
        if r < 0.25:
            extra["pageby_row"] = jv(rng.choice(["column", "first_row"]))
        elif r < 0.32 and mode != "valid":
            extra["pageby_row"] = jv(rng.choice(["row", "", "Column", "first-row", "firstrow", "col"]))
        elif r < 0.35 and mode == "free":
            extra["pageby_row"] = jv(rng.choice([1, None, True]))
        r = rng.random()
        if r < 0.2:
            extra["page_by"], extra["new_page"] = True, rng.random() < 0.5
        elif r < 0.3:
            extra["page_by"], extra["new_page"] = False, (mode != "valid" and rng.random() < 0.7)
        # arguments the page_by rule must *not* depend on (subline_by / group_by never excuse new_page)
        if rng.random() < 0.3:
            extra["also"] = {k: ["a"] for k in rng.sample(["subline_by", "group_by"], rng.choice([1, 1, 2]))}
    if comp in ("RTFFootnote", "RTFSource") and rng.random() < 0.3:
        extra["as_table"] = jv(rng.random() < 0.5) if mode != "free" else jv(rng.choice([1, "yes", 0, None]))
    return dict(kind="comp", comp=comp, kw=kw, extra=extra, mode=mode, shapes=shapes, pos=pcs)


PAGE_NUM = dict(width="posFloat", height="posFloat", col_width="posFloat", nrow="posInt")


def gen_page(rng, mode):
    names = list(PAGE_STR) + list(PAGE_NUM) + ["margin"]
    fields = rng.sample(names, rng.choice([1, 1, 2, 3]))
    kw = []
    for k, f in enumerate(fields):
        bad = mode == "bad" and (k == 0 or rng.random() < 0.15)
        free = mode == "free" and k == 0
        if f in PAGE_STR:
            good, badv = PAGE_STR[f]
            if free:
                raw = rng.choice([{"t": "none"}, {"t": "scalar", "v": jv(3)}, {"t": "flat", "v": [jv(good[0])]}])
            else:
                raw = {"t": "scalar", "v": jv(rng.choice(badv if bad else good))}
        elif f in PAGE_NUM:
            cls = PAGE_NUM[f]
            if free:
                raw = rng.choice([{"t": "none"}, {"t": "scalar", "v": jv(free_value(rng, cls))},
                                  {"t": "flat", "v": [jv(1)]}])
                if raw["t"] == "scalar" and raw["v"] is None:
                    raw = {"t": "none"}
            else:
                raw = {"t": "scalar", "v": jv(bad_value(rng, cls) if bad else good_value(rng, cls))}
        else:  # margin
            n = rng.choice([0, 1, 4, 5, 7, 8, 12]) if bad else 6
            vals = [jv(rng.choice([1, 1.25, 0.5, 2, 1.75, 1.00625, 0, 1])) for _ in range(n)]
            if free:
                raw = rng.choice([{"t": "none"}, {"t": "scalar", "v": jv(1)},
                                  {"t": "flat", "v": [jv(1)] * 5 + [jv("x")]}, {"t": "flat", "v": [jv(1)] * 5 + [None]}])
            else:
                raw = {"t": rng.choice(["flat", "tuple"]), "v": vals}
        kw.append([f, raw])
    if mode != "bad" and rng.random() < 0.3 and not any(f == "orientation" for f, _ in kw):
        kw.append(["orientation", {"t": "scalar", "v": jv("landscape")}])
    narrow = False
    if mode != "free" and rng.random() < 0.3:
        # the DERIVED table width: a page width around the side allowance (2.25 in portrait, 2.5 in landscape), with
        # and without an explicit col_width; the verdict is the driver's on the call as it stands
        kw = [[f, r] for f, r in kw if f != "width"]
        kw.append(["width", {"t": "scalar", "v": jv(rng.choice([2.25, 2.5, 2.2, 1, 0.75, 2.3, 2.4999, 2.2500000000000004,
                                                                2.6, 2, 3, 2.25 - 1e-12, 2.5 + 1e-9]))}])
        if rng.random() < 0.5:
            kw = [[f, r] for f, r in kw if f != "col_width"]
        narrow = True
    return dict(kind="page", kw=kw, mode=mode, narrow=narrow)


def gen_figure(rng, mode):
    c = dict(kind="figure", mode=mode)
    nfig = rng.choice([1, 1, 2, 3])
    exists = [True] * nfig
    bad_kinds = []
    if mode == "bad":
        bad_kinds = rng.sample(["align", "pos", "width", "height", "missing", "missing"], rng.choice([1, 1, 1, 2]))
    if "missing" in bad_kinds:
        exists[rng.randrange(nfig)] = False
    c["figures"] = exists if rng.random() < 0.9 or "missing" in bad_kinds else None
    c["single_path"] = nfig == 1 and rng.random() < 0.5
    r = rng.random()
    if "align" in bad_kinds:
        c["fig_align"] = jv(rng.choice(["middle", "Center", "centre", "", "justify", "LEFT", "l"]))
    elif r < 0.5:
        c["fig_align"] = jv(rng.choice(["left", "center", "right"]))
    if "pos" in bad_kinds:
        c["fig_pos"] = jv(rng.choice(["inside", "Before", "", "top", "below", "AFTER"]))
    elif rng.random() < 0.5:
        c["fig_pos"] = jv(rng.choice(["before", "after"]))
    for key, tag in (("fig_width", "width"), ("fig_height", "height")):
        isbad = tag in bad_kinds
        if not isbad and rng.random() < 0.5:
            continue
        shape = make_shape(rng, ("scalar", "scalar", "flat", "tuple"))
        raw, _ = fill(rng, "posFloat", shape, 1 if isbad else 0)
        c[key] = raw
    if mode == "free":
        k = rng.choice(["fig_width", "fig_height", "fig_align"])
        c[k] = (jv(3) if k == "fig_align" else rng.choice([{"t": "flat", "v": []}, {"t": "none"},
                                                           {"t": "scalar", "v": jv("abc")},
                                                           {"t": "nested", "v": [[jv(1)]]}]))
    return c


COLS = ["a", "b", "c", "d", "e"]


def gen_bodyspec(rng, cols, bad):
    spec = {}
    keys = rng.sample(["group_by", "page_by", "subline_by"], rng.choice([0, 1, 1, 2, 3]))
    if bad and not keys:
        keys = [rng.choice(["group_by", "page_by", "subline_by"])]
    badkey = rng.choice(keys) if (bad and keys) else None
    for k in keys:
        names = rng.sample(cols, rng.randint(1, min(2, len(cols))))
        if k == badkey:
            miss = rng.choice(["z", "A", "a ", "col9", "", cols[0].upper() + "x"])
            names.insert(rng.randint(0, len(names)), miss)
        spec[k] = names
    return spec


def gen_doc(rng, mode):
    c = dict(kind="doc", mode=mode, comps=[])
    rule = rng.choice(["cols", "cols", "cols", "dfxor", "lengths", "lengths", "figure", "inline"]) if mode == "bad" \
        else rng.choice(["cols", "lengths", "figure", "inline", "cols"])
    if mode == "free":
        rule = rng.choice(["mix", "mix", "figtable", "emptymulti"])
    c["rule"] = rule
    multi = rule == "lengths" or (rule in ("cols", "inline") and rng.random() < 0.35)
    bad = mode == "bad"
    if rule == "dfxor":
        if rng.random() < 0.5:
            c.update(df=None, body={"single": {}}, figure=False)
        else:
            if rng.random() < 0.5:
                c.update(df={"single": COLS[:2]}, body={"single": {}}, figure=True)
            else:
                c.update(df={"multi": [COLS[:2]]}, body={"multi": [{}]}, figure=True)
        return c
    if rule in ("figure", "figtable"):
        c.update(df=None, body=rng.choice([None, {"single": {}}]), figure=True)
        if rule == "figtable":
            if rng.random() < 0.5:
                c["footnote"] = True
            else:
                c["source"] = True
        else:
            if rng.random() < 0.4:
                c["footnote"] = False
            if rng.random() < 0.4:
                c["source"] = False
        if bad:  # a figure *and* a frame
            c["df"] = {"single": COLS[:3]}
            c["body"] = {"single": {}}
        return c
    if rule == "mix":
        if rng.random() < 0.5:
            c.update(df={"single": COLS[:3]}, body=rng.choice([{"multi": [{}]}, {"multi": [{}, {}]}, None]), figure=False)
        else:
            c.update(df={"multi": [COLS[:2], COLS[:3]]}, body={"single": {}}, figure=False)
        return c
    if rule == "emptymulti":
        c.update(df={"multi": []}, body={"multi": []}, figure=False,
                 header=rng.choice([{"flat": 1}, {"nested": 0}, {"nested": 1}]))
        return c
    if multi:
        nsec = rng.choice([1, 2, 2, 3])
        secs = [rng.sample(COLS, rng.randint(1, 4)) for _ in range(nsec)]
        nbody = nsec
        header = rng.choice([{"flat": 1}, {"flat": 1}, {"nested": nsec}, {"flat": 0}])
        badsec = None
        if rule == "lengths" and bad:
            if rng.random() < 0.6:
                nbody = rng.choice([n for n in (1, 2, 3, 4) if n != nsec])
            else:
                header = {"nested": rng.choice([n for n in (1, 2, 3, 4) if n != nsec])}
        elif bad and rule == "cols":
            badsec = rng.randrange(nsec)
        bodies = []
        for k in range(nbody):
            cols = secs[k] if k < nsec else COLS
            bodies.append(gen_bodyspec(rng, cols, k == badsec))
        c.update(df={"multi": secs}, body={"multi": bodies}, header=header, figure=False)
    else:
        cols = rng.sample(COLS, rng.randint(1, 5))
        c.update(df={"single": cols}, body={"single": gen_bodyspec(rng, cols, bad and rule == "cols")},
                 header=rng.choice([{"flat": 1}, {"flat": 1}, {"flat": 2}, {"flat": 0}]), figure=False)
    if rule == "inline":
        # components built inline with (possibly) bad attribute values
        ncomp = rng.choice([1, 1, 2])
        nb = len(c["body"]["multi"]) if "multi" in c["body"] else 1
        roles = rng.sample([f"body:{k}" for k in range(nb)] + ["title", "footnote", "source", "header", "subline",
                                                               "page_header", "page_footer"], ncomp)
        comp_of = dict(title="RTFTitle", footnote="RTFFootnote", source="RTFSource", header="RTFColumnHeader",
                       subline="RTFSubline", page_header="RTFPageHeader", page_footer="RTFPageFooter")
        badrole = rng.choice(roles) if bad else None
        for role in sorted(roles, key=lambda r: (not r.startswith("body"), r)):
            comp = "RTFBody" if role.startswith("body") else comp_of[role]
            cc = gen_comp(rng, "bad" if role == badrole else "valid", comp=comp)
            cc["extra"] = {}
            if role.startswith("body"):
                k = int(role.split(":")[1])
                bs = c["body"]["multi"][k] if "multi" in c["body"] else c["body"]["single"]
                cc["extra"] = dict(page_by="page_by" in bs, new_page=False)
            cc["role"] = role
            c["comps"].append(cc)
    return c


# ------------------------------------------------------------------ document rules over the range of data shapes

ROW_CHOICES = [0, 0, 0, 1, 1, 2, 3, 50]
GROUP_KEYS = ["group_by", "page_by", "subline_by"]
MISSING = ["z", "A", "a ", "col9", "", "nope", "Ax"]


def rows_class(n):
    return "0" if n == 0 else "1" if n == 1 else "few" if n <= 3 else "many"


def apply_shape(rng, c):
    """every frame of a document case gets a number of rows (0 = "no observations" table, 1, few, many), now and
    then no columns at all; one-name grouping options now and then in the string form; now and then a body built
    inline with `new_page=True` (with or without page_by). The verdict is the driver's on the case as it stands."""
    df = c.get("df")
    if df is not None:
        if "single" in df:
            if rng.random() < 0.12:
                df["single"] = []
            df["rows"] = rng.choice(ROW_CHOICES) if df["single"] else 0
        else:
            secs = df["multi"]
            for k in range(len(secs)):
                if rng.random() < 0.1:
                    secs[k] = []
            df["rows"] = [rng.choice(ROW_CHOICES) if sec else 0 for sec in secs]
    body = c.get("body")
    specs = [] if body is None else (body["multi"] if "multi" in body else [body["single"]])
    for bs in specs:
        for g in GROUP_KEYS:
            if g in bs and len(bs[g]) == 1 and rng.random() < 0.4:
                bs.setdefault("_str", []).append(g)
    if specs and df is not None and rng.random() < 0.2:
        k = rng.randrange(len(specs))
        if not any(cc.get("role") == f"body:{k}" for cc in c.get("comps", [])):
            cc = gen_comp(rng, "valid", comp="RTFBody")
            cc["extra"] = dict(page_by="page_by" in specs[k], new_page=True)
            cc["role"] = f"body:{k}"
            c.setdefault("comps", []).append(cc)
            c["new_page_inline"] = True
    c["shaped"] = True
    return c


def gen_missing_col_cases(seed):
    """systematic: grouping option × string / list form × position of the missing name × data shape × section
    layout, each with its legal twin (the same call without the missing name)"""
    cases = []
    k = 0
    layouts = [("single", 1, 0), ("multi", 1, 0), ("multi", 2, 0), ("multi", 2, 1), ("multi", 3, 0), ("multi", 3, 1),
               ("multi", 3, 2)]
    forms = [("str", "only"), ("list", "only"), ("list", "first"), ("list", "inner"), ("list", "last")]
    for key in GROUP_KEYS:
        for form, pos in forms:
            for shape in (0, 1, 3, 50, "nocols"):
                for kind, nsec, badsec in layouts:
                    for twin in (False, True):
                        rng = sub_rng(seed, "c19cols", k)
                        k += 1
                        secs, rows = [], []
                        for j in range(nsec):
                            if j == badsec:
                                cols = [] if shape == "nocols" else rng.sample(COLS, rng.randint(3, 5))
                                n = 0 if shape == "nocols" else shape
                            else:
                                cols = rng.sample(COLS, rng.randint(1, 4))
                                n = rng.choice(ROW_CHOICES)
                            secs.append(cols)
                            rows.append(n)
                        cols = secs[badsec]
                        miss = rng.choice(MISSING)
                        good = rng.sample(cols, min(len(cols), {"only": 0, "first": 1, "last": 1, "inner": 2}[pos]))
                        if twin:
                            names = good or cols[:1]
                        elif pos == "first":
                            names = [miss] + good
                        elif pos == "last":
                            names = good + [miss]
                        elif pos == "inner":
                            names = good[:1] + [miss] + good[1:]
                        else:
                            names = [miss]
                        bodies = []
                        for j in range(nsec):
                            bs = {}
                            if j == badsec:
                                if names:
                                    bs[key] = names
                                    if form == "str" and len(names) == 1:
                                        bs["_str"] = [key]
                                # the other grouping options of the same body: legal, now and then
                                for g in GROUP_KEYS:
                                    if g != key and cols and rng.random() < 0.25:
                                        bs[g] = rng.sample(cols, 1)
                            elif secs[j] and rng.random() < 0.4:
                                bs[rng.choice(GROUP_KEYS)] = rng.sample(secs[j], 1)
                            bodies.append(bs)
                        c = dict(kind="doc", mode="valid" if twin else "bad", rule="cols", comps=[], figure=False,
                                 shaped=True, missing=None if twin else dict(key=key, form=form, pos=pos, sec=badsec, of=nsec))
                        if kind == "single":
                            c.update(df={"single": secs[0], "rows": rows[0]}, body={"single": bodies[0]},
                                     header=rng.choice([{"flat": 1}, {"flat": 0}]))
                        else:
                            c.update(df={"multi": secs, "rows": rows}, body={"multi": bodies},
                                     header=rng.choice([{"flat": 1}, {"nested": nsec}, {"flat": 0}]))
                        cases.append(c)
    return cases


def gen_shape_cases(seed, tier):
    """every document rule (missing grouping columns, df xor figure, list lengths, figure rules, inline
    components, new_page) over 0 / 1 / few / many rows, no columns, an empty section anywhere in a list"""
    n = 900 if tier == "quick" else 18000
    cases = gen_missing_col_cases(seed)
    for k in range(n):
        rng = sub_rng(seed, "c19shape", k)
        r = rng.random()
        mode = "bad" if r < 0.55 else ("valid" if r < 0.85 else "free")
        cases.append(apply_shape(rng, gen_doc(rng, mode)))
    return cases


# ------------------------------------------------------------------ near-valid strings for every string-coded option

# characters a file / spreadsheet / copy-paste / terminal leaves around a code word, and that `$`, `\s`, `strip()`,
# `split()`, `splitlines()`, `casefold()`, C-string handling or a Unicode normalisation would swallow
WS = [("LF", "\n"), ("CR", "\r"), ("CRLF", "\r\n"), ("TAB", "\t"), ("SP", " "), ("NUL", "\x00"), ("VT", "\x0b"),
      ("FF", "\x0c"), ("FS", "\x1c"), ("US", "\x1f"), ("NEL", "\x85"), ("NBSP", "\xa0"), ("LS", "\u2028"),
      ("PS", "\u2029"), ("EMSP", "\u2003"), ("IDSP", "\u3000"), ("ZWSP", "\u200b"), ("BOM", "\ufeff")]
WS_KINDS = ["suffix", "prefix", "suffix2", "inner", "both", "only", "suffix_mixed"]
PLAIN_KINDS = ["upper", "title", "swapcase", "repeat", "repeat3", "repeat_sep", "empty", "sub_valid", "sub_bad",
               "sub_upper"]
STR_CLASSES = ("border", "color", "format", "textJust", "rowJust", "vertAlign")
FIG_STR = dict(fig_align=["left", "center", "right"], fig_pos=["before", "after"])
PAGEBY_ROW = ["column", "first_row"]


def near_slots():
    """every string-coded option C19 speaks about: (constructor, option, value class)"""
    slots = []
    for comp in TABLE_COMPS + TEXT_COMPS:
        for f in (TABLE_FIELDS if comp in TABLE_COMPS else TEXT_FIELDS):
            if FIELD_CLASS[f] in STR_CLASSES:
                slots.append(("comp", comp, f, FIELD_CLASS[f]))
    slots.append(("pageby_row", "RTFBody", "pageby_row", "pagebyRow"))
    for f in PAGE_STR:
        slots.append(("page", "RTFPage", f, "border" if f.startswith("border") else
                      "orientation" if f == "orientation" else "placement"))
    for f in FIG_STR:
        slots.append(("figure", "RTFFigure", f, "figAlign" if f == "fig_align" else "figPos"))
    return slots


def near_good(rng, slot):
    """a documented legal value of the slot (the seed of the variant)"""
    kind, _, f, cls = slot
    if kind == "comp":
        return good_value(rng, cls)
    if kind == "pageby_row":
        return rng.choice(PAGEBY_ROW)
    if kind == "page":
        return rng.choice(PAGE_STR[f][0])
    return rng.choice(FIG_STR[f])


def near_variant(rng, slot, vkind, w):
    """a near-valid variant of a legal value of the slot: white space / control characters around or inside it,
    another letter case, the value repeated, the empty string, a `str` subclass.  Whether the result is legal is
    NOT decided here (e.g. "bb" is a legal format, "" a legal border): the Lean specification decides."""
    g = near_good(rng, slot)
    for _ in range(8):  # the variants need a non-empty seed (the empty one is "only" / "empty")
        if g:
            break
        g = near_good(rng, slot)
    if vkind == "suffix":
        return g + w
    if vkind == "prefix":
        return w + g
    if vkind == "suffix2":
        return g + w + w
    if vkind == "both":
        return w + g + w
    if vkind == "only":
        return w if rng.random() < 0.6 else w + w
    if vkind == "suffix_mixed":
        return g + rng.choice(WS)[1] + w
    if vkind == "inner":
        if len(g) < 2:
            g2 = near_good(rng, slot)
            g = g + (g2 or g)  # two code words with the character between them ("b\ni", "l\nc")
        k = rng.randint(1, len(g) - 1)
        return g[:k] + w + g[k:]
    if vkind == "upper":
        return g.upper()
    if vkind == "title":
        return g.title() if rng.random() < 0.5 else g[:-1] + g[-1:].upper()
    if vkind == "swapcase":
        k = rng.randrange(len(g)) if g else 0
        return g[:k] + g[k:k + 1].upper() + g[k + 1:]
    if vkind == "repeat":
        return g + g
    if vkind == "repeat3":
        return g + g + near_good(rng, slot)
    if vkind == "repeat_sep":
        return g + rng.choice([" ", ",", ";", "|", "+", "/", ", "]) + (near_good(rng, slot) or g)
    if vkind == "empty":
        return ""
    if vkind == "sub_valid":
        return StrSub(g)
    if vkind == "sub_bad":
        return StrSub(g + w)
    if vkind == "sub_upper":
        return StrSub(g.upper())
    raise ValueError(vkind)


def embed_value(rng, cls, shape, value):
    """a raw value of the given shape holding `value` at a random position among legal values"""
    t, dims = shape
    n = 1 if t == "scalar" else dims if t in ("flat", "tuple") else sum(dims)
    if n == 0:
        t, dims, n = "flat", 1, 1
    at = rng.choice([0, n - 1, rng.randrange(n)])
    vals = [jv(value) if i == at else jv(good_value(rng, cls)) for i in range(n)]
    pc = "first" if at == 0 else "last" if at == n - 1 else "inner"
    if t == "scalar":
        return {"t": t, "v": vals[0]}, pc
    if t in ("flat", "tuple"):
        return {"t": t, "v": vals}, pc
    rows, k = [], 0
    for wd in dims:
        rows.append(vals[k:k + wd])
        k += wd
    return {"t": t, "v": rows}, ("row0" if at < dims[0] else "row+")


_ROLE_OF = dict(RTFBody="body:0", RTFTitle="title", RTFFootnote="footnote", RTFSource="source",
                RTFColumnHeader="header", RTFSubline="subline", RTFPageHeader="page_header",
                RTFPageFooter="page_footer")


def near_case(rng, slot, vkind, wname, w, in_doc=False):
    kind, ctor, f, cls = slot
    v = near_variant(rng, slot, vkind, w)
    near = dict(slot=f"{ctor}.{f}", cls=cls, vkind=vkind, ws=wname if vkind in WS_KINDS or vkind == "sub_bad" else None)
    if kind == "comp":
        shape = make_shape(rng, ("scalar", "scalar", "flat", "tuple", "nested"))
        raw, pc = embed_value(rng, cls, shape, v)
        kw, shapes, pcs = [[f, raw]], [raw["t"]], [pc]
        if rng.random() < 0.3:  # a second, legal attribute next to it
            pool = TABLE_FIELDS if ctor in TABLE_COMPS else TEXT_FIELDS
            f2 = rng.choice([x for x in pool if x != f])
            sh2 = make_shape(rng, ("scalar", "flat", "tuple") if f2 == "col_rel_width" else
                             ("scalar", "flat", "tuple", "nested"))
            raw2, _ = fill(rng, FIELD_CLASS[f2], sh2, 0)
            kw.append([f2, raw2])
            shapes.append(raw2["t"])
            pcs.append("none")
        c = dict(kind="comp", comp=ctor, kw=kw, extra={}, mode="near", shapes=shapes, pos=pcs)
        if in_doc:
            # the same call as a component built inline for a document: "no document object and no RTF string"
            c["role"] = _ROLE_OF[ctor]
            if ctor == "RTFBody":
                c["extra"] = dict(page_by=False, new_page=False)
            c = dict(kind="doc", mode="near", rule="inline", comps=[c], figure=False, shaped=True,
                     df={"single": ["a", "b"], "rows": rng.choice([0, 1, 2])}, body={"single": {}},
                     header={"flat": 1})
    elif kind == "pageby_row":
        kw, shapes, pcs = [], [], []
        if rng.random() < 0.4:
            f2 = rng.choice(TABLE_FIELDS)
            sh2 = make_shape(rng, ("scalar", "flat", "tuple") if f2 == "col_rel_width" else
                             ("scalar", "flat", "tuple", "nested"))
            raw2, _ = fill(rng, FIELD_CLASS[f2], sh2, 0)
            kw, shapes, pcs = [[f2, raw2]], [raw2["t"]], ["none"]
        extra = {"pageby_row": jv(v)}
        if rng.random() < 0.4:
            extra["page_by"], extra["new_page"] = True, rng.random() < 0.5
        c = dict(kind="comp", comp="RTFBody", kw=kw, extra=extra, mode="near", shapes=shapes, pos=pcs)
    elif kind == "page":
        kw = [[f, {"t": "scalar", "v": jv(v)}]]
        if rng.random() < 0.3:
            f2 = rng.choice([x for x in PAGE_STR if x != f])
            kw.append([f2, {"t": "scalar", "v": jv(rng.choice(PAGE_STR[f2][0]))}])
        c = dict(kind="page", kw=kw, mode="near", narrow=False)
    else:
        c = dict(kind="figure", mode="near", figures=[True] * rng.choice([1, 2]), single_path=False)
        c[f] = jv(v)
        other = "fig_pos" if f == "fig_align" else "fig_align"
        if rng.random() < 0.3:
            c[other] = jv(rng.choice(FIG_STR[other]))
    c["near"] = near
    return c


def near_doc_names(seed):
    """grouping names that are a column name plus such a character (a name read from a file): not a column"""
    cases, k = [], 0
    for key in GROUP_KEYS:
        for wname, w in WS:
            for form in ("str", "list"):
                rng = sub_rng(seed, "c19nearcol", k)
                k += 1
                cols = rng.sample(COLS, rng.randint(2, 4))
                col = rng.choice(cols)
                vk = rng.choice(["suffix", "prefix", "suffix2", "upper"])
                miss = dict(suffix=col + w, prefix=w + col, suffix2=col + w + w, upper=col.upper())[vk]
                names = [miss] if form == "str" else rng.choice([[miss], [c for c in cols if c != col][:1] + [miss],
                                                                 [miss] + [c for c in cols if c != col][:1]])
                bs = {key: names}
                if form == "str":
                    bs["_str"] = [key]
                multi = rng.random() < 0.35
                c = dict(kind="doc", mode="near", rule="cols", comps=[], figure=False, shaped=True,
                         near=dict(slot=f"RTFBody.{key} (column names)", cls="column", vkind=vk,
                                   ws=None if vk == "upper" else wname))
                if multi:
                    c.update(df={"multi": [cols, ["a"]], "rows": [rng.choice(ROW_CHOICES), 1]},
                             body={"multi": [bs, {}]}, header={"flat": 1})
                else:
                    c.update(df={"single": cols, "rows": rng.choice(ROW_CHOICES)}, body={"single": bs},
                             header={"flat": 1})
                cases.append(c)
    return cases


def gen_near_cases(seed, tier):
    """systematic: every string-coded option × every character as a trailing character, × one more placement of
    every character (prefix / doubled / inner / both sides / alone / after another such character), × every other
    variant kind; then random draws.  Shapes and positions random; about one component call in seven runs as a
    component built inline for an `RTFDocument`."""
    slots = near_slots()
    cases, k = [], 0
    reps = 1 if tier == "quick" else 6
    for _ in range(reps):
        for slot in slots:
            for wname, w in WS:
                for vk in ("suffix", None):
                    rng = sub_rng(seed, "c19near", k)
                    k += 1
                    vkind = vk or rng.choice(WS_KINDS[1:])
                    cases.append(near_case(rng, slot, vkind, wname, w,
                                           in_doc=slot[0] == "comp" and rng.random() < 0.15))
            for vkind in PLAIN_KINDS:
                rng = sub_rng(seed, "c19near", k)
                k += 1
                wname, w = rng.choice(WS)
                cases.append(near_case(rng, slot, vkind, wname, w, in_doc=slot[0] == "comp" and rng.random() < 0.1))
    n = 600 if tier == "quick" else 20000
    for j in range(n):
        rng = sub_rng(seed, "c19nearrnd", j)
        slot = rng.choice(slots)
        wname, w = rng.choice(WS)
        vkind = rng.choice(WS_KINDS + WS_KINDS + PLAIN_KINDS)
        cases.append(near_case(rng, slot, vkind, wname, w, in_doc=slot[0] == "comp" and rng.random() < 0.1))
    return cases + near_doc_names(seed)


def count_near(res, c, d):
    nr = c["near"]
    res.count(f"near:{nr['cls']}:{nr['vkind']}:{d['spec']}")
    if nr.get("ws"):
        res.count(f"near_char:{nr['ws']}:{nr['vkind']}")
    res.count(f"near_slot:{nr['slot']}")
    if c["kind"] == "doc" and c.get("comps"):
        res.count("near_in_document:component built inline for RTFDocument")


# ------------------------------------------------------------------ running the real code

_PNG = bytes.fromhex("89504e470d0a1a0a0000000d4948445200000001000000010806000000"
                     "1f15c4890000000d49444154789c6360000002000001e221bc330000000049454e44ae426082")
_FIGDIR = None


def _figpath(exists: bool, k: int) -> str:
    global _FIGDIR
    if _FIGDIR is None or not os.path.isdir(_FIGDIR):
        _FIGDIR = tempfile.mkdtemp(prefix="rtfv_c19_")
        with open(os.path.join(_FIGDIR, "ok.png"), "wb") as f:
            f.write(_PNG)
    return os.path.join(_FIGDIR, "ok.png" if exists else f"missing_{k}.png")


def _classify(e) -> dict:
    if isinstance(e, FileNotFoundError):
        pi = "FileNotFoundError"
    elif isinstance(e, ValueError):
        pi = "ValueError"
    else:
        pi = "other"
    return dict(pi=pi, exc=type(e).__name__, msg=str(e).replace("\n", " ")[:160])


def _comp_kwargs(case):
    kw = {f: praw(r) for f, r in case["kw"]}
    ex = case.get("extra") or {}
    if "pageby_row" in ex:
        kw["pageby_row"] = pv(ex["pageby_row"])
    if "new_page" in ex:
        kw["new_page"] = ex["new_page"]
    if ex.get("page_by"):
        kw.setdefault("page_by", ["a"])
    if "as_table" in ex:
        kw["as_table"] = pv(ex["as_table"])
    for k, v in (ex.get("also") or {}).items():
        kw[k] = list(v)
    return kw


def _construct_comp(case, extra_kw=None):
    import rtflite.input as inp

    cls = getattr(inp, case["comp"])
    kw = _comp_kwargs(case)
    if extra_kw:
        for k, v in extra_kw.items():
            kw[k] = v
    if case["comp"] in ("RTFTitle", "RTFSubline", "RTFPageHeader", "RTFPageFooter", "RTFFootnote", "RTFSource"):
        kw.setdefault("text", "some text")
    return cls(**kw)


def _frame(cols, nrows=3):
    """a frame of string columns with `nrows` rows (0 = a "no observations" table; no columns = no rows)"""
    import polars as pl

    vals = [("x", "y", "z")[i % 3] + (str(i // 3) if i >= 3 else "") for i in range(nrows)]
    return pl.DataFrame({c: list(vals) for c in cols}, schema={c: pl.Utf8 for c in cols})


def _frames(df):
    """the `df` argument of a document case: {"single": cols, "rows": n} | {"multi": [cols…], "rows": [n…]}"""
    if "single" in df:
        return _frame(df["single"], df.get("rows", 3))
    rows = df.get("rows") or [3] * len(df["multi"])
    return [_frame(c, n) for c, n in zip(df["multi"], rows)]


def _grouping(bs):
    """RTFBody grouping arguments of a body spec; one-name options listed under "_str" in the string form"""
    as_str = bs.get("_str") or []
    return {g: (v[0] if (g in as_str and len(v) == 1) else list(v)) for g, v in bs.items() if g != "_str"}


def _worker(case):
    """→ dict(pi=ok|ValueError|FileNotFoundError|other, exc, msg, stage)"""
    try:
        import rtflite as rtf
        import rtflite.input as inp
    except Exception as e:  # noqa: BLE001
        return dict(pi="unavailable", exc=type(e).__name__, msg=str(e)[:200], stage="import")
    kind = case["kind"]
    stage = "component"
    try:
        if kind == "comp":
            _construct_comp(case)
        elif kind == "page":
            inp.RTFPage(**{f: praw(r) for f, r in case["kw"]})
        elif kind == "figure":
            kw = {}
            for k in ("fig_align", "fig_pos"):
                if k in case:
                    kw[k] = pv(case[k])
            for k in ("fig_width", "fig_height"):
                if k in case:
                    kw[k] = praw(case[k])
            if case.get("figures") is not None:
                paths = [_figpath(e, i) for i, e in enumerate(case["figures"])]
                kw["figures"] = paths[0] if (case.get("single_path") and len(paths) == 1) else paths
            inp.RTFFigure(**kw)
        elif kind == "doc":
            built = {}
            body = case.get("body")
            bspecs = None if body is None else (body["multi"] if "multi" in body else [body["single"]])
            by_role = {cc["role"]: cc for cc in case.get("comps", [])}
            bodies = []
            # components first, in the order the driver evaluates them: bodies by index, then the others by role
            if bspecs is not None:
                for k, bs in enumerate(bspecs):
                    cc = by_role.get(f"body:{k}")
                    grouping = _grouping(bs)
                    if cc is not None:
                        bodies.append(_construct_comp(cc, grouping))
                    else:
                        bodies.append(inp.RTFBody(**grouping))
            for role in sorted(r for r in by_role if not r.startswith("body")):
                built[role] = _construct_comp(by_role[role])
            kw = {}
            df = case.get("df")
            if df is not None:
                kw["df"] = _frames(df)
            if body is None:
                kw["rtf_body"] = None
            elif "multi" in body:
                kw["rtf_body"] = bodies
            else:
                kw["rtf_body"] = bodies[0]
            hd = case.get("header")
            if hd is not None:
                if "flat" in hd:
                    hs = [built["header"]] if ("header" in built and hd["flat"] >= 1) else []
                    while len(hs) < hd["flat"]:
                        hs.append(inp.RTFColumnHeader())
                    kw["rtf_column_header"] = hs
                else:
                    kw["rtf_column_header"] = [[inp.RTFColumnHeader()] if k == 0 else [None] for k in range(hd["nested"])]
            elif "header" in built:
                kw["rtf_column_header"] = [built["header"]]
            if case.get("figure"):
                kw["rtf_figure"] = inp.RTFFigure(figures=[_figpath(True, 0)])
            if case.get("footnote") is not None:
                kw["rtf_footnote"] = inp.RTFFootnote(text="fn", as_table=case["footnote"])
            elif "footnote" in built:
                kw["rtf_footnote"] = built["footnote"]
            if case.get("source") is not None:
                kw["rtf_source"] = inp.RTFSource(text="src", as_table=case["source"])
            elif "source" in built:
                kw["rtf_source"] = built["source"]
            for role, arg in (("title", "rtf_title"), ("subline", "rtf_subline"), ("page_header", "rtf_page_header"),
                              ("page_footer", "rtf_page_footer")):
                if role in built:
                    kw[arg] = built[role]
            stage = "document"
            doc = rtf.RTFDocument(**kw)
            stage = "encode"
            if case.get("encode", True):
                try:
                    s = doc.rtf_encode()
                    return dict(pi="ok", exc=None, msg="", stage="done", encoded=isinstance(s, str))
                except Exception as e:  # noqa: BLE001  (not C19's business, reported for context only)
                    return dict(pi="ok", exc=None, msg="", stage="done", encoded=False,
                                encode_error=f"{type(e).__name__}: {str(e)[:100]}")
        else:
            raise common.MachineryError(f"unknown case kind {kind}")
    except common.MachineryError:
        raise
    except Exception as e:  # noqa: BLE001
        out = _classify(e)
        out["stage"] = stage
        return out
    return dict(pi="ok", exc=None, msg="", stage="done")


def _probe_encode(case):
    """for the message of a failure: does the accepted (but illegal) configuration blow up later?"""
    if case["kind"] != "comp" or case["comp"] != "RTFBody":
        return ""
    try:
        import rtflite as rtf

        body = _construct_comp(case, {"page_by": None, "new_page": False})
        rtf.RTFDocument(df=_frame(["a", "b"]), rtf_body=body).rtf_encode()
        return "; a document using it still encodes"
    except Exception as e:  # noqa: BLE001
        return f"; and rtf_encode() of a document using it then raises {type(e).__name__}: {str(e)[:80]}"


# ------------------------------------------------------------------ model / oracle

def _request(case):
    kind = case["kind"]
    if kind == "comp":
        return dict(op="c19_comp", comp=case["comp"], kw=case["kw"], extra=case.get("extra") or {})
    if kind == "page":
        return dict(op="c19_page", kw=case["kw"])
    if kind == "figure":
        rq = dict(op="c19_figure")
        for k in ("fig_align", "fig_pos", "fig_width", "fig_height"):
            if k in case:
                rq[k] = case[k] if case[k] is not None else {"t": "none"}
        if case.get("figures") is not None:
            rq["figures"] = case["figures"]
        return rq
    rq = dict(op="c19_doc", figure=bool(case.get("figure")))
    for k in ("df", "body", "header", "footnote", "source"):
        if case.get(k) is not None:
            rq[k] = case[k]
    if case.get("body") is not None:
        # the body of section k as the document sees it: grouping names from the spec, new_page / pageby_row from the
        # inline component that builds it (defaults otherwise) — the group_by-on-a-removed-column rule reads them
        import copy

        rq["body"] = copy.deepcopy(case["body"])
        specs = rq["body"]["multi"] if "multi" in rq["body"] else [rq["body"]["single"]]
        for cc in case.get("comps", []):
            role = cc.get("role", "")
            if role.startswith("body:") and int(role.split(":")[1]) < len(specs):
                ex = cc.get("extra") or {}
                bs = specs[int(role.split(":")[1])]
                bs["new_page"] = bool(ex.get("new_page", False))
                pr = ex.get("pageby_row")
                bs["pageby_column"] = True if pr is None else (pr == jv("column"))
    comps = sorted(case.get("comps", []), key=lambda cc: (not cc["role"].startswith("body"),
                                                          int(cc["role"].split(":")[1]) if ":" in cc["role"] else 0,
                                                          cc["role"]))
    rq["comps"] = [dict(comp=cc["comp"], kw=cc["kw"], extra=cc.get("extra") or {}) for cc in comps]
    return rq


def _model_pi(m: str) -> str:
    if m == "ok":
        return "ok"
    if m in ("ValidationError", "ValueError"):
        return "ValueError"
    if m == "FileNotFoundError":
        return "FileNotFoundError"
    return "other"


def _describe(case) -> str:
    k = case["kind"]
    if k == "comp":
        kw = _comp_kwargs(case)
        return f"{case['comp']}(" + ", ".join(f"{a}={v!r}" for a, v in kw.items()) + ")"
    if k == "page":
        return "RTFPage(" + ", ".join(f"{f}={praw(r)!r}" for f, r in case["kw"]) + ")"
    if k == "figure_at":
        from . import c19_hist

        return c19_hist.describe_call(case, case.get("_status"))
    if k == "hist":
        return f"history of {len(case['steps'])} steps ({case.get('theme')}:{case.get('scenario')})"
    if k == "figure":
        parts = []
        for a in ("fig_align", "fig_pos"):
            if a in case:
                parts.append(f"{a}={pv(case[a])!r}")
        for a in ("fig_width", "fig_height"):
            if a in case:
                parts.append(f"{a}={praw(case[a])!r}")
        parts.append(f"figures exist={case.get('figures')}")
        return "RTFFigure(" + ", ".join(parts) + ")"
    return ("RTFDocument(df=%s, rtf_body=%s, header=%s, figure=%s, footnote=%s, source=%s; inline comps=%s)" % (
        case.get("df"), case.get("body"), case.get("header"), case.get("figure"), case.get("footnote"),
        case.get("source"), [(cc["role"], _describe(cc)) for cc in case.get("comps", [])]))


def judge(res, case, ob, drv):
    """oracle (spec verdict vs implementation) and correspondence (model vs implementation under π)"""
    spec, model = drv["spec"], _model_pi(drv["model"])
    pi = ob["pi"]
    what = _describe(case)
    bad = None
    if spec == "reject" and pi != "ValueError":
        bad = "must raise ValueError (pydantic ValidationError included) at construction"
    elif spec == "notFound" and pi != "FileNotFoundError":
        bad = "must raise FileNotFoundError"
    elif spec == "rejectAny" and pi not in ("ValueError", "FileNotFoundError"):
        bad = "must raise ValueError or FileNotFoundError"
    elif spec == "accept" and pi != "ok":
        bad = "is a valid configuration and must be accepted"
    if bad:
        got = "was accepted" if pi == "ok" else f"raised {ob['exc']}: {ob['msg']}"
        # (in a worker process: the parent must stay free of rtflite / polars state — common.fork_safe)
        tail = common.isolated(_probe_encode, case) if (pi == "ok" and spec != "accept") else ""
        if pi == "ok" and spec != "accept" and case["kind"] == "doc" and ob.get("stage") == "done":
            # "no document object and no RTF string": say what the accepted object then did
            if ob.get("encoded"):
                tail = "; a document object was produced and rtf_encode() returned an RTF string"
            elif ob.get("encode_error"):
                tail = f"; a document object was produced and rtf_encode() then raised {ob['encode_error']}"
        res.fail(case, f"{what} {bad}, but {got}{tail}")
        return True
    if pi != model:
        res.disagree(case, f"{what}: implementation {pi} ({ob.get('exc')}: {ob.get('msg')}) != model {drv['model']} "
                           f"(spec verdict {spec})")
        return True
    return False


# ------------------------------------------------------------------ unit level: _to_nested_list

def _unit_worker(raw):
    try:
        from rtflite.attributes import _to_nested_list
    except Exception as e:  # noqa: BLE001
        return ("unavailable", f"{type(e).__name__}: {e}")
    try:
        out = _to_nested_list(praw(raw))
    except TypeError:
        return ("error", "TypeError")
    except Exception as e:  # noqa: BLE001
        return ("error", type(e).__name__)
    if out is None:
        return ("value", None)
    try:
        return ("value", [[jv(x) for x in row] for row in out])
    except TypeError:
        return ("value", "unrepresentable")


def run_unit(res, tier):
    n = 600 if tier == "quick" else 12000
    raws = []
    for k in range(n):
        rng = sub_rng(res.seed, "c19unit", k)
        cls = rng.choice(list(DOC) + ["font", "posInt", "posFloat"])
        r = rng.random()
        if r < 0.1:
            raw = rng.choice([{"t": "flat", "v": []}, {"t": "tuple", "v": []}, {"t": "nested", "v": []},
                              {"t": "nested", "v": [[]]}, {"t": "none"}, {"t": "flat", "v": [None]},
                              {"t": "flat", "v": [None, None, None]}, {"t": "tuple", "v": [None]},
                              {"t": "flat", "v": [None, jv(1)]}])
        else:
            raw, _ = fill(rng, cls, make_shape(rng), rng.choice([0, 0, 1]), free=rng.random() < 0.3)
        raws.append(raw)
    obs = common.pool_map(_unit_worker, raws, chunksize=128)
    if obs and obs[0][0] == "unavailable":
        res.notes.append("unit correspondence (_to_nested_list) unavailable: " + str(obs[0][1]))
        res.count("unit_unavailable", len(raws))
        return
    outs = common.driver_batch([dict(op="c19_to_nested", raw=r) for r in raws])
    for raw, o, d in zip(raws, obs, outs):
        case = dict(kind="unit_to_nested", raw=raw)
        res.case(case, None)
        res.count("unit:_to_nested_list")
        res.corr_checked += 1
        if o[0] == "error":
            if d.get("error_kind") != o[1]:
                res.disagree(case, f"_to_nested_list({praw(raw)!r}) raised {o[1]}, model {d}")
        elif "error_kind" in d or d.get("value") != o[1]:
            res.disagree(case, f"_to_nested_list({praw(raw)!r}) = {o[1]}, model {d}")


# ------------------------------------------------------------------ table cross-check

def check_tables(res):
    try:
        from rtflite.core.constants import RTFConstants as K
        from rtflite.dictionary.color_table import color_table
        from rtflite.fonts_mapping import FontMapping
    except Exception as e:  # noqa: BLE001
        res.notes.append(f"table cross-check unavailable: {type(e).__name__}: {e}")
        return
    d = common.driver_batch([dict(op="c19_tables")])[0]
    want = dict(border=list(K.BORDER_CODES), format=list(K.FORMAT_CODES), text_just=list(K.TEXT_JUSTIFICATION_CODES),
                row_just=list(K.ROW_JUSTIFICATION_CODES), vert=list(K.VERTICAL_ALIGNMENT_CODES),
                fonts=[int(x) for x in FontMapping.get_font_table()["type"]], n_colors=len(color_table))
    for k, v in want.items():
        if d.get(k) != v:
            raise common.MachineryError(f"translator out of date: table {k}: lean {d.get(k)} != source {v}")


# ------------------------------------------------------------------ anchored-function line coverage (thorough)

_ANCHOR_FILES = ("rtflite/attributes.py", "rtflite/input.py", "rtflite/encode.py")
_ANCHOR_FUNCS = ("validate", "_validate", "convert_", "_to_nested_list")


def line_coverage(cases):
    """executed / executable lines of the validator functions while running `cases` in-process"""
    import sys

    hit: dict = {}
    codes: dict = {}

    def tracer(frame, event, arg):
        co = frame.f_code
        fn = co.co_filename.replace("\\", "/")
        if not fn.endswith(_ANCHOR_FILES) or not co.co_name.startswith(_ANCHOR_FUNCS):
            return None
        key = (fn.split("rtflite/")[-1], co.co_name, co.co_firstlineno)
        codes[key] = co
        hit.setdefault(key, set())

        def local(frame, event, arg):
            if event == "line":
                hit[key].add(frame.f_lineno)
            return local
        return local

    sys.settrace(tracer)
    try:
        for c in cases:
            _worker(c)
    finally:
        sys.settrace(None)
    out = {}
    for key, co in codes.items():
        lines = {ln for (_, _, ln) in co.co_lines() if ln is not None and ln != co.co_firstlineno}
        got = hit[key] & lines
        out[f"{key[0]}:{key[1]}@{key[2]}"] = f"{len(got)}/{len(lines)}" + (
            "" if got == lines else " missing " + ",".join(str(x) for x in sorted(lines - got)[:8]))
    return dict(sorted(out.items()))


# ------------------------------------------------------------------ run

def corpus_cases():
    import json

    d = common.CORPUS / "C19"
    out = []
    if d.is_dir():
        for f in sorted(d.glob("*.json")):
            c = json.loads(f.read_text())
            c.setdefault("mode", "corpus")
            if c.get("kind") == "hist":
                continue  # histories: run by c19_hist (one fresh process each)
            out.append(c)
    return out


def gen_cases(seed, tier):
    n = 3000 if tier == "quick" else 60000
    cases = []
    # systematic part: every (component, field) × {bad, valid} at least twice
    k = 0
    for comp in TABLE_COMPS + TEXT_COMPS:
        for f in (TABLE_FIELDS if comp in TABLE_COMPS else TEXT_FIELDS):
            for mode in ("bad", "valid", "bad"):
                rng = sub_rng(seed, "c19sys", k)
                k += 1
                c = gen_comp(rng, mode, comp=comp, field=f)
                cases.append(c)
    for k in range(n):
        rng = sub_rng(seed, "c19", k)
        r = rng.random()
        mode = "bad" if r < 0.55 else ("valid" if r < 0.85 else "free")
        kind = rng.choice(["comp"] * 10 + ["page"] * 3 + ["figure"] * 2 + ["doc"] * 4)
        if kind == "comp":
            c = gen_comp(rng, mode)
        elif kind == "page":
            c = gen_page(rng, mode)
        elif kind == "figure":
            c = gen_figure(rng, mode)
        else:
            c = gen_doc(rng, mode)
        cases.append(c)
    return cases + gen_shape_cases(seed, tier) + gen_near_cases(seed, tier)


def nontrivial_key(case, drv):
    if drv["spec"] == "free":
        return None
    k = case["kind"]
    if k == "comp":
        return (k, case["comp"], tuple(f for f, _ in case["kw"]), tuple(case.get("shapes", ())),
                tuple(case.get("pos", ())), repr(case["kw"])[:200], drv["spec"])
    return (k, repr({a: b for a, b in case.items() if a not in ("mode",)})[:300], drv["spec"])


def count_shape(res, c, d):
    """input distribution of the data-shape streams"""
    df = c.get("df")
    frames = []
    if df is not None:
        frames = [(df["single"], df.get("rows", 3))] if "single" in df else list(zip(df["multi"], df["rows"]))
    classes = {("nocols" if not cols else "rows" + rows_class(n)) for cols, n in frames}
    for cl in sorted(classes):
        res.count(f"doc_shape:{c.get('rule')}:{cl}:{d['spec']}")
    if "multi" in (df or {}) and len(frames) > 1 and any(n == 0 for _, n in frames) and any(n > 0 for _, n in frames):
        res.count("doc_shape:list_with_an_empty_section")
    m = c.get("missing")
    if m:
        cols, n = frames[m["sec"]]
        cl = "nocols" if not cols else "rows" + rows_class(n)
        res.count(f"missing_col:{m['key']}:{m['form']}:{m['pos']}:{cl}")
        res.count(f"missing_col:section {m['sec'] + 1} of {m['of']}" + ("" if "multi" in df else " (single frame)")
                  + f":{cl}")
    if c.get("new_page_inline"):
        res.count(f"doc_shape:new_page_inline:{d['spec']}")
    body = c.get("body")
    specs = [] if body is None else (body["multi"] if "multi" in body else [body["single"]])
    if any(bs.get("_str") for bs in specs):
        res.count("doc_shape:grouping_as_string")


def run(res: common.Result, build) -> int:
    check_tables(res)
    run_unit(res, res.tier)
    cases = corpus_cases() + gen_cases(res.seed, res.tier)
    obs = common.pool_map(_worker, cases, chunksize=32)
    if any(o["pi"] == "unavailable" for o in obs):
        raise common.MachineryError("rtflite cannot be imported: " + next(o["msg"] for o in obs if o["pi"] == "unavailable"))
    drv = common.driver_batch([_request(c) for c in cases])
    for c, o, d in zip(cases, obs, drv):
        res.case(c, nontrivial_key(c, d))
        res.count(f"{c['kind']}:{c['mode']}")
        if c.get("narrow"):
            res.count(f"page:width-around-side-allowance:{d['spec']}")
        if c.get("near"):
            count_near(res, c, d)
        res.count(f"verdict:{d['spec']}")
        res.count(f"impl:{o['pi']}" + (f":{o['exc']}" if o["pi"] == "other" else ""))
        if c["kind"] == "comp":
            for (f, raw), pc in zip(c["kw"], c.get("pos", [])):
                if pc not in ("none",):
                    res.count(f"bad@{raw['t']}:{pc}")
        if c["kind"] == "doc":
            res.count(f"doc_rule:{c.get('rule')}")
            if c.get("shaped"):
                count_shape(res, c, d)
            if d.get("stage") and o["pi"] != "ok" and d["model"] != "ok" and d["stage"] != o["stage"]:
                res.disagree(c, f"{_describe(c)}: exception raised at stage {o['stage']}, model says {d['stage']}")
        res.corr_checked += 1
        judge(res, c, o, d)
    from . import c19_hist

    n_std = len(res.failures)
    c19_hist.run(res)
    c19_hist.settle_standalone(res, n_std)
    if res.tier == "thorough":
        res.extra["anchored_line_coverage"] = line_coverage(cases[:4000])
    return common.finish(
        res, build, RULE, TRUSTED, ASSUME,
        explanation="C19_* theorems: an illegal element at any position of any accepted shape of any validated field "
                    "makes field validation / component construction fail with a ValueError-class exception (never "
                    "another class), all-legal input is accepted, page / figure / document rules decided, generated "
                    "tables equal the documented value sets. Modelled tree = repaired tree (fixes d20, d25, "
                    "figure-size-positive). C19hist_*: over any history of file-system events and RTFFigure calls each "
                    "verdict is the one of the state at that call (a file missing now is refused although the same call "
                    "was accepted before, and conversely); histories are run in one process each and every call is "
                    "compared with that verdict.")


def replay(payload) -> int:
    case = payload.get("case")
    if case is None:
        for b in payload.get("broken", []):
            if b.get("kind") == "correspondence":
                case = b["case"]
    if case is None:
        print("replay file carries no case (proof-obligation failure): rebuild with ./check C19")
        return 1
    if case.get("kind") == "hist":
        from . import c19_hist

        return c19_hist.replay_case(case)
    if case.get("kind") == "unit_to_nested":
        o = _unit_worker(case["raw"])
        d = common.driver_batch([dict(op="c19_to_nested", raw=case["raw"])])[0]
        print("implementation:", o)
        print("model         :", d)
        bad = (o[0] == "error" and d.get("error_kind") != o[1]) or (o[0] == "value" and d.get("value") != o[1])
        if bad:
            print("VIOLATION property=C19 replay=<given> no-failing-input-found")
            return 1
        print("model and implementation agree on this input")
        return 0
    o = _worker(case)
    d = common.driver_batch([_request(case)])[0]
    print("call          :", _describe(case))
    print("implementation:", o)
    print("model         :", d["model"], "   specification verdict:", d["spec"])
    tmp = common.Result("C19", "quick", 0)
    judge(tmp, case, o, d)
    for _, why in tmp.failures:
        print("FAIL:", why)
    for _, why in tmp.disagreements:
        print("DISAGREE:", why)
    if tmp.failures:
        print("VIOLATION property=C19 replay=<given>")
        return 1
    if tmp.disagreements:
        print("VIOLATION property=C19 replay=<given> no-failing-input-found")
        return 1
    print("property holds on this input")
    return 0
