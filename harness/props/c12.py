"""C12 — colour and font references resolve to what the user asked for.

Theorems: lean/Props/C12.lean about `Model.Color` instantiated with the generated colour table.
Tie to the code on every run:
  unit level        real `color_service.generate_rtf_color_table`, `get_rtf_color_index` (explicit list, context
                    variable, no context), `Utils._get_color_index`, `RTFSyntaxGenerator.generate_font_table`,
                    `TextContent._get_text_formatting`, `collect_document_colors`   vs   the model (driver ops c12_*)
  observation level whole documents (single-section, multi-section, figure) through `rtf_encode()`; every text carries a
                    sentinel, so the element → requested colour / font mapping is known without trusting the layout;
                    the output is read back with harness/rtfread.py (colour table, font table, \\cf \\cb \\chcbpat \\f
                    of every run, \\brdrcf of every cell border).
  oracle            `Model.Color.checkRefs` / `fontUseOk` (Lean, driver op c12_check) evaluated on the *parsed output of
                    the implementation* with the requested colours taken from the document spec — independent of the model.
Documents are encoded in fresh interpreter processes started with different PYTHONHASHSEED values, because
`collect_document_colors` returns `list(set)` and the enumeration order of a set of strings depends on the hash seed.
"""
from __future__ import annotations

import json
import os
import re
import struct
import subprocess
import sys
import tempfile
import zlib

from .. import common, docgen, optdraw, rtfread
from ..common import sub_rng

RULE = ("unit: each of the 657 names alone, all 657 together, the full table, random lists of 1..8 names with '', "
        "'black', duplicates and (rarely) invalid names, shuffled, resolved through an explicit list / the context "
        "variable / no context; docs: sentinel-tagged single-section, multi-section (2..4 sections, own palettes) and "
        "figure documents with colours (text, background, border) and fonts on title, subline, page header/footer, "
        "column headers, body (scalar / per column / per row / matrix), footnote, source; plus documents whose coloured "
        "components have NO text of their own: column headers filled from the column names (as_colheader) with text / "
        "background / border colours in every combination -- alone, beside headers with text, two per section, not "
        "rendered (as_colheader=False), single-section (one page, paged, page_by) and multi-section (nested per section, "
        "flat) --, the page header with its default text, text components that print nothing; about a third of these "
        "documents have no other colour, most take the colours from a palette of their own; plus documents of both "
        "classes with EVERY OTHER constructor option drawn on top, over its documented value set: of RTFPage (use_color "
        "True / False / None, orientation, width, height, margin, nrow, col_width, border_first / border_last over all "
        "border codes, the three placements) and of every component the document builds (text_format, font size, "
        "justification, indents, spacing, hyphenation, text_convert, text_indent_reference, border styles / widths, cell "
        "height / alignment / nrow, col_rel_width, as_colheader, pageby_header, pageby_row, last_row, group_by on distinct "
        "cells, fig_align / fig_pos / sizes) -- the options are read from the classes' model_fields at run time "
        "(harness/optdraw.py), so options that are documented but without effect today, or added later, are drawn too; "
        "a failure on such a document is re-run without each drawn option to name the options it needs; plus PAGINATED "
        "documents (single-section 10..44 rows, multi-section 2..3 sections of 7..26 rows, page nrow 6..16, title / "
        "header / footnote rows varying, so pages begin at every phase) whose body text colour, background, font and "
        "the four border colours vary BY ROW in every broadcasting shape: p rows (one per table row, a recycled pattern "
        "of 2..nr-1 rows, more rows than the table) x q columns (1 as tuple or one-element rows, one per column, a "
        "recycled column pattern of 2..nc-1, more than the row has), also per-column lists shorter than the row; each "
        "cell's \\cf \\cb \\chcbpat \\f AND the \\brdrcf of each of its edges are resolved against the colour "
        "requested for that (table row, column, side) under value[r % rows][c % columns]; with and without the other "
        "constructor options on top; plus GROUPED tables with the same row-wise attributes (every shape, given for the "
        "ORIGINAL frame, key columns included): page_by of 1..3 levels with the group headings as spanning rows "
        "(new_page=False with pageby_row 'column' / 'first_row': several groups on a page, so the body of a page is "
        "rendered in segments that begin at page-relative rows > 0, inside the recycled patterns), new_page=True with the "
        "key column kept / taken out, subline_by of 1..2 levels, subline_by + page_by; 6..44 rows on pages of 8..26 "
        "rows (several pages AND several groups per page), key columns first or anywhere in the frame; every DATA cell "
        "is tied by its sentinel to (original row, original column) and its \\cf \\cb \\chcbpat \\f and the \\brdrcf of "
        "each edge must resolve to value[r % rows][c % columns]; group headings and key cells must name a colour / font "
        "requested for the body; with and without the other constructor options on top; non-trivial = "
        "at least one non-default colour resolved; distinct by (kind, colour table, references)")
TRUSTED = [
    "Lean 4.33 kernel; axioms ⊆ {propext, Classical.choice, Quot.sound} (audited per theorem on every run)",
    "Lean compiler for the driver executable (compiled evaluation agrees with kernel reduction)",
    "harness/translate.py: Generated.colorTable / fontTable / fontNumberToName are the tables of /repo",
    "harness/rtfread.py (Python RTF reader: colour table, font table, character properties of runs, cell borders)",
    "the requested colour / font of an element is read from the document spec by the harness (documented "
    "broadcasting value[r % rows][c % columns] with r the row of the TABLE (not of the page): scalar, per line, per "
    "column, per row, matrix, recycled row / column patterns), on one page and over several pages, c the column of "
    "the ORIGINAL frame (page_by / subline_by columns counted, wherever they stand)",
    "eight anchor colours (red, green, blue, white, black, yellow, cyan, magenta) pin the table to the X11/R values",
]
MANIFEST = dict(
    text="Lean theorems over the model of the colour service and the reference emitters, instantiated with the "
         "generated 657-row table (kernel-decided: master indices 1..657 identify rows, every printed code reads back "
         "as the row's RGB, names distinct): the dense table is the master-index-sorted duplicate-free list of the "
         "non-default colours; every collected non-default colour gets an index into that table whose entry is its own "
         "row (RGB equal); '' and 'black' are 0; no index ever dangles; the table is present iff a non-default colour is "
         "used; the result does not depend on the enumeration order of the collected set; every attribute value an "
         "emitter can print on the single-section, multi-section and figure path was collected; every font 1..10 is "
         "printed as \\f{n-1} and the font table entry \\f{n-1} carries its name. Model tied to the code on every run "
         "by unit correspondence (all 657 names, random lists) and by whole documents read back from rtf_encode() "
         "under several PYTHONHASHSEED values; the Lean oracle checkRefs judges the implementation's parsed output.",
    note="Border colours: a \\brdrcf of a body cell of the row-pattern documents must resolve to the colour requested for "
         "that cell's edge (row, column, side); any other \\brdrcf (headers, footnote, source, bodies with scalar border "
         "colours) must resolve to one of the requested border colours. border_color_first / _last are collected but "
         "printed on no cell. The element→requested-colour mapping comes from the harness' reading of the "
         "spec; row-varying attributes are used on single-page documents, on paginated single- and multi-section "
         "documents and on page_by / subline_by / page_by + subline_by tables (kind grouped-rows…): there the DATA cells "
         "are judged per cell (original row and column of the frame, key columns counted); a group heading (spanning "
         "row) prints the body's attributes at row 0 of its key column (encoder model: spanRead, C12enc_heading_cell) -- "
         "that reading is compared with the model, while the oracle only asks that every reference of a heading, or of "
         "a cell of a key column that stays in the table (one text in many rows), names an existing entry whose RGB is "
         "that of a colour requested for the body's text / background (0 = default) and a font requested for the body; "
         "multi-section documents have no page_by. Under subline_by every page_by group starts a page of its own "
         "(rtflite forces new_page), so segments at row offsets > 0 only arise without subline_by. "
         "A column header without text is filled "
         "with the displayed column names (sentinel-named columns) and judged like a header with text; when two "
         "text-less headers of a section print the same name, the k-th occurrence on a page is the k-th header's. "
         "Components that print nothing (title / subline / footnote / source / page footer without text, a text-less "
         "header under as_colheader=False) only take part in the collection correspondence. The option documents "
         "(kind …+options) draw every constructor option of the page and the components except the ones the property "
         "is about (colours, fonts: drawn by C12's own generators) and the structural ones its expectations are built "
         "on (texts, as_table, page_by with new_page / pageby_row, subline_by; as_colheader beside text-less headers); "
         "an explicit None for a list-valued text_* attribute is outside the domain (DESIGN 8: refused at encode "
         "time). evidence: coverage.options lists the options drawn per class and any option no rule could draw. "
         "The whole-encoder class (second tie) draws the options its serialisation does not transmit to the model "
         "(RTFPage.use_color, RTFBody.last_row, text_indent_reference, RTFFigure.fig_pos).",
    technique="Lean 4 proof (lists, permutations, stable sort; decide +kernel on the generated table) + differential "
              "correspondence model/implementation + Lean-defined oracle on the implementation's output",
    design="7/C12",
)
ASSUME = [
    "pydantic construction (defaults, scalar→list lifting) is outside the model: the model starts from the attribute "
    "values of the constructed components",
    "pagination / layout decide *which* element prints a value; C12 takes the element from its sentinel",
    "CPython `sorted` is stable and `list.index` returns the first match",
]

ANCHORS = {"red": (255, 0, 0), "green": (0, 255, 0), "blue": (0, 0, 255), "white": (255, 255, 255),
           "black": (0, 0, 0), "yellow": (255, 255, 0), "cyan": (0, 255, 255), "magenta": (255, 0, 255)}
TEXT_ROLES = ["title", "subline", "footnote", "source", "page_header", "page_footer"]
ROLE_ATTR = {"title": "rtf_title", "subline": "rtf_subline", "footnote": "rtf_footnote", "source": "rtf_source",
             "page_header": "rtf_page_header", "page_footer": "rtf_page_footer"}


# ------------------------------------------------------------------ helpers

def color_names():
    from rtflite.dictionary.color_table import color_table

    return [row[0] for row in color_table]


def same_rgb_groups():
    from rtflite.dictionary.color_table import color_table

    by = {}
    for row in color_table:
        by.setdefault((row[2], row[3], row[4]), []).append(row[0])
    return [v for v in by.values() if len(v) > 1]


def tiny_png(w=1, h=1) -> bytes:
    def ch(t, d):
        return struct.pack(">I", len(d)) + t + d + struct.pack(">I", zlib.crc32(t + d) & 0xFFFFFFFF)

    raw = b"".join(b"\x00" + b"\x00" * w for _ in range(h))
    return (b"\x89PNG\r\n\x1a\n" + ch(b"IHDR", struct.pack(">IIBBBBB", w, h, 8, 0, 0, 0, 0))
            + ch(b"IDAT", zlib.compress(raw)) + ch(b"IEND", b""))


def parse_color_table(text: str):
    """colour table text → (has_table, [None|(r,g,b)…]) with the strict reader"""
    doc = rtfread.read("{\\rtf1" + text + "}")
    return doc.has_colortbl, [None if c is None else list(c) for c in doc.colors]


def attr_json(v):
    """attribute value of a constructed component → Attr JSON of the model"""
    if v is None:
        return None
    if isinstance(v, tuple):
        return {"flat": [str(x) for x in v], "tuple": True}
    if isinstance(v, list):
        if v and all(isinstance(x, (list, tuple)) for x in v):
            return {"nested": [[str(y) for y in x] for x in v]}
        return {"flat": [str(x) for x in v], "tuple": False}
    if isinstance(v, str):
        return {"nested": [[v]]}
    raise common.MachineryError(f"unexpected attribute value {v!r}")


BORDER_FIELDS = ["border_color_left", "border_color_right", "border_color_top", "border_color_bottom",
                 "border_color_first", "border_color_last"]


def comp_json(c, borders=False):
    d = {"tc": attr_json(getattr(c, "text_color", None)), "bg": attr_json(getattr(c, "text_background_color", None))}
    if borders:
        d["bc"] = [attr_json(getattr(c, f, None)) for f in BORDER_FIELDS]
    return d


# ------------------------------------------------------------------ unit level

def _res(fn):
    """run fn → value | {'err': [class, index|None, name|None]}"""
    from rtflite.services.color_service import ColorValidationError

    try:
        return fn()
    except ColorValidationError as e:
        import re

        msg = str(e)
        m = re.search(r"Invalid color name '([^']*)' at index (\d+)", msg)
        if m:
            return {"err": ["invalidAt", int(m.group(2)), m.group(1)]}
        m = re.search(r"Invalid color name '([^']*)'", msg)
        return {"err": ["invalidName", None, m.group(1) if m else None]}
    except Exception as e:  # noqa: BLE001
        return {"err": [type(e).__name__, None, str(e)[:80]]}


def _unit_worker(case):
    """case: dict(kind='list', used=[..]|None, mode='explicit'|'context'|'none', queries=[..]) or kind='fonts'"""
    try:
        from rtflite.row import TextContent, Utils
        from rtflite.rtf.syntax import RTFSyntaxGenerator
        from rtflite.services.color_service import color_service as cs
    except (ImportError, AttributeError) as e:
        return ("unavailable", f"{type(e).__name__}: {e}")
    if case["kind"] == "fonts":
        out = {"table": _res(RTFSyntaxGenerator.generate_font_table), "refs": []}
        for n in case["fonts"]:
            out["refs"].append(_res(lambda n=n: TextContent(text="x", font=n)._get_text_formatting()))
        return out
    used, mode, qs = case["used"], case["mode"], case["queries"]
    out = {"table": _res(lambda: cs.generate_rtf_color_table(used))}
    cs.clear_document_context()
    try:
        if mode == "context":
            # (a palette that cannot be resolved may be refused when the context is set or when an index is asked
            # for: the refusal is attributed to every query either way — eager and lazy validation are the same thing
            # to a document)
            e = _res(lambda: cs.set_document_context(used_colors=used))
            if isinstance(e, dict) and "err" in e:
                out["rtf"] = [e for _ in qs]
                out["utils"] = [e for _ in qs]
            else:
                out["rtf"] = [_res(lambda q=q: cs.get_rtf_color_index(q)) for q in qs]
                out["utils"] = [_res(lambda q=q: Utils._get_color_index(q)) for q in qs]
        elif mode == "both":  # a context is set *and* a list is passed: the explicit list decides
            _res(lambda: cs.set_document_context(used_colors=case["ctx"]))
            out["rtf"] = [_res(lambda q=q: cs.get_rtf_color_index(q, used)) for q in qs]
            out["utils"] = [_res(lambda q=q: Utils._get_color_index(q, used)) for q in qs]
        elif mode == "explicit":
            out["rtf"] = [_res(lambda q=q: cs.get_rtf_color_index(q, used)) for q in qs]
            out["utils"] = [_res(lambda q=q: Utils._get_color_index(q, used)) for q in qs]
        else:
            out["rtf"] = [_res(lambda q=q: cs.get_rtf_color_index(q)) for q in qs]
            out["utils"] = [_res(lambda q=q: Utils._get_color_index(q)) for q in qs]
    finally:
        cs.clear_document_context()
    return out


def unit_cases(rng, tier, names, groups):
    cases = []
    for c in names:  # exhaustive: each name alone, three resolution routes
        cases.append(dict(kind="list", tag="single", used=[c], mode="explicit", queries=[c, "", "black"]))
        cases.append(dict(kind="list", tag="single", used=[c], mode="context", queries=[c]))
    allc = list(names)
    rng.shuffle(allc)
    # all names in one list: the dense table is the whole master table; every index in the thorough tier, a sample
    # (with both ends) in the quick tier — the model recomputes the table per query, as the service does
    qall = list(names) if tier != "quick" else [names[0], names[-1], "black"] + rng.sample(names, 60)
    cases.append(dict(kind="list", tag="all657", used=allc, mode="context", queries=qall))
    cases.append(dict(kind="list", tag="full", used=None, mode="none", queries=list(names) + ["", "black", "nosuchcolor"]))
    cases.append(dict(kind="list", tag="empty", used=[], mode="explicit", queries=["red", "", "black"]))
    cases.append(dict(kind="list", tag="empty", used=["", "black"], mode="context", queries=["red", "", "black"]))
    n_rand = 1500 if tier == "quick" else 40000
    for _ in range(n_rand):
        k = rng.randint(1, 8)
        used = rng.sample(names, k)
        r = rng.random()
        if r < 0.3:  # colours that share an RGB value with another name
            g = rng.choice(groups)
            used[: min(len(g), 2)] = g[:2]
        if rng.random() < 0.35:
            used.append("")
        if rng.random() < 0.35:
            used.append("black")
        if rng.random() < 0.25:
            used.append(rng.choice(used))  # duplicate (not a set): list semantics of the service
        if rng.random() < 0.2:  # neighbours in master order / extremes
            i = rng.randrange(len(names) - 1)
            used += [names[i + 1], names[i], names[0], names[-1]]
        invalid = rng.random() < 0.06
        if invalid:
            used.append(rng.choice(["nosuchcolor", "Red", "red ", "#ff0000", "grey101"]))
        rng.shuffle(used)
        qs = list(dict.fromkeys(used))
        others = rng.sample(names, 2)
        qs += [o for o in others if o not in used] + ["", "black"]
        if rng.random() < 0.1:
            qs.append("nosuchcolor")
        mode = rng.choice(["explicit", "context", "context", "both"])
        case = dict(kind="list", tag="invalid" if invalid else "subset", used=used, mode=mode, queries=qs)
        if mode == "both":
            case["ctx"] = rng.sample(names, rng.randint(1, 5)) + rng.sample(used, min(len(used), 2))
        cases.append(case)
    cases.append(dict(kind="fonts", tag="fonts", fonts=list(range(1, 11))))
    return cases


def _norm_idx(x):
    """driver index result → comparable with _res"""
    if isinstance(x, dict):
        e = x["err"]
        return {"err": [e["kind"], e.get("index"), e.get("name")]}
    return x


def run_unit(res, cases):
    obs = common.pool_map(_unit_worker, cases, chunksize=64)
    if obs and isinstance(obs[0], tuple):
        res.notes.append("unit correspondence unavailable: " + obs[0][1])
        res.count("unit_unavailable", len(cases))
        return
    reqs = []
    for c, o in zip(cases, obs):
        if c["kind"] == "fonts":
            reqs.append(dict(op="c12_fonts", fonts=c["fonts"]))
            continue
        ctx = c["used"] if c["mode"] == "context" else c.get("ctx") if c["mode"] == "both" else None
        used = c["used"] if c["mode"] in ("explicit", "both") else None
        reqs.append(dict(op="c12_table", used=c["used"]))
        reqs.append(dict(op="c12_index", ctx=ctx, used=used, colors=c["queries"]))
    drv = iter(common.driver_batch(reqs))
    checks, check_owner = [], []
    for c, o in zip(cases, obs):
        case = dict(level="unit", **c)
        res.count("unit:" + c["tag"])
        res.corr_checked += 1
        if c["kind"] == "fonts":
            m = next(drv)
            judge_fonts_unit(res, case, o, m)
            continue
        mt, mi = next(drv), next(drv)
        nt = None
        # correspondence
        it = o["table"]
        if isinstance(it, dict):
            if mt["err"] is None or [mt["err"]["kind"], mt["err"].get("index"), mt["err"].get("name")] != it["err"]:
                res.disagree(case, f"generate_rtf_color_table raised {it['err']}, model: {mt['err'] or 'text'}")
        elif mt["text"] != it:
            res.disagree(case, f"colour table text differs: implementation {it[:120]!r} model {str(mt['text'])[:120]!r}")
        mrtf = [_norm_idx(x) for x in mi["rtf"]]
        if mrtf != o["rtf"]:
            k = next(i for i, (a, b) in enumerate(zip(mrtf, o["rtf"])) if a != b)
            res.disagree(case, f"get_rtf_color_index({c['queries'][k]!r}) = {o['rtf'][k]} but model {mrtf[k]}")
        if mi["utils"] != o["utils"]:
            k = next(i for i, (a, b) in enumerate(zip(mi["utils"], o["utils"])) if a != b)
            res.disagree(case, f"Utils._get_color_index({c['queries'][k]!r}) = {o['utils'][k]} but model {mi['utils'][k]}")
        # oracle on the implementation's own table and indices (valid lists only: an invalid name is refused up front)
        if not isinstance(it, dict) and c["tag"] != "invalid":
            try:
                has, entries = parse_color_table(it)
            except rtfread.RtfError as e:
                res.fail(case, f"colour table unreadable: {e}")
                res.case(case, None)
                continue
            neg = [(q, i) for q, i in zip(c["queries"], o["utils"]) if isinstance(i, int) and i < 0]
            if neg:
                res.fail(case, f"negative colour index: {neg[:3]} (an index refers to a position of the colour table)")
                res.case(case, None)
                continue
            uses = []
            for q, i in zip(c["queries"], o["utils"]):
                member = c["used"] is None or q in c["used"]
                if q == "nosuchcolor":
                    continue
                if member and isinstance(i, int):
                    uses.append([i, q])
                elif isinstance(i, int) and i != 0:
                    uses.append([i, ""])  # a colour that is not in the list must not get an entry
            checks.append(dict(op="c12_check", has_table=has, entries=entries, uses=uses, fonts=[], font_uses=[]))
            check_owner.append((case, uses))
            if any(isinstance(i, int) and i > 0 for i in o["utils"]):
                nt = ("u", c["mode"], tuple(tuple(e) if e else None for e in entries[:12]), len(entries))
        res.case(case, nt)
    for (case, uses), r in zip(check_owner, common.driver_batch(checks)):
        if r["bad"] or r["missing_table"]:
            why = [f"{uses[i][1]!r}→index {uses[i][0]}" for i in r["bad"][:4]]
            res.fail(case, f"references do not resolve in the table the service printed: {why}"
                           f"{' ; no colour table although a colour is used' if r['missing_table'] else ''}")


def judge_fonts_unit(res, case, o, m):
    nt = None
    if isinstance(o["table"], dict):
        res.fail(case, f"generate_font_table raised {o['table']}")
    else:
        if m["text"] != o["table"]:
            res.disagree(case, f"font table text differs: {o['table'][:200]!r} vs model {str(m['text'])[:200]!r}")
        try:
            doc = rtfread.read("{\\rtf1" + o["table"] + "}")
            fonts = [[k, v.get("name", "")] for k, v in sorted(doc.fonts.items())]
        except rtfread.RtfError as e:
            res.fail(case, f"font table unreadable: {e}")
            fonts = []
        import re

        fuses = []
        for n, ref, mref in zip(case["fonts"], o["refs"], m["refs"]):
            mm = re.search(r"\\f(-?\d+)", ref) if isinstance(ref, str) else None
            if not mm:
                res.fail(case, f"font {n}: no \\f reference in {ref!r}")
                continue
            if int(mm.group(1)) != mref:
                res.disagree(case, f"font {n}: implementation prints \\f{mm.group(1)}, model \\f{mref}")
            fuses.append([max(0, int(mm.group(1))), n])
        r = common.driver_batch([dict(op="c12_check", has_table=False, entries=[], uses=[], fonts=fonts,
                                      font_uses=fuses)])[0]
        if r["bad_fonts"]:
            k = r["bad_fonts"][0]
            res.fail(case, f"font {fuses[k][1]} is printed as \\f{fuses[k][0]} which the font table names "
                           f"{dict(map(tuple, fonts)).get(fuses[k][0])!r}")
        nt = ("fonts",)
    res.case(case, nt)


def run_anchors(res):
    r = common.driver_batch([dict(op="c12_rgb", names=list(ANCHORS))])[0]
    for (n, want), got in zip(ANCHORS.items(), r["rgb"]):
        case = dict(level="anchor", name=n, want=list(want), got=got)
        res.case(case, ("anchor", n))
        res.count("anchor")
        if got != list(want):
            res.fail(case, f"the table defines {n!r} as {got}, not {list(want)}")
    try:
        from rtflite.dictionary.color_table import color_table, name_to_rgb, name_to_rtf, name_to_type

        sizes = (len(color_table), len(name_to_type), len(name_to_rgb), len(name_to_rtf), r["count"])
        if len(set(sizes)) != 1:
            res.fail(dict(level="anchor", sizes=sizes), f"table / dictionary sizes differ: {sizes}")
    except ImportError:
        pass


# ------------------------------------------------------------------ observation level: generator

def pick(v, r, c, flat):
    """the value the documented broadcasting gives element (r, c) of an attribute given as v"""
    if v is None:
        return None
    if isinstance(v, dict) and "__tuple__" in v:
        t = v["__tuple__"]
        return t[r % len(t)]
    if isinstance(v, list):
        if v and isinstance(v[0], list):
            return v[r % len(v)][c % len(v[0])]
        return v[r % len(v)] if flat else v[c % len(v)]
    return v


class Palette:
    def __init__(self, rng, names, groups, k):
        self.rng = rng
        cols = rng.sample(names, k)
        if rng.random() < 0.3:
            g = rng.choice(groups)
            cols[: min(2, len(g), k)] = g[: min(2, k)]
        if rng.random() < 0.15:
            cols[0] = rng.choice([names[0], names[-1], "gray0", "grey0", "white", "gray100"])
        self.cols = cols

    def one(self, blank=0.15):
        r = self.rng.random()
        if r < blank * 0.5:
            return ""
        if r < blank:
            return "black"
        return self.rng.choice(self.cols)


def flat_attr(rng, mk, n):
    """attribute of a title-like component with n lines: None | scalar | per line"""
    r = rng.random()
    if r < 0.3:
        return None
    if r < 0.6 or n == 1:
        return mk()
    return [mk() for _ in range(n)]


def table_attr(rng, mk, nr, nc, rowwise=True):
    """attribute of a table component: None | scalar | per column | per row (tuple) | matrix"""
    r = rng.random()
    if r < 0.25:
        return None
    if r < 0.45:
        return mk()
    if r < 0.65 or not rowwise:
        return [mk() for _ in range(nc)] if nc > 1 or rng.random() < 0.5 else mk()
    if r < 0.78:
        return {"__tuple__": [mk() for _ in range(nr)]}
    return [[mk() for _ in range(nc)] for _ in range(nr)]


def shape_of(v):
    if v is None:
        return "none"
    if isinstance(v, dict):
        return "per-row"
    if isinstance(v, list):
        return "matrix" if v and isinstance(v[0], list) else "list"
    return "scalar"


def draw_border_colors(rng, pal, kw, bcols, p=0.3):
    """border colours of a table component other than the body (footnote, source, column header): collected and
    printed as \\brdrcf like the body's (repo fix of collect_document_colors)"""
    if bcols is None or rng.random() >= p:
        return
    for f in rng.sample(BORDER_FIELDS, rng.randint(1, 3)):
        kw[f] = pal.one(blank=0.1)
        bcols.append(kw[f])


def gen_text_comp(rng, pal, role, want, elements, lines=None, allow_table=None, bcols=None):
    n = lines if lines is not None else rng.choice([1, 1, 2, 3])
    tag = {"title": "TT", "subline": "SL", "footnote": "FN", "source": "SR", "page_header": "PH", "page_footer": "PF"}[role]
    font = lambda: rng.randint(1, 10)  # noqa: E731
    if role in ("footnote", "source"):
        # text lists are joined into one string at construction: one element
        sent = f"{tag}0z"
        kw = dict(text=sent)
        tc, bg, ft = (rng.choice([None, pal.one()]), rng.choice([None, None, pal.one()]), rng.choice([None, font()]))
        as_table = allow_table if allow_table is not None else rng.random() < 0.5
        kw["as_table"] = as_table
        for k, v in (("text_color", tc), ("text_background_color", bg), ("text_font", ft)):
            if v is not None:
                kw[k] = v
        want[sent] = [tc or "", bg or "", ft or 1]
        elements.append([sent, role, 0, 0, 0])
        draw_border_colors(rng, pal, kw, bcols)
        return kw
    sents = [f"{tag}{i}z" for i in range(n)]
    kw = dict(text=sents if n > 1 or rng.random() < 0.5 else sents[0])
    tc = flat_attr(rng, pal.one, n)
    bg = flat_attr(rng, pal.one, n) if rng.random() < 0.5 else None
    ft = flat_attr(rng, font, n)
    for k, v in (("text_color", tc), ("text_background_color", bg), ("text_font", ft)):
        if v is not None:
            kw[k] = v
    for i, s in enumerate(sents):
        want[s] = [pick(tc, i, 0, True) or "", pick(bg, i, 0, True) or "", pick(ft, i, 0, True) or 1]
        elements.append([s, role, 0, i, 0])
    return kw


def gen_body(rng, pal, sec, nr, nc, want, elements, rowwise, counts):
    font = lambda: rng.randint(1, 10)  # noqa: E731
    tc = table_attr(rng, pal.one, nr, nc, rowwise)
    bg = table_attr(rng, pal.one, nr, nc, rowwise) if rng.random() < 0.6 else None
    ft = table_attr(rng, font, nr, nc, rowwise) if rng.random() < 0.6 else None
    kw = {}
    for k, v in (("text_color", tc), ("text_background_color", bg), ("text_font", ft)):
        if v is not None:
            kw[k] = v
    counts.append("body_tc:" + shape_of(tc))
    bcols = []
    if rng.random() < 0.3:
        for f in rng.sample(BORDER_FIELDS, rng.randint(1, 3)):
            kw[f] = pal.one(blank=0.1)
            bcols.append(kw[f])
    rows = []
    for i in range(nr):
        row = []
        for j in range(nc):
            s = f"s{sec}r{i}c{j}z"
            row.append(s)
            want[s] = [pick(tc, i, j, False) or "", pick(bg, i, j, False) or "", pick(ft, i, j, False) or 1]
            elements.append([s, "body", sec, i, j])
        rows.append(row)
    return kw, rows, bcols


def gen_header(rng, pal, sec, k, nc, want, elements, bcols=None):
    font = lambda: rng.randint(1, 10)  # noqa: E731
    sents = [f"h{sec}k{k}c{j}z" for j in range(nc)]
    tc = table_attr(rng, pal.one, 1, nc, rowwise=False)
    bg = table_attr(rng, pal.one, 1, nc, rowwise=False) if rng.random() < 0.4 else None
    ft = table_attr(rng, font, 1, nc, rowwise=False) if rng.random() < 0.4 else None
    kw = dict(text=sents)
    for key, v in (("text_color", tc), ("text_background_color", bg), ("text_font", ft)):
        if v is not None:
            kw[key] = v
    for j, s in enumerate(sents):
        want[s] = [pick(tc, 0, j, False) or "", pick(bg, 0, j, False) or "", pick(ft, 0, j, False) or 1]
        elements.append([s, "header", (sec, k), 0, j])
    draw_border_colors(rng, pal, kw, bcols)
    return kw


def gen_doc(rng, names, groups):
    kind = rng.choice(["table"] * 5 + ["paged"] + ["pageby"] + ["multi"] * 4 + ["figure"] * 2)
    want, elements, counts, border_cols = {}, [], [], []
    k = rng.choice([0, 1, 1, 2, 2, 3, 3, 4, 5, 6, 7, 8])
    pal = Palette(rng, names, groups, max(1, k))
    if k == 0:
        pal.cols = ["black"]  # a document without any non-default colour: no table, every index 0
    spec = dict(kind="table")
    for role in ("title", "subline", "page_header", "page_footer"):
        if rng.random() < 0.55:
            spec[role] = gen_text_comp(rng, pal, role, want, elements)
    if kind == "figure":
        nfig = rng.randint(1, 3)
        spec["kind"] = "figure"
        spec["figure"] = dict(files=[dict(name=f"f{i}.png", hex=tiny_png(rng.randint(1, 3), rng.randint(1, 3)).hex())
                                     for i in range(nfig)], fig_width=1.0, fig_height=1.0, _as_list=True)
        for role in ("footnote", "source"):
            if rng.random() < 0.6:
                spec[role] = gen_text_comp(rng, pal, role, want, elements, allow_table=False, bcols=border_cols)
        spec["page"] = dict(page_title=rng.choice(["all", "first", "last"]),
                            page_footnote=rng.choice(["all", "first", "last"]),
                            page_source=rng.choice(["all", "first", "last"]))
        if "subline" in spec and nfig > 1:
            pass
        return dict(kind=kind, spec=spec, want=want, elements=elements, counts=counts, border_cols=border_cols, k=k)
    for role in ("footnote", "source"):
        if rng.random() < 0.5:
            spec[role] = gen_text_comp(rng, pal, role, want, elements, bcols=border_cols)
    if kind == "multi":
        nsec = rng.randint(2, 4)
        nc = rng.randint(1, 3)
        spec["kind"] = "multi"
        spec["df"], spec["body"] = [], []
        nested = rng.random() < 0.6
        hdrs = []
        for s in range(nsec):
            spal = Palette(rng, names, groups, rng.randint(1, 4)) if rng.random() < 0.8 else pal
            nr = rng.randint(1, 4)
            kw, rows, bc = gen_body(rng, spal, s, nr, nc, want, elements, True, counts)
            border_cols += bc
            spec["df"].append(dict(cols=[f"c{j}" for j in range(nc)], rows=rows))
            spec["body"].append(kw)
            if nested:
                hdrs.append([gen_header(rng, spal, s, 0, nc, want, elements, border_cols)] if rng.random() < 0.8 else [None])
        if nested:
            spec["headers"] = hdrs
        elif rng.random() < 0.7:
            spec["headers"] = [gen_header(rng, pal, 0, 0, nc, want, elements, border_cols)]
        else:
            spec["headers"] = []
        return dict(kind=kind, spec=spec, want=want, elements=elements, counts=counts, border_cols=border_cols, k=k)
    # single section
    nc = rng.randint(1, 4)
    if kind == "table":
        nr = rng.randint(1, 6)
        kw, rows, bc = gen_body(rng, pal, 0, nr, nc, want, elements, True, counts)
        cols = [f"c{j}" for j in range(nc)]
    elif kind == "paged":  # several pages: attributes that do not vary by row only
        nr = rng.randint(8, 24)
        kw, rows, bc = gen_body(rng, pal, 0, nr, nc, want, elements, False, counts)
        cols = [f"c{j}" for j in range(nc)]
        spec["page"] = dict(nrow=rng.randint(6, 10))
    else:  # page_by: group headings take the body's attributes; scalar attributes only
        nr = rng.randint(2, 8)
        tc, bg, ft = rng.choice([None, pal.one()]), rng.choice([None, pal.one()]), rng.choice([None, rng.randint(1, 10)])
        kw = {k_: v for k_, v in (("text_color", tc), ("text_background_color", bg), ("text_font", ft)) if v is not None}
        kw["page_by"] = ["g"]
        keys = docgen.run_keys(rng, nr, ["gAz", "gBz", "gCz"], 1, 4)
        rows = []
        for i in range(nr):
            row = [keys[i]]
            for j in range(nc):
                s = f"s0r{i}c{j}z"
                row.append(s)
                want[s] = [tc or "", bg or "", ft or 1]
                elements.append([s, "body", 0, 0, 0])
            rows.append(row)
        for g in set(keys):
            want[g] = [tc or "", bg or "", ft or 1]
            elements.append([g, "body", 0, 0, 0])
        cols = ["g"] + [f"c{j}" for j in range(nc)]
        bc = []
        counts.append("body_tc:scalar(page_by)")
    border_cols += bc
    spec["df"] = dict(cols=cols, rows=rows)
    spec["body"] = kw
    r = rng.random()
    if r < 0.5:
        spec["headers"] = [gen_header(rng, pal, 0, 0, nc, want, elements, border_cols)]
    elif r < 0.7:
        spec["headers"] = [gen_header(rng, pal, 0, 0, 1, want, elements, border_cols), gen_header(rng, pal, 0, 1, nc, want, elements, border_cols)]
        spec["headers"][0]["col_rel_width"] = [1]
    elif r < 0.8:
        spec["headers"] = []
    return dict(kind=kind, spec=spec, want=want, elements=elements, counts=counts, border_cols=border_cols, k=k)


# ------------------------------------------------------------------ observation level: row-wise attributes over SEVERAL PAGES

SIDE_FIELDS = dict(l="border_color_left", r="border_color_right", t="border_color_top", b="border_color_bottom")


def pattern_len(rng, n, label):
    """length of a pattern along an axis of n elements: the whole axis, a short pattern that is recycled (2..5), any
    shorter length, or (rarely) longer than the axis (the surplus is never reached)"""
    r = rng.random()
    if n <= 2 or r < 0.22:
        return n, label + "=full"
    if r < 0.62:
        return rng.randint(2, min(5, n - 1)), label + "<n(recycled,2..5)"
    if r < 0.9:
        return rng.randint(2, n - 1), label + "<n(recycled)"
    return n + rng.randint(1, 3), label + ">n"


def pattern_attr(rng, mk, nr, nc):
    """an attribute of a table component that varies BY ROW, in every shape the documented broadcasting
    (`value[r % rows][c % columns]`) accepts: p rows (one per table row, a recycled pattern shorter than the table, more
    than the table has) × q columns (one -- spelled as a tuple or as one-element rows --, one per column, a recycled
    column pattern shorter than the row, more than the row has).  → (value, row-pattern length, labels)"""
    p, lp = pattern_len(rng, nr, "rows")
    r = rng.random()
    if r < 0.3 or nc == 1:
        q, lq = 1, "cols=1"
    elif r < 0.7 or nc == 2:
        q, lq = nc, "cols=full"
    elif r < 0.92:
        q, lq = rng.randint(2, nc - 1), "cols<n(recycled)"
    else:
        q, lq = nc + rng.randint(1, 2), "cols>n"
    if q == 1 and rng.random() < 0.5:
        return {"__tuple__": [mk() for _ in range(p)]}, p, [lp, lq + "(tuple)"]
    return [[mk() for _ in range(q)] for _ in range(p)], p, [lp, lq]


def column_pattern_attr(rng, mk, nc):
    """an attribute that varies by column only: scalar, one value per column, or a recycled column pattern"""
    r = rng.random()
    if r < 0.35 or nc == 1:
        return mk(), "scalar"
    if r < 0.75 or nc == 2:
        return [mk() for _ in range(nc)], "per-column"
    return [mk() for _ in range(rng.randint(2, nc - 1))], "per-column<n(recycled)"


def gen_body_rows(rng, pal, sec, nr, nc, want, bwant, elements, counts, periods, data_cols=None, label="rowpaged"):
    """body of nr × nc sentinels whose text colour, background, font and border colours are mostly row patterns;
    bwant: sentinel → requested colour of each edge {l, t, r, b}; periods: the row-pattern lengths drawn.
    data_cols: the frame has nc columns but only these (original positions) hold sentinels -- the others are key columns
    (page_by / subline_by) the caller fills in; the attributes are drawn for the whole nc-column frame and a sentinel
    carries its ORIGINAL column index.  The rows returned hold the data cells only."""
    font = lambda: rng.randint(1, 10)  # noqa: E731
    mkc = lambda: pal.one(blank=0.1)  # noqa: E731
    kw, vals, bcols = {}, {}, []

    def draw(field, mk, p_rows):
        r = rng.random()
        if r < p_rows:
            v, p, labs = pattern_attr(rng, mk, nr, nc)
            periods.append(p)
            counts.extend(f"{label}:{'border_color' if field.startswith('border') else field}:{x}" for x in labs)
        elif r < p_rows + 0.2:
            v, lab = column_pattern_attr(rng, mk, nc)
            counts.append(f"{label}:{'border_color' if field.startswith('border') else field}:{lab}")
        else:
            return None
        kw[field] = v
        return v

    which = rng.choice(["tc", "bg", "bc", "ft", "tc+bg", "tc+bc", "bg+bc", "all", "all", "all"])
    counts.append(label + "_attrs:" + which)
    tc = draw("text_color", mkc, 0.85) if which in ("tc", "tc+bg", "tc+bc", "all") else None
    bg = draw("text_background_color", mkc, 0.85) if which in ("bg", "tc+bg", "bg+bc", "all") else None
    ft = draw("text_font", font, 0.85) if which in ("ft", "all") or rng.random() < 0.3 else None
    sides = {}
    if which in ("bc", "tc+bc", "bg+bc", "all"):
        for side in rng.sample("ltrb", rng.randint(1, 4)):
            sides[side] = draw(SIDE_FIELDS[side], mkc, 0.8)
        if rng.random() < 0.15:     # collected, never printed on a cell
            f = rng.choice(["border_color_first", "border_color_last"])
            kw[f] = mkc()
            bcols.append(kw[f])
    rows = []
    for i in range(nr):
        row = []
        for j in (range(nc) if data_cols is None else data_cols):
            s = f"s{sec}r{i}c{j}z"
            row.append(s)
            want[s] = [pick(tc, i, j, False) or "", pick(bg, i, j, False) or "", pick(ft, i, j, False) or 1]
            bwant[s] = {side: pick(sides.get(side), i, j, False) or "" for side in "ltrb"}
            bcols.extend(x for x in bwant[s].values() if x)
            elements.append([s, "body", sec, i, j])
        rows.append(row)
    return kw, rows, sorted(set(bcols))


def gen_doc_rowpaged(rng, names, groups):
    """PAGINATED documents (single-section and multi-section, every section longer than a page) whose body attributes
    vary by row: per-row values, full matrices and recycled row / column patterns of every length, for text colour,
    background, font and the four border colours.  Which table rows start a page follows from the page size, the
    title / header / footnote rows and the section lengths drawn here, so pages begin at every phase of the patterns."""
    multi = rng.random() < 0.4
    want, bwant, elements, counts, border_cols, periods = {}, {}, [], [], [], []
    k = rng.choice([2, 3, 3, 4, 4, 5, 6, 8])
    pal = Palette(rng, names, groups, k)
    spec = dict(kind="multi" if multi else "table")
    for role in ("title", "subline", "page_header", "page_footer"):
        if rng.random() < 0.35:
            spec[role] = gen_text_comp(rng, pal, role, want, elements)
    for role in ("footnote", "source"):
        if rng.random() < 0.3:
            spec[role] = gen_text_comp(rng, pal, role, want, elements, bcols=border_cols)
    spec["page"] = dict(nrow=rng.randint(6, 16))
    for f in ("page_title", "page_footnote", "page_source"):
        if rng.random() < 0.3:
            spec["page"][f] = rng.choice(["all", "first", "last"])
    nc = rng.randint(1, 4)
    out = dict(kind="multi-paged-rows" if multi else "paged-rows", spec=spec, want=want, bwant=bwant, elements=elements,
               counts=counts, border_cols=border_cols, k=k, periods=periods)
    if multi:
        nsec = rng.randint(2, 3)
        spec["df"], spec["body"] = [], []
        nested = rng.random() < 0.6
        hdrs = []
        for s in range(nsec):
            spal = Palette(rng, names, groups, rng.randint(2, 5)) if rng.random() < 0.7 else pal
            nr = rng.randint(7, 26)
            kw, rows, bc = gen_body_rows(rng, spal, s, nr, nc, want, bwant, elements, counts, periods)
            border_cols += bc
            spec["df"].append(dict(cols=[f"c{j}" for j in range(nc)], rows=rows))
            spec["body"].append(kw)
            if nested:
                hdrs.append([gen_header(rng, spal, s, 0, nc, want, elements, border_cols)] if rng.random() < 0.8 else [None])
        if nested:
            spec["headers"] = hdrs
        elif rng.random() < 0.7:
            spec["headers"] = [gen_header(rng, pal, 0, 0, nc, want, elements, border_cols)]
        else:
            spec["headers"] = []
        return out
    nr = rng.randint(10, 44)
    kw, rows, bc = gen_body_rows(rng, pal, 0, nr, nc, want, bwant, elements, counts, periods)
    border_cols += bc
    spec["df"] = dict(cols=[f"c{j}" for j in range(nc)], rows=rows)
    spec["body"] = kw
    r = rng.random()
    if r < 0.5:
        spec["headers"] = [gen_header(rng, pal, 0, 0, nc, want, elements, border_cols)]
    elif r < 0.65:
        spec["headers"] = [gen_header(rng, pal, 0, 0, 1, want, elements, border_cols),
                           gen_header(rng, pal, 0, 1, nc, want, elements, border_cols)]
        spec["headers"][0]["col_rel_width"] = [1]
    elif r < 0.8:
        spec["headers"] = []
    return out


def rowpaged_labels(case, ob):
    """what the pagination of a row-pattern document turned out to be (evidence: the class is really reached)"""
    starts = [s for s in ob.get("page_starts") or [] if s is not None]
    labs = ["rowpaged_pages:" + ("1" if len(starts) <= 1 else "2..3" if len(starts) <= 3 else "4+")]
    nrows = {}
    for el in case["elements"]:
        if el[1] == "body":
            nrows[el[2]] = max(nrows.get(el[2], 0), el[3] + 1)
    short = [p for p in case.get("periods") or [] if 1 < p < max(nrows.values(), default=0)]
    off = [(s, r, p) for s, r in starts for p in short if r > 0 and r % p != 0]
    if off:
        labs.append("rowpaged:a-page-starts-inside-a-recycled-pattern(start % rows != 0)")
    elif short and any(r > 0 for _, r in starts):
        labs.append("rowpaged:every-page-starts-at-a-pattern-boundary")
    return labs


# ------------------------------------------------------------------ observation level: row-wise attributes in GROUPED tables

GROUP_STRATEGIES = (["page_by"] * 6 + ["page_by_first_row"] * 2 + ["page_by_np", "page_by_np_first"]
                    + ["subline"] * 2 + ["subline_page_by"] * 4 + ["subline_page_by_first_row", "subline_page_by_np_first"])


def hier_keys(rng, n, hier, max_run):
    """hierarchical key columns as contiguous runs: {column: [value per row]}; hier = [(column, tag)…] outermost first.
    Inner levels restart under every outer run and draw from a small alphabet, so equal inner values recur under
    different outer groups.  Every value is a sentinel `<tag><letter…>z`."""
    out, outer = {}, None
    for lvl, (col, tag) in enumerate(hier):
        letters = "abcdefgh" if lvl == 0 else rng.choice(["ab", "abc", "abcdefgh"])
        alpha = [f"{tag}{x}" for x in letters]
        if outer is None:
            vals = docgen.run_keys(rng, n, alpha, 1, max_run)
        else:
            vals, i = [], 0
            while i < n:
                j = i
                while j < n and outer[j] == outer[i]:
                    j += 1
                vals += docgen.run_keys(rng, j - i, alpha, 1, max(1, max_run // 2))
                i = j
        vals = [v + "z" for v in vals]
        out[col] = vals
        outer = vals if outer is None else [a + "|" + b for a, b in zip(outer, vals)]
    return out


def flat_values(v):
    """every value an attribute names, whatever its shape"""
    if v is None:
        return []
    if isinstance(v, dict) and "__tuple__" in v:
        return list(v["__tuple__"])
    if isinstance(v, list):
        return [y for x in v for y in (x if isinstance(x, list) else [x])]
    return [v]


def gen_doc_rowgroups(rng, names, groups):
    """Tables with page_by (1..2 levels; group headings as spanning rows -- new_page=False, with pageby_row 'column' or
    'first_row' -- or new_page=True with the column kept / taken out), subline_by (1..2 levels) and subline_by + page_by,
    whose body text colour, background, font and the four border colours vary BY ROW (and by column) in every
    broadcasting shape of `pattern_attr`, given for the ORIGINAL frame (key columns included, at any position of the
    frame).  Runs are short against the page (several groups per page: the body of a page is rendered in segments, one
    per group, each starting at a page-relative row > 0) and the table is longer than a page (several pages: every
    page's attributes are cut out of the table's).  Each DATA cell is tied to (original row, original column) by its
    sentinel.  The group headings (spanning rows) print the body's attributes at row 0 of their key column (the encoder
    model's `spanRead`): compared with the model; for the oracle they only have to name a colour / font requested for
    the body.  Key columns that stay in the table (new_page=True, pageby_row='column') print one text in many rows:
    judged like the headings."""
    strategy = rng.choice(GROUP_STRATEGIES)
    want, bwant, hwant, loose, elements, counts, border_cols, periods = {}, {}, {}, {}, [], [], [], []
    k = rng.choice([2, 3, 3, 4, 4, 5, 6, 8])
    pal = Palette(rng, names, groups, k)
    spec = dict(kind="table")
    for role in ("title", "subline", "page_header", "page_footer"):
        if rng.random() < 0.3:
            spec[role] = gen_text_comp(rng, pal, role, want, elements)
    for role in ("footnote", "source"):
        if rng.random() < 0.3:
            spec[role] = gen_text_comp(rng, pal, role, want, elements, bcols=border_cols)
    nrow = rng.randint(8, 26)
    spec["page"] = dict(nrow=nrow)
    for f in ("page_title", "page_footnote", "page_source"):
        if rng.random() < 0.3:
            spec["page"][f] = rng.choice(["all", "first", "last"])
    sub = strategy.startswith("subline")
    pby = "page_by" in strategy
    nsub = rng.choice([1, 1, 2]) if sub else 0
    npb = rng.choice([1, 1, 1, 2, 2, 3]) if pby else 0
    subline_by = [f"u{l}" for l in range(nsub)]
    page_by = [f"g{l}" for l in range(npb)]
    new_page = strategy.endswith(("_np", "_np_first"))
    pageby_row = "first_row" if strategy.endswith("first_row") or strategy.endswith("_np_first") else "column"
    ndata = rng.randint(1, 4)
    n = rng.randint(6, 44)
    keycols = subline_by + page_by
    cols = keycols + [f"d{j}" for j in range(ndata)]
    if rng.random() < 0.5:      # key columns anywhere in the frame: attributes bind by position, the options by name
        rng.shuffle(cols)
        counts.append("rowgroups:key-columns-anywhere-in-the-frame")
    else:
        counts.append("rowgroups:key-columns-first")
    nc = len(cols)
    pos = {c: cols.index(c) for c in cols}
    data_pos = [j for j, c in enumerate(cols) if c not in keycols]
    keys = hier_keys(rng, n, [(c, c) for c in keycols], rng.choice([2, 3, 4, max(2, nrow // 3), max(2, nrow // 2)]))
    kw, drows, bc = gen_body_rows(rng, pal, 0, n, nc, want, bwant, elements, counts, periods, data_cols=data_pos,
                                  label="rowgroups")
    border_cols += bc
    # (the cells of a key column that stays in the table carry the border colours of THEIR column: every colour the four
    # matrices name may be printed)
    border_cols += sorted({x for f in SIDE_FIELDS.values() for x in flat_values(kw.get(f)) if x} - set(bc))
    rows = []
    for i in range(n):
        row = [None] * nc
        for c in keycols:
            row[pos[c]] = keys[c][i]
        for j, s in zip(data_pos, drows[i]):
            row[j] = s
        rows.append(row)
    tc, bg, ft = kw.get("text_color"), kw.get("text_background_color"), kw.get("text_font")
    spanning = pby and (not new_page or pageby_row != "column")
    kept = pby and not spanning and not sub
    allowed = dict(cf=sorted(set(flat_values(tc))), cb=sorted(set(flat_values(bg))),
                   f=sorted(set(flat_values(ft)) or {1}))
    absent = []
    for c in page_by:
        for t in sorted(set(keys[c])):
            loose[t] = allowed
            if spanning:        # the model's reading of a heading: row 0 of the key column
                hwant[t] = [pick(tc, 0, pos[c], False) or "", pick(bg, 0, pos[c], False) or "",
                            pick(ft, 0, pos[c], False) or 1]
                elements.append([t, "body", 0, 0, pos[c]])
                absent.append(t)
    if pby:
        kw.update(page_by=page_by, new_page=new_page, pageby_row=pageby_row)
    if sub:
        kw["subline_by"] = subline_by
    if rng.random() < 0.4:
        kw["pageby_header"] = rng.random() < 0.5
    removed = set(subline_by) | (set(page_by) if spanning or (pby and sub and pageby_row != "column") else set())
    if pby and sub and not spanning:
        removed = None          # (which columns stay is the layout's business: no header cells are counted on)
    spec["df"] = dict(cols=cols, rows=rows)
    spec["body"] = kw
    ndisp = None if removed is None else len([c for c in cols if c not in removed])
    r = rng.random()
    if ndisp is not None and r < 0.45:
        spec["headers"] = [gen_header(rng, pal, 0, 0, ndisp, want, elements, border_cols)]
    elif ndisp is not None and r < 0.55:
        spec["headers"] = [gen_header(rng, pal, 0, 0, 1, want, elements, border_cols),
                           gen_header(rng, pal, 0, 1, ndisp, want, elements, border_cols)]
        spec["headers"][0]["col_rel_width"] = [1]
    elif r < 0.75:
        spec["headers"] = []
    counts.append("rowgroups_strategy:" + strategy)
    counts.append(f"rowgroups_levels:page_by={npb},subline_by={nsub}")
    counts.append("rowgroups_headings:" + ("spanning-rows" if spanning else "key-column-kept" if kept else
                                           "subline-paragraphs-only" if not pby else "with-subline"))
    return dict(kind="grouped-rows:" + strategy, spec=spec, want=want, bwant=bwant, hwant=hwant, loose=loose,
                may_be_absent=absent, elements=elements, counts=counts, border_cols=border_cols, k=k, periods=periods)


def rowgroups_labels(case, ob):
    """what the layout of a grouped row-pattern document turned out to be (evidence: data rows really are rendered after
    a group heading in the middle of a page, at page-relative rows that are not a multiple of a pattern's length)"""
    pages = ob.get("page_rows") or []
    npages = sum(1 for p in pages if any(BODY_SENTINEL.fullmatch(t) for t in p))
    labs = ["rowgroups_pages:" + ("1" if npages <= 1 else "2..3" if npages <= 3 else "4+")]
    loose = case.get("hwant") or {}         # the texts of the spanning heading rows
    short = [p for p in case.get("periods") or [] if p > 1]
    segs = offs = most = 0
    for p in pages:
        k, heads = 0, 0            # k: data rows of the page so far
        for prev, t in zip([None] + p[:-1], p):
            if BODY_SENTINEL.fullmatch(t):
                if prev in loose and k > 0:     # a data row that follows a heading, below other data rows of the page
                    segs += 1
                    if any(k % q != 0 for q in short):
                        offs += 1
                k += 1
            elif t in loose:
                heads += 1
        most = max(most, heads)
    labs.append("rowgroups_headings_on_one_page:" + ("0" if most == 0 else "1" if most == 1 else "2..3" if most <= 3 else "4+"))
    if segs:
        labs.append("rowgroups:a-segment-begins-below-other-data-rows-of-its-page(row_offset>0)")
    if offs:
        labs.append("rowgroups:a-segment-begins-inside-a-row-pattern(row_offset % rows != 0)")
    if npages > 1 and segs:
        labs.append("rowgroups:several-pages-AND-several-segments-per-page")
    return labs


# ------------------------------------------------------------------ observation level: components WITHOUT text of their own

PAGE_HEADER_DEFAULT_TOKENS = ["Page", "\u27e6PAGE\u27e7", "of", "\u27e6NUMPAGES\u27e7"]  # runs of the default page-header text


def gen_auto_header(rng, pal, sec, k, cols, want, elements, bcols, counts, rendered=True, occ=None):
    """a column header WITHOUT text of its own.  With as_colheader=True (the default of the body) PageRenderer fills it
    with the displayed column names of the section's frame and prints them with THIS object's formatting, so its
    text / background / border colours are used like those of a header with text.  cols: the displayed column names
    (sentinels).  At least one colour attribute is set, mostly to a non-default colour.  occ: sentinel -> list of
    requests, for a section with several text-less headers (the k-th occurrence of a name belongs to the k-th one)."""
    nc = len(cols)
    mk = lambda: pal.one(blank=0.08)  # noqa: E731

    def attr(f):
        r = rng.random()
        if r < 0.45 or nc == 1:
            return f() if nc > 1 or rng.random() < 0.6 else [f()]
        return [f() for _ in range(nc)]

    which = rng.choice(["tc", "bg", "bc", "tc+bg", "tc+bc", "bg+bc", "all", "all"])
    counts.append("auto_hdr_attrs:" + which)
    tc = attr(mk) if which in ("tc", "tc+bg", "tc+bc", "all") else None
    bg = attr(mk) if which in ("bg", "tc+bg", "bg+bc", "all") else None
    ft = attr(lambda: rng.randint(1, 10)) if rng.random() < 0.4 else None
    kw = {}
    for key, v in (("text_color", tc), ("text_background_color", bg), ("text_font", ft)):
        if v is not None:
            kw[key] = v
    if which in ("bc", "tc+bc", "bg+bc", "all"):
        for f in rng.sample(BORDER_FIELDS, rng.randint(1, 4)):
            kw[f] = attr(mk)
            bcols.extend(kw[f] if isinstance(kw[f], list) else [kw[f]])
        if rng.random() < 0.5:  # make sure the coloured side is drawn
            kw["border_bottom"] = "single"
    if not rendered:
        return kw
    for j, s in enumerate(cols):
        req = [pick(tc, 0, j, False) or "", pick(bg, 0, j, False) or "", pick(ft, 0, j, False) or 1]
        if occ is None:
            want[s] = req
            elements.append([s, "header", (sec, k), 0, j])
        else:
            occ.setdefault(s, []).append(req)
            want.setdefault(s, req)
            elements.append([s, "header", (sec, k), 0, j, len(occ[s]) - 1])
    return kw


def gen_textless_comp(rng, pal, role, want, elements, counts):
    """title / subline / footnote / source / page header / page footer constructed WITHOUT text but with colours.  The
    page header has a default text (page x of y) that is printed with the colours given; the others print nothing (their
    colours are collected all the same: entries nobody refers to)."""
    tc = pal.one(blank=0.08) if rng.random() < 0.8 else None
    bg = pal.one(blank=0.08) if tc is None or rng.random() < 0.4 else None
    ft = rng.choice([None, rng.randint(1, 10)])
    kw = {}
    for k, v in (("text_color", tc), ("text_background_color", bg), ("text_font", ft)):
        if v is not None:
            kw[k] = v if rng.random() < 0.7 else [v]
    if role == "page_header":
        counts.append("textless:page_header(default text)")
        for t in PAGE_HEADER_DEFAULT_TOKENS:
            want[t] = [tc or "", bg or "", ft or 1]
            elements.append([t, role, 0, 0, 0])
    else:
        counts.append("textless:prints-nothing:" + role)
    return kw


def gen_doc_auto(rng, names, groups):
    """documents whose coloured components have no text of their own: column headers filled from the column names
    (single-section: alone, next to headers with text, two of them, not rendered; multi-section: nested and flat), the
    page header with its default text, text components that print nothing.  In about a third of the documents these
    are the ONLY colours of the document; mostly they come from a palette of their own."""
    kind = rng.choice(["table"] * 4 + ["paged", "pageby"] + ["multi"] * 4 + ["figure"])
    want, elements, counts, border_cols, occ = {}, [], [], [], {}
    only = rng.random() < 0.35
    k = 0 if only else rng.choice([1, 2, 3, 4, 6])
    pal = Palette(rng, names, groups, max(1, k))
    if k == 0:
        pal.cols = ["black"]
        counts.append("auto:only-colours-of-the-document")

    def own():
        return Palette(rng, names, groups, rng.randint(1, 3)) if only or rng.random() < 0.7 else pal

    spec = dict(kind="table")
    for role in ("title", "subline", "page_header", "page_footer"):
        r = rng.random()
        p_less = 0.75 if role == "page_header" else 0.5
        if kind == "figure" and role == "page_header":
            r = 0.45
        if r < 0.4:
            spec[role] = gen_text_comp(rng, pal, role, want, elements)
        elif r < p_less:
            spec[role] = gen_textless_comp(rng, own(), role, want, elements, counts)
    out = dict(kind=kind + "+textless", spec=spec, want=want, elements=elements, counts=counts, border_cols=border_cols,
               k=k, occ=occ)
    if kind == "figure":
        nfig = rng.randint(1, 2)
        spec["kind"] = "figure"
        spec["figure"] = dict(files=[dict(name=f"f{i}.png", hex=tiny_png(rng.randint(1, 3), rng.randint(1, 3)).hex())
                                     for i in range(nfig)], fig_width=1.0, fig_height=1.0, _as_list=True)
        for role in ("footnote", "source"):
            r = rng.random()
            if r < 0.4:
                spec[role] = gen_text_comp(rng, pal, role, want, elements, allow_table=False, bcols=border_cols)
            elif r < 0.55:
                spec[role] = gen_textless_comp(rng, own(), role, want, elements, counts)
                spec[role]["as_table"] = False  # (a figure document accepts no table-rendered footnote / source)
        return out
    for role in ("footnote", "source"):
        r = rng.random()
        if r < 0.35:
            spec[role] = gen_text_comp(rng, pal, role, want, elements, bcols=border_cols)
        elif r < 0.45:
            spec[role] = gen_textless_comp(rng, own(), role, want, elements, counts)

    def section_headers(sec, cols, layouts):
        """header objects of one section; at least one without text"""
        lay = rng.choice(layouts)
        counts.append("auto_hdr:" + lay)
        nc = len(cols)
        if lay == "auto":
            return [gen_auto_header(rng, own(), sec, 0, cols, want, elements, border_cols, counts)]
        if lay == "text+auto":
            h0 = gen_header(rng, pal, sec, 0, 1, want, elements, border_cols)
            h0["col_rel_width"] = [1]
            return [h0, gen_auto_header(rng, own(), sec, 1, cols, want, elements, border_cols, counts)]
        if lay == "auto+text":
            return [gen_auto_header(rng, own(), sec, 0, cols, want, elements, border_cols, counts),
                    gen_header(rng, pal, sec, 1, nc, want, elements, border_cols)]
        if lay == "auto+auto":
            return [gen_auto_header(rng, own(), sec, i, cols, want, elements, border_cols, counts, occ=occ)
                    for i in range(2)]
        raise AssertionError(lay)

    if kind == "multi":
        nsec = rng.randint(2, 4)
        nc = rng.randint(1, 3)
        spec["kind"] = "multi"
        spec["df"], spec["body"] = [], []
        nested = rng.random() < 0.7
        counts.append("auto_multi:nested" if nested else "auto_multi:flat(first section only)")
        auto_secs = set(s for s in range(nsec) if rng.random() < 0.6) or {rng.randrange(nsec)}
        hdrs = []
        for s in range(nsec):
            spal = pal if only or rng.random() < 0.3 else Palette(rng, names, groups, rng.randint(1, 4))
            nr = rng.randint(1, 4)
            kw, rows, bc = gen_body(rng, spal, s, nr, nc, want, elements, True, counts)
            border_cols += bc
            auto = (s in auto_secs) if nested else s == 0
            cols = [f"n{s}c{j}z" if auto else f"c{j}" for j in range(nc)]
            spec["df"].append(dict(cols=cols, rows=rows))
            spec["body"].append(kw)
            if nested:
                if auto:
                    hdrs.append(section_headers(s, cols, ["auto"] * 6 + ["text+auto", "auto+text", "auto+auto"]))
                else:
                    hdrs.append([gen_header(rng, spal, s, 0, nc, want, elements, border_cols)] if rng.random() < 0.6 else [None])
            elif auto:
                hdrs = section_headers(0, cols, ["auto"] * 4 + ["auto+text", "text+auto"])
        spec["headers"] = hdrs
        return out
    # single section
    nc = rng.randint(1, 4)
    cols = [f"n0c{j}z" for j in range(nc)]
    if kind == "table":
        nr = rng.randint(1, 6)
        kw, rows, bc = gen_body(rng, pal, 0, nr, nc, want, elements, True, counts)
        dfcols = cols
    elif kind == "paged":  # the header row is repeated on every page
        nr = rng.randint(8, 24)
        kw, rows, bc = gen_body(rng, pal, 0, nr, nc, want, elements, False, counts)
        dfcols = cols
        spec["page"] = dict(nrow=rng.randint(6, 10))
    else:  # page_by: the header shows the displayed columns (the page_by column is removed)
        nr = rng.randint(2, 8)
        tc, bg, ft = rng.choice([None, pal.one()]), rng.choice([None, pal.one()]), rng.choice([None, rng.randint(1, 10)])
        kw = {k_: v for k_, v in (("text_color", tc), ("text_background_color", bg), ("text_font", ft)) if v is not None}
        kw["page_by"] = ["g"]
        keys = docgen.run_keys(rng, nr, ["gAz", "gBz", "gCz"], 1, 4)
        rows = []
        for i in range(nr):
            row = [keys[i]]
            for j in range(nc):
                s = f"s0r{i}c{j}z"
                row.append(s)
                want[s] = [tc or "", bg or "", ft or 1]
                elements.append([s, "body", 0, 0, 0])
            rows.append(row)
        for g in set(keys):
            want[g] = [tc or "", bg or "", ft or 1]
            elements.append([g, "body", 0, 0, 0])
        dfcols = ["g"] + cols
        bc = []
        counts.append("body_tc:scalar(page_by)")
    border_cols += bc
    spec["df"] = dict(cols=dfcols, rows=rows)
    spec["body"] = kw
    if kind == "table" and rng.random() < 0.1:
        # as_colheader=False: the text-less header is not rendered at all; its colours are collected, nobody uses them
        kw["as_colheader"] = False
        counts.append("auto_hdr:not-rendered(as_colheader=False)")
        spec["headers"] = [gen_auto_header(rng, own(), 0, 0, cols, want, elements, border_cols, counts, rendered=False)]
        if rng.random() < 0.5:
            spec["headers"].append(gen_header(rng, pal, 0, 1, nc, want, elements, border_cols))
        return out
    layouts = ["auto"] * 5 + ["text+auto"] * 2 + ["auto+text"] + (["auto+auto"] * 2 if kind == "table" else [])
    spec["headers"] = section_headers(0, cols, layouts)
    return out


# ------------------------------------------------------------------ observation level: every other constructor option

# what C12's generators write themselves (the subject of the property) or build their expectations on
OWN_ALL = ("text", "text_font", "text_color", "text_background_color", "border_color_*")
OWN_STRUCT = dict(footnote=("as_table",), source=("as_table",), figure=("figures",),
                  body=("page_by", "subline_by", "group_by"))


def add_options(rng, case, sch, auto):
    """Every constructor option the generators above leave at its default -- of RTFPage (use_color, orientation, width,
    height, margin, nrow, col_width, border_first / border_last, the three placements) and of every component the
    document builds (formats, sizes, justification, indents, spacing, hyphenation, conversion, indent reference, border
    styles and widths, cell heights / alignment, relative widths, as_colheader, pageby_header, pageby_row, last_row,
    figure alignment / position / sizes) -- drawn over its documented value set (harness/optdraw.py: the options are
    read from the classes' model fields at run time, options that are documented but without effect included).  None
    of them changes which colour or font an element was given, so the expectations of the document stay as they are."""
    spec, labels = case["spec"], case["counts"]
    pageby = isinstance(spec.get("body"), dict) and ("page_by" in spec["body"] or "subline_by" in spec["body"])
    drawn = case.setdefault("options", [])      # [path into the spec, option] of everything drawn here (for shrinking)

    def draw(path, comp, kw, **kwargs):
        before = set(kw)
        optdraw.draw_component(rng, sch, comp, kw, labels=labels, **kwargs)
        drawn.extend([path, k] for k in sorted(set(kw) - before))

    def lines(kw):
        t = kw.get("text")
        return len(t) if isinstance(t, list) else 1

    if spec.get("page") is None:
        spec["page"] = {}
    draw(["page"], "page", spec["page"], p=0.4)
    for role in ("title", "subline", "page_header", "page_footer"):
        if spec.get(role) is not None:
            draw([role], role, spec[role], p=0.2, owned=OWN_ALL, n=lines(spec[role]))
    for role in ("footnote", "source"):
        if spec.get(role) is not None:
            draw([role], role, spec[role], p=0.15, owned=OWN_ALL + OWN_STRUCT[role], ncols=rng.randint(1, 3))
    frames = spec.get("df")
    frames = frames if isinstance(frames, list) else [frames] if frames else []
    multi = isinstance(spec.get("body"), list)
    bodies = spec["body"] if multi else [spec["body"]] if spec.get("body") is not None else []
    for i, (fr, b) in enumerate(zip(frames, bodies)):
        nc = len(fr["cols"])
        own = OWN_ALL + OWN_STRUCT["body"]
        if auto:
            own += ("as_colheader",)            # decides whether a text-less header is rendered: set by the generator
        if "page_by" in b or "subline_by" in b:
            own += ("new_page", "pageby_row", "col_rel_width")
        draw(["body", i] if multi else ["body"], "body", b, p=0.15, owned=own, n=nc, ncols=nc)
    if spec["kind"] == "table" and not pageby and not auto and frames and rng.random() < 0.12:
        # group_by over leading columns: every cell is a distinct sentinel, so nothing is blanked
        spec["body"]["group_by"] = frames[0]["cols"][:rng.randint(1, min(2, len(frames[0]["cols"])))]
        labels.append("opt:body.group_by")
        drawn.append([["body"], "group_by"])
    hs = spec.get("headers")
    if isinstance(hs, list):
        seen = set()
        for i, x in enumerate(hs):
            for j, h in enumerate(x if isinstance(x, list) else [x]):
                if not isinstance(h, dict) or id(h) in seen:
                    continue
                seen.add(id(h))
                t = h.get("text")
                draw(["headers", i, j] if isinstance(x, list) else ["headers", i], "header", h, p=0.15, owned=OWN_ALL,
                     n=len(t) if t else 1, ncols=len(t) if t else None)
    fig = spec.get("figure")
    if isinstance(fig, dict):
        for f in ("fig_width", "fig_height"):
            if rng.random() < 0.5:
                fig.pop(f, None)
        draw(["figure"], "figure", fig, p=0.5, owned=OWN_STRUCT["figure"], n=len(fig["files"]))
    labels.append(f"options_per_doc:{min(len(drawn) // 5 * 5, 30)}+")
    return case


def without_options(spec, drop):
    """a copy of `spec` without the drawn options `drop` ([path, option] pairs of add_options)"""
    import copy

    out = copy.deepcopy(spec)
    for path, k in drop:
        kw = out
        for step in path:
            kw = kw[step]
        kw.pop(k, None)
    return out


def gen_doc_options(rng, names, groups, sch):
    """a document of one of the two classes above with every other constructor option drawn on top"""
    auto = rng.random() >= 0.65
    base = gen_doc_auto(rng, names, groups) if auto else gen_doc(rng, names, groups)
    base["kind"] += "+options"
    return add_options(rng, base, sch, auto)


# ------------------------------------------------------------------ observation level: worker (fresh process)

def _dump_doc(doc):
    """colour attributes of the constructed document, in the order collect_document_colors visits them"""
    bodies = doc.rtf_body if isinstance(doc.rtf_body, list) else ([doc.rtf_body] if doc.rtf_body else [])
    out = dict(bodies=[comp_json(b, borders=True) for b in bodies], texts=[], headers=[])
    index = {}
    for role in TEXT_ROLES:
        c = getattr(doc, ROLE_ATTR[role])
        if c:
            index[role] = len(out["texts"])
            out["texts"].append(comp_json(c, borders=True))
    hmap = {}
    hs = doc.rtf_column_header
    if hs:
        if isinstance(hs[0], list):
            for s, sec in enumerate(hs):
                for k, h in enumerate(sec):
                    if h:
                        hmap[f"{s},{k}"] = len(out["headers"])
                        out["headers"].append(comp_json(h, borders=True))
        else:
            for k, h in enumerate(hs):
                if h:
                    hmap[f"0,{k}"] = len(out["headers"])
                    out["headers"].append(comp_json(h, borders=True))
    return out, index, hmap


BODY_SENTINEL = re.compile(r"s(\d+)r(\d+)c\d+z")          # gen_body: section, table row, column


def _observe(rtf_text):
    doc = rtfread.read(rtf_text)
    runs, borders, cell_borders, page_starts, page_rows = [], [], [], [], []

    def walk(blocks):
        for b in blocks:
            if b.kind == "row":
                for c in b.cells:
                    for r in c.runs:
                        runs.append(r)
                for d in b.defs:
                    for side, bd in d.borders.items():
                        if bd.get("color") is not None:
                            borders.append(bd["color"])
                # the coloured edges of every cell, joined with the text the cell prints (cell k of a row is described
                # by the k-th cell definition of that row)
                if len(b.defs) == len(b.cells):
                    for d, c in zip(b.defs, b.cells):
                        t = "".join(r.text for r in c.runs).strip()
                        for side, bd in d.borders.items():
                            if t and bd.get("color") is not None:
                                cell_borders.append([t, side, bd["color"]])
            elif b.kind in ("para", "loose"):
                for r in b.runs:
                    runs.append(r)

    for p in doc.pages:
        walk(p.blocks)
        # the first body cell of the page: [section, table row] (which table rows start a page)
        first = None
        for b in p.blocks:
            if b.kind == "row" and first is None:
                for c in b.cells:
                    mm = BODY_SENTINEL.fullmatch("".join(r.text for r in c.runs).strip())
                    if mm:
                        first = [int(mm.group(1)), int(mm.group(2))]
                        break
        page_starts.append(first)
        # the text of the first cell of every table row of the page (which rows are group headings, which data rows)
        page_rows.append(["".join(r.text for r in b.cells[0].runs).strip() if b.cells else ""
                          for b in p.blocks if b.kind == "row"])
    for h in doc.headers + doc.footers:
        walk(h)
    seen = []
    for r in runs:
        t = r.text.strip()
        if not t:
            continue
        p = r.props
        seen.append([t, p.get("f"), p.get("cf"), p.get("cb"), p.get("chcbpat")])
    return dict(has_table=doc.has_colortbl, entries=[None if c is None else list(c) for c in doc.colors],
                fonts=[[k, v.get("name", "")] for k, v in sorted(doc.fonts.items())], runs=seen, borders=borders,
                cell_borders=cell_borders, page_starts=page_starts, page_rows=page_rows)


def _doc_worker(case):
    import contextlib
    import io

    out = dict(hashseed=os.environ.get("PYTHONHASHSEED"))
    with tempfile.TemporaryDirectory(prefix="c12_") as td:
        try:
            with contextlib.redirect_stdout(io.StringIO()):
                doc = docgen.build(case["spec"], td)
        except Exception as e:  # noqa: BLE001
            out.update(status="construct-error", exc=docgen.classify_exc(e), msg=str(e)[:300])
            return out
        try:
            from rtflite.services.color_service import color_service

            dump, tindex, hmap = _dump_doc(doc)
            out.update(doc=dump, tindex=tindex, hmap=hmap, collected=sorted(color_service.collect_document_colors(doc)),
                       collected_order=list(color_service.collect_document_colors(doc)))
        except Exception as e:  # noqa: BLE001
            out.update(status="dump-error", exc=type(e).__name__, msg=str(e)[:300])
            return out
        try:
            with contextlib.redirect_stdout(io.StringIO()):
                s = doc.rtf_encode()
        except Exception as e:  # noqa: BLE001
            out.update(status="encode-error", exc=docgen.classify_exc(e), msg=str(e)[:300])
            return out
    try:
        out.update(_observe(s))
    except rtfread.RtfError as e:
        out.update(status="unreadable", msg=str(e))
        return out
    out["status"] = "ok"
    return out


def run_in_fresh_processes(cases, hashseeds):
    """split cases round-robin over len(hashseeds) fresh interpreters, each with its own PYTHONHASHSEED"""
    if not cases:
        return []
    n = len(hashseeds)
    chunks = [[] for _ in range(n)]
    for i, c in enumerate(cases):
        chunks[i % n].append((i, c))
    results = [None] * len(cases)
    pending = list(range(n))
    running = []

    def start(k):
        env = dict(os.environ)
        env["PYTHONHASHSEED"] = str(hashseeds[k])
        inp = tempfile.TemporaryFile()
        inp.write(json.dumps([dict(spec=c["spec"]) for _, c in chunks[k]]).encode())
        inp.seek(0)
        outf = tempfile.TemporaryFile()
        p = subprocess.Popen([sys.executable, "-m", "harness.props.c12", "--worker"], cwd=str(common.VERIF),
                             stdin=inp, stdout=outf, stderr=subprocess.PIPE, env=env)
        return (k, p, outf, inp)

    while pending or running:
        while pending and len(running) < common.NCPU:
            k = pending.pop(0)
            if chunks[k]:
                running.append(start(k))
        k, p, outf, inp = running.pop(0)
        _, err = p.communicate(timeout=3000)
        inp.close()
        if p.returncode != 0:
            raise common.MachineryError(f"document worker exited {p.returncode}: {err.decode()[-600:]}")
        outf.seek(0)
        data = json.loads(outf.read().decode())
        outf.close()
        if len(data) != len(chunks[k]):
            raise common.MachineryError("document worker answered a wrong number of results")
        for (i, _), o in zip(chunks[k], data):
            results[i] = o
    return results


# ------------------------------------------------------------------ observation level: judgement

def request_of(case, el):
    """[text colour, background, font] requested for an element; el[5] = which of the section's text-less headers it
    belongs to when several of them print the same column name"""
    if len(el) > 5:
        return case["occ"][el[0]][el[5]]
    if el[0] not in case["want"]:
        return case["hwant"][el[0]]         # a group heading: the model's reading (row 0 of the key column)
    return case["want"][el[0]]


def resolve_elements(case, ob):
    """elements of the generator → [kind, index, r, c, font] for the model; None when the component is absent"""
    out = []
    for el in case["elements"]:
        sent, role, key, r, c = el[:5]
        font = request_of(case, el)[2]
        if role == "body":
            out.append(["bodies", key, r, c, font])
        elif role == "header":
            hk = f"{key[0]},{key[1]}"
            if hk not in ob["hmap"]:
                raise common.MachineryError(f"header {hk} missing in dump")
            out.append(["headers", ob["hmap"][hk], r, c, font])
        else:
            out.append(["texts", ob["tindex"][role], r, c, font])
    return out


def doc_requests(case, ob):
    """(model request, oracle request, bookkeeping) for an encoded document"""
    want = case["want"]
    elems = resolve_elements(case, ob)
    model = dict(op="c12_doc", doc=ob["doc"], queries=[], elements=elems)
    uses, owners, fuses, fowners = [], [], [], []
    seen = {}
    occ = case.get("occ") or {}
    loose = case.get("loose") or {}
    for t, f, cf, cb, pat in ob["runs"]:
        if t in loose and t not in want:
            continue        # group headings / key cells: judged in judge_doc (a colour / font requested for the body)
        if t in want:
            seen[t] = seen.get(t, 0) + 1
            # a column name printed by several text-less headers of its section: they are rendered in their order, on
            # every page of the section
            tc, bg, ft = occ[t][(seen[t] - 1) % len(occ[t])] if t in occ else want[t]
            uses += [[cf or 0, tc], [cb or 0, bg], [pat or 0, bg]]
            owners += [(t, "\\cf", cf), (t, "\\cb", cb), (t, "\\chcbpat", pat)]
            fuses.append([f if f is not None and f >= 0 else 10 ** 6, ft])
            fowners.append((t, f))
        else:
            for nm, v in (("\\cf", cf), ("\\cb", cb), ("\\chcbpat", pat)):
                if v:
                    uses.append([v, ""])
                    owners.append((t, nm + " on untagged text", v))
    # the coloured edges of body cells whose requested border colours are known per (row, column, side)
    bwant = case.get("bwant") or {}
    for t, side, v in ob.get("cell_borders") or []:
        if t in bwant:
            uses.append([v, bwant[t].get(side, "")])
            owners.append((t, "\\brdrcf (%s edge)" % dict(l="left", r="right", t="top", b="bottom").get(side, side), v))
    # a negative index never refers to an entry: present it to the Lean checker as an index beyond every table
    uses = [[u[0] if u[0] >= 0 else 10 ** 6, u[1]] for u in uses]
    oracle = dict(op="c12_check", has_table=ob["has_table"], entries=ob["entries"], uses=uses, fonts=ob["fonts"],
                  font_uses=fuses)
    return model, oracle, dict(owners=owners, fowners=fowners, seen=seen, uses=uses, fuses=fuses)


def judge_doc(res, case, ob, m, o, bk, rgbs_of):
    """case: generated; ob: observation; m: model answer; o: oracle answer; rgbs_of: name → rgb (Generated table)"""
    want = case["want"]
    # ---- oracle: the property on the implementation's output
    if o["bad"] or o["missing_table"] or o["bad_fonts"]:
        why = []
        for i in o["bad"][:4]:
            t, nm, v = bk["owners"][i]
            req = bk["uses"][i][1]
            ent = ob["entries"][v] if isinstance(v, int) and 0 <= v < len(ob["entries"]) else "<no such entry>"
            why.append(f"{t}: {nm}{v} → {ent}, requested {req!r} {rgbs_of.get(req)}")
        for i in o["bad_fonts"][:3]:
            t, f = bk["fowners"][i]
            why.append(f"{t}: \\f{f} names {dict(map(tuple, ob['fonts'])).get(f)!r}, requested font {bk['fuses'][i][1]}")
        if o["missing_table"]:
            why.append("a non-default colour is used but the document has no colour table")
        res.fail(case, "references do not resolve: " + "; ".join(why) + f" (table {ob['entries'][:10]})")
        return
    # border colours (body, footnote, source, column headers -- all collected since the repo fix): every \brdrcf that is
    # printed points to an entry with the RGB of a requested border colour; index 0 only for a requested "black"
    allowed = {tuple(rgbs_of[c]) for c in case["border_cols"] if c in rgbs_of and c not in ("", "black")}
    for v in ob["borders"]:
        ok = ((v == 0 and "black" in case["border_cols"])
              or (0 < v < len(ob["entries"]) and ob["entries"][v] is not None and tuple(ob["entries"][v]) in allowed))
        if not ok:
            res.fail(case, f"\\brdrcf{v} does not resolve to a requested border colour (table {ob['entries'][:10]})")
            return
    # group headings (spanning rows) and the cells of key columns that stay in the table: one text printed for many rows.
    # Every reference they carry names an existing entry with the RGB of a colour requested for the body's text /
    # background (index 0: the default colour), their \\f an entry of the font table for a font requested for the body
    loose = case.get("loose") or {}
    if loose:
        fnames = dict(map(tuple, ob["fonts"]))
        for t, f, cf, cb, pat in ob["runs"]:
            if t not in loose or t in want:
                continue
            for nm, v, key in (("\\cf", cf, "cf"), ("\\cb", cb, "cb"), ("\\chcbpat", pat, "cb")):
                if not v:
                    continue
                ok_rgb = {tuple(rgbs_of[c]) for c in loose[t][key] if c in rgbs_of and c not in ("", "black")}
                if not (0 < v < len(ob["entries"]) and ob["entries"][v] is not None and tuple(ob["entries"][v]) in ok_rgb):
                    ent = ob["entries"][v] if 0 <= v < len(ob["entries"]) else "<no such entry>"
                    res.fail(case, f"group heading / key cell {t}: {nm}{v} → {ent} is not a colour requested for the "
                                   f"body ({loose[t][key][:8]}) (table {ob['entries'][:10]})")
                    return
            if f is None or f < 0 or f not in fnames or (f + 1) not in loose[t]["f"]:
                res.fail(case, f"group heading / key cell {t}: \\f{f} names {fnames.get(f)!r}, fonts requested for the "
                               f"body: {loose[t]['f']}")
                return
    # ---- correspondence model / implementation
    if m["err"] is not None:
        res.disagree(case, f"model refuses the collected colours ({m['err']}) but the implementation encoded")
        return
    if sorted(m["collected"]) != ob["collected"]:
        res.disagree(case, f"collect_document_colors {ob['collected']} != model {sorted(m['collected'])}")
        return
    mrgb = [None] + [r["rgb"] for r in m["rows"]] if m["rows"] else []
    if mrgb != ob["entries"] or bool(m["rows"]) != ob["has_table"]:
        res.disagree(case, f"colour table {ob['entries']} != model {mrgb}")
        return
    runs, runs_seq = {}, {}
    for t, f, cf, cb, pat in ob["runs"]:
        runs.setdefault(t, set()).add((f, cf, cb, pat))
        runs_seq.setdefault(t, []).append((f, cf, cb, pat))
    expected_absent = case.get("may_be_absent", ())
    for el, me in zip(case["elements"], m["elems"]):
        sent, role, key, r, c = el[:5]
        if sent not in runs:
            if sent in expected_absent:
                continue
            res.disagree(case, f"element {sent} ({role}) is not in the output; model prints it with {me}")
            return
        mine = (me["f"], me["cf"], me["cb"], me["cb"])
        got = runs[sent] if len(el) <= 5 else set(runs_seq[sent][el[5]::len(case["occ"][sent])])
        if got != {mine}:
            res.disagree(case, f"element {sent} ({role}): implementation (f, cf, cb, chcbpat) {sorted(got, key=str)}"
                               f" != model {mine} (model values tc={me['tc']!r} bg={me['bg']!r})")
            return
        w = request_of(case, el)
        if (me["tc"] or "") != w[0] or (me["bg"] or "") != w[1]:
            res.disagree(case, f"element {sent}: model broadcasting gives ({me['tc']!r}, {me['bg']!r}), "
                               f"spec reading gives ({w[0]!r}, {w[1]!r})")
            return


def absent_ok(case):
    """sentinels that legitimately may not be printed (placement rules of other properties)"""
    return set()


def evaluate_docs(cs, hashseed, rgbs_of):
    """judge generator documents `cs` again (fresh processes, the given hash seed) → one scratch Result per document"""
    obs = run_in_fresh_processes(cs, [hashseed or "0"] * max(1, min(len(cs), common.NCPU)))
    out, reqs, keep = [], [], []
    for c, ob in zip(cs, obs):
        tmp = common.Result("C12", "quick", 0)
        out.append(tmp)
        if ob["status"] != "ok":
            tmp.disagree(c, f"document did not encode/read back: {ob.get('status')} {ob.get('exc')} {ob.get('msg')}")
            continue
        model, oracle, bk = doc_requests(c, ob)
        reqs += [model, oracle]
        keep.append((tmp, c, ob, bk))
    drv = common.driver_batch(reqs) if reqs else []
    for n, (tmp, c, ob, bk) in enumerate(keep):
        judge_doc(tmp, c, ob, drv[2 * n], drv[2 * n + 1], bk, rgbs_of)
    return out


def shrink_options(c, hashseed, rgbs_of):
    """the drawn options a failure needs: every option whose removal alone makes the oracle pass is kept, all others are
    dropped at once; → (smaller generator document, why) when the oracle still fails on it, else None"""
    drawn = c.get("options") or []
    if not drawn:
        return None
    rs = evaluate_docs([dict(c, spec=without_options(c["spec"], [d])) for d in drawn], hashseed, rgbs_of)
    needed = [d for d, r in zip(drawn, rs) if not r.failures]
    small = dict(c, spec=without_options(c["spec"], [d for d in drawn if d not in needed]), options=needed)
    r = evaluate_docs([small], hashseed, rgbs_of)[0]
    if not r.failures:
        return None
    names = ", ".join("/".join(map(str, pth)) + "." + k for pth, k in needed) or "none"
    return small, r.failures[0][1] + f"  [of the {len(drawn)} options drawn on top of the document the failure needs: {names}]"


def run_docs(res, tier, names, groups, corpus=()):
    ndocs = 480 if tier == "quick" else 5000
    cases = [dict(c) for c in corpus]
    for k in range(ndocs):
        cases.append(gen_doc(sub_rng(res.seed, "c12doc", k), names, groups))
    for k in range(240 if tier == "quick" else 2500):  # components without text of their own
        cases.append(gen_doc_auto(sub_rng(res.seed, "c12auto", k), names, groups))
    for k in range(200 if tier == "quick" else 2000):  # row-wise attributes (recycled patterns) over several pages
        cases.append(gen_doc_rowpaged(sub_rng(res.seed, "c12rows", k), names, groups))
    sch = optdraw.schema()                               # (computed in a worker process)
    for k in range(320 if tier == "quick" else 3000):  # every other constructor option of the page and the components
        cases.append(gen_doc_options(sub_rng(res.seed, "c12opt", k), names, groups, sch))
    for k in range(80 if tier == "quick" else 800):    # … and the row-pattern documents with the options on top
        base = gen_doc_rowpaged(sub_rng(res.seed, "c12rowsopt", k), names, groups)
        base["kind"] += "+options"
        cases.append(add_options(sub_rng(res.seed, "c12rowsopt-o", k), base, sch, False))
    for k in range(220 if tier == "quick" else 2200):  # row-wise attributes in page_by / subline_by tables
        cases.append(gen_doc_rowgroups(sub_rng(res.seed, "c12groups", k), names, groups))
    for k in range(60 if tier == "quick" else 600):    # … with the options on top
        base = gen_doc_rowgroups(sub_rng(res.seed, "c12groupsopt", k), names, groups)
        base["kind"] = "grouped-rows+options"
        cases.append(add_options(sub_rng(res.seed, "c12groupsopt-o", k), base, sch, False))
    own = OWN_ALL + tuple(x for v in OWN_STRUCT.values() for x in v)
    res.extra["options"] = dict(
        classes={c: len(f) for c, f in sch["classes"].items()},
        drawn={c: sorted(fn for fn, f in fs.items() if f["values"] is not None) for c, fs in sch["classes"].items()},
        not_drawn_generically=sorted(u for u in sch["undrawn"] if not optdraw._is_owned(u.split(".", 1)[1], own)),
        refused_candidates=sch["dropped"],
        note="options of the component classes read from model_fields at run time (harness/optdraw.py); the colour / "
             "font options and the structural ones are written by C12's own generators")
    nproc = common.NCPU if tier == "quick" else 4 * common.NCPU
    hrng = sub_rng(res.seed, "c12hash")
    hashseeds = [hrng.randint(1, 4_000_000_000) for _ in range(nproc)]
    obs = run_in_fresh_processes(cases, hashseeds)
    rg = common.driver_batch([dict(op="c12_rgb", names=list(names))])[0]["rgb"]
    rgbs_of = {n: v for n, v in zip(names, rg) if v is not None}
    reqs, keep = [], []
    for c, ob in zip(cases, obs):
        case = dict(level="doc", kind=c["kind"], spec=c["spec"], want=c["want"], elements=c["elements"],
                    border_cols=c["border_cols"], hashseed=ob.get("hashseed"))
        if c.get("occ"):
            case["occ"] = c["occ"]
        if c.get("options"):
            case["options"] = c["options"]
        for f in ("hwant", "loose", "may_be_absent"):
            if c.get(f):
                case[f] = c[f]
        if c.get("bwant"):
            case["bwant"] = c["bwant"]
            labels = rowgroups_labels if c["kind"].startswith("grouped-rows") else rowpaged_labels
            for lab in labels(c, ob) if ob["status"] == "ok" else []:
                res.count(lab)
        res.count("doc:" + c["kind"].split(":")[0])
        res.count(f"doc_colours:{c.get('k', '?')}")
        for lab in c.get("counts", []):
            res.count(lab)
        res.corr_checked += 1
        if ob["status"] != "ok":
            res.case(case, None)
            res.disagree(case, f"document did not encode/read back: {ob.get('status')} {ob.get('exc')} {ob.get('msg')}")
            continue
        model, oracle, bk = doc_requests(case, ob)
        reqs += [model, oracle]
        keep.append((case, c, ob, bk))
    drv = common.driver_batch(reqs)
    seen_orders = set()
    first_opt_failure = None
    for i, (case, c, ob, bk) in enumerate(keep):
        m, o = drv[2 * i], drv[2 * i + 1]
        nt = None
        if len(ob["entries"]) > 1:
            nt = ("d", c["kind"], tuple(map(tuple, ob["entries"][1:])), len(bk["uses"]))
        res.case(case, nt)
        if len(ob["collected_order"]) > 1:
            seen_orders.add((tuple(ob["collected"]), tuple(ob["collected_order"])))
            if ob["collected_order"] != ob["collected"]:
                res.count("doc_set_order_not_sorted")
        nf = len(res.failures)
        judge_doc(res, case, ob, m, o, bk, rgbs_of)
        if len(res.failures) > nf and c.get("options") and first_opt_failure is None:
            first_opt_failure = (nf, case, c)
    if first_opt_failure is not None:
        # name the options the failure depends on and put the smaller document first (it becomes the replay)
        nf, case, c = first_opt_failure
        sh = shrink_options(c, case.get("hashseed"), rgbs_of)
        if sh is not None:
            small, why = sh
            res.failures.pop(nf)
            res.failures.insert(0, (dict(case, spec=small["spec"], options=small["options"]), why))
    # the smallest failing document first (it becomes the replay)
    docf = [i for i, (fc, _) in enumerate(res.failures) if isinstance(fc, dict) and fc.get("level") == "doc"]
    if len(docf) > 1:
        best = min(docf, key=lambda i: (not any(w in res.failures[i][1] for w in ("\\cf", "\\cb", "\\chcbpat", "\\brdrcf")),
                                        len(json.dumps(res.failures[i][0].get("spec")))))
        res.failures.insert(docf[0], res.failures.pop(best))
    res.extra["hashseeds_used"] = len(hashseeds)


# ------------------------------------------------------------------ entry points

def load_corpus():
    d = common.CORPUS / "C12"
    out = []
    if d.exists():
        for f in sorted(d.glob("*.json")):
            c = json.loads(f.read_text())
            if c.get("level") == "doc":
                out.append(dict(kind=c.get("kind", "table"), spec=c["spec"], want=c["want"],
                                elements=[[e[0], e[1], tuple(e[2]) if isinstance(e[2], list) else e[2]] + list(e[3:])
                                          for e in c["elements"]],
                                border_cols=c.get("border_cols", []), occ=c.get("occ") or {}, counts=[], k="corpus",
                                bwant=c.get("bwant") or {}, hwant=c.get("hwant") or {}, loose=c.get("loose") or {},
                                may_be_absent=c.get("may_be_absent") or []))
    return out


def run(res: common.Result, build) -> int:
    try:
        names = color_names()
        groups = same_rgb_groups()
    except Exception as e:  # noqa: BLE001
        raise common.MachineryError(f"cannot read the colour table of the repo: {e}")
    rng = sub_rng(res.seed, "c12")
    run_anchors(res)
    run_unit(res, unit_cases(rng, res.tier, names, groups))
    run_docs(res, res.tier, names, groups, load_corpus())
    from .. import crosscorr

    crosscorr.run_cross(crosscorr.LIGHT["C12"], res)      # second tie: the whole-encoder correspondence class
    return common.finish(
        res, build, RULE, TRUSTED, ASSUME,
        explanation="C12_table_spec, C12_table_present_iff, C12_index_resolves, C12_default_zero, C12_index_in_range, "
                    "C12_order_independent hold for every list of colour names (any length, any order); C12_document / "
                    "C12_border_refs lift them to every constructed document on the three encoding paths, for every "
                    "enumeration of the collected set; C12_fonts covers the ten fonts; C12_full_table the no-context "
                    "route; C12_full_table_only_master / C12_mixed_numbering_wrong: table and indices must use ONE numbering "
                    "(dense positions read against the full table name other colours; the oracle rejects them); "
                    "C12enc_same_numbering: the encoder model prints the dense table of the collected colours and resolves "
                    "every index against that same list, whatever the page options; C12enc_header_cell / C12enc_auto_header_cell: every reference of a column header row, with text "
                    "of its own or filled from the column names. Facts about the 657-row table are decided by the kernel on the table regenerated from /repo.")


def replay(payload) -> int:
    _cross = payload.get("case") or {}
    if not _cross.get("cross"):
        for _b in payload.get("broken") or []:
            if (_b.get("case") or {}).get("cross"):
                _cross = _b["case"]
    if _cross.get("cross"):
        from .. import crosscorr

        return crosscorr.replay_cross(crosscorr.LIGHT["C12"], _cross)
    case = payload.get("case") or {}
    tmp = common.Result("C12", "quick", 0)
    if case.get("level") == "doc":
        c = dict(kind=case.get("kind"), spec=case["spec"], want=case["want"],
                 elements=[[e[0], e[1], tuple(e[2]) if isinstance(e[2], list) else e[2]] + list(e[3:])
                           for e in case["elements"]],
                 border_cols=case.get("border_cols", []), occ=case.get("occ") or {}, options=case.get("options") or [],
                 bwant=case.get("bwant") or {}, hwant=case.get("hwant") or {}, loose=case.get("loose") or {},
                 may_be_absent=case.get("may_be_absent") or [])
        hs = case.get("hashseed") or "0"
        ob = run_in_fresh_processes([c], [hs])[0]
        print("status:", ob["status"], ob.get("exc", ""), ob.get("msg", ""))
        if ob["status"] == "ok":
            names = color_names()
            rg = common.driver_batch([dict(op="c12_rgb", names=list(names))])[0]["rgb"]
            rgbs_of = {n: v for n, v in zip(names, rg) if v is not None}
            model, oracle, bk = doc_requests(c, ob)
            m, o = common.driver_batch([model, oracle])
            print("colour table read back:", ob["entries"])
            print("model table           :", [None] + [r["rgb"] for r in (m["rows"] or [])])
            print("collected (impl order):", ob["collected_order"])
            nth = {}
            for t, f, cf, cb, pat in ob["runs"]:
                if t in c["want"]:
                    nth[t] = nth.get(t, 0) + 1
                    req = c["occ"][t][(nth[t] - 1) % len(c["occ"][t])] if t in c["occ"] else c["want"][t]
                    print(f"  {t}: \\f{f} \\cf{cf} \\cb{cb} \\chcbpat{pat}   requested {req}")
            judge_doc(tmp, case, ob, m, o, bk, rgbs_of)
        else:
            tmp.disagree(case, "did not encode")
    elif case.get("level") == "unit":
        c = {k: v for k, v in case.items() if k != "level"}
        o = _unit_worker(c)
        print("implementation:", json.dumps(o)[:1500])
        run_unit(tmp, [c])
    elif case.get("level") == "anchor":
        run_anchors(tmp)
    for _, why in tmp.failures:
        print("FAIL:", why)
    for _, why in tmp.disagreements:
        print("DISAGREE:", why)
    if tmp.failures:
        print("VIOLATION property=C12 replay=<given>")
        return 1
    if tmp.disagreements:
        print("VIOLATION property=C12 replay=<given> no-failing-input-found")
        return 1
    print("property holds on this input")
    return 0


if __name__ == "__main__":
    if "--worker" in sys.argv:
        cases = json.loads(sys.stdin.read())
        sys.stdout.write(json.dumps([_doc_worker(c) for c in cases]))
        sys.stdout.flush()
