"""C17 — assemble_rtf yields one well-formed document with every input in order.

Theorems: lean/Props/C17.lean about `Model.Assemble` (the loop of `assemble_rtf` on line lists, the call over an
abstract file system, the closed form `expected`, the brace scan `wellFormedDoc`).

Tie to the code on every run (public API only: `RTFDocument(...).write_rtf`, `assemble_rtf`):
  docs    real files written by `write_rtf` (tables single/multi-page, portrait/landscape/A4, page header/footer,
          title/footnote/source, colours, multi-section, figure documents with 1..3 PNG/JPEG images; tagged cells;
          user text containing the word "fcharset" on purpose), 1..6 of them in random order (repeats allowed),
          assembled by the real `assemble_rtf` into a temp dir.
          * guard        every real input satisfies the decidable hypothesis `rtfliteShaped` (Lean, driver)
          * correspondence  bytes written == model `assembleLines` of the same line lists
          * oracle (Lean)   bytes written == closed form `expected` (theorem C17_lines' right-hand side) and
                            `wellFormedDoc` holds of the written lines (theorem C17_wellformed's conclusion)
          * oracle (reader) harness/rtfread.py parses the output as ONE document; the sequence of pages' contents
                            equals the concatenation of the inputs' page contents in argument order; the first page of
                            every later input follows a `\\page` and carries that input's own paper geometry; the
                            first input's start geometry is the document's
          * single input byte-identical; nested assembly == flat assembly (C17_nested) on the implementation
  names   the same real files under names of a family — glob metacharacters (`t14[1].rtf`, `ae_*.rtf`, `t?.rtf`), blanks,
          non-ASCII in both normal forms, leading dots / dashes / tildes, shell / URL / environment syntax, names that are
          prefixes / suffixes of one another, no `.rtf` suffix — in directories named from the same family that ALSO hold
          decoys (real rtflite files with other contents): names the listed ones match as patterns, case / blank /
          Unicode variants, backup copies, same stems with other suffixes, pattern-instance directories; arguments
          absolute / relative / `./` / `x/../x/`, str or pathlib.Path, through symbolic links, the same file listed
          twice; the output path among the neighbours, its own name of the family (with its own decoys), absent or
          pre-existing; 1..4 existing inputs, or an empty list, or missing names (absent although neighbours match it as
          a pattern, dangling link).  Oracle: pages read back == the listed inputs' pages in argument order (a decoy's
          page is named in the replay), single input byte-identical, FileNotFoundError / nothing written — no path of
          the directory changed; correspondence: model `assembleIn` over the whole directory (driver op asm_fs), paths
          other than the output unchanged (C17_others_untouched)
          alias (added to the scenes above): the output path denotes the FILE OF ONE OF THE INPUTS (any position; the
          only, first, middle, last input; existing or, in a missing scenario, absent) — the same argument string,
          another spelling (abs / rel / ./ / x/../x, str / Path), a symbolic link to the input's file, the input listed
          through a link and the output the file itself, a hard link; and a name that differs only in case (another
          file).  Oracle unchanged: pages read back from the output == the listed inputs' pages AS THEY WERE WHEN THE
          CALL STARTED; when nothing may be written the input under the output path is untouched.  Correspondence:
          model `assembleInDir` (names resolve to file identities — driver op asm_fs with keys): every name of the
          output's file reads the lines written, every other name reads what it read before
          (C17_reads_before_write, C17_alias_output_is_input)
  grow    histories: assemble_rtf(first inputs, combined), then once or twice more assemble_rtf([… combined …], combined)
          with the combined file first (append) / last (prepend) / in the middle / listed twice, under the same string,
          abs / rel / ./, a symbolic link or a hard link; every call judged (Lean closed form + brace scan + reader)
          against its inputs as they were when it started, and the final file against the documents in the order they
          were put together (C17_grow_in_place)
  calls   empty list / missing inputs (any position, several) / empty non-last file, with the output path absent or
          pre-existing: exception kind + missing list + "output untouched" vs model `assembleRtf` (driver op asm_call)
  toy     synthetic line lists NOT of the rtflite shape (no font table, font table at the end, `}` variants, blank
          leftovers, CRLF) — model vs implementation only, exercises every branch of the helper
  spaces  the model's `isPySpace` == CPython `str.isspace` over all code points
"""
from __future__ import annotations

import fnmatch
import glob
import hashlib
import io
import contextlib
import json
import os
import shutil
import struct
import tempfile
import unicodedata
import urllib.parse
import zlib
from pathlib import Path

from .. import common, docgen, rtfread
from ..common import sub_rng

RULE = ("docs: 1..6 real write_rtf files per assembly drawn from a seeded pool (table/multi-section/figure × "
        "orientation × header/footer × colours × 'fcharset' in user text), random order, repeats allowed; "
        "non-trivial = at least 2 inputs (distinct by the ordered tuple of pool indices and variant); names: the pool's "
        "files under a family of file / directory / output names (glob metacharacters, blanks, non-ASCII, leading "
        ". - ~, shell/URL syntax, prefixes of one another) next to decoy files they would match as patterns or after a "
        "normalisation, argument forms abs/rel/./..//Path/symlink/listed twice, ok | empty | missing scenarios; calls: "
        "missing/empty/IndexError cases with absent or pre-existing output; toy: random non-rtflite line lists; "
        "alias: names scenes / toy / call cases in which the output path denotes the file of one of the inputs (any "
        "position; same string, other spelling, symlink, hard link; case variant = another file); grow: 2..3-call "
        "histories that assemble into a combined file and then assemble that file (first/last/middle/twice, any "
        "spelling) with further pool documents into itself")
TRUSTED = [
    "Lean 4.33 kernel; axioms ⊆ {propext, Classical.choice, Quot.sound} (audited per theorem on every run)",
    "Lean compiler for the driver executable (compiled evaluation agrees with kernel reduction)",
    "harness/rtfread.py (Python RTF reader: pages, blocks, geometry) for the read-back clauses",
    "CPython text I/O: readlines() with universal newlines, writelines(), os.path.exists (the model starts from the "
    "line lists readlines() returns and ends with the list handed to writelines())",
    "the operating system's resolution of a path string to one file (the model's `fs` parameter); the names stream "
    "knows by construction which content every listed name denotes",
]
MANIFEST = dict(
    text="Lean theorems over the model of assemble_rtf (all line lists of the rtflite shape, any number of inputs, "
         "no assumption on the body — user text may contain 'fcharset'): the written lines are exactly first file "
         "minus its last line, then \\page + everything after the font table for each later file, then the closing "
         "line; the result is one balanced top-level group when the inputs are; single input unchanged, empty list "
         "and missing inputs write nothing; the output has the input shape again (nested = flat); the outcome depends only on "
         "the contents found under the listed names, in argument order (C17_reads_only_listed, C17_contents_only, "
         "C17_decoys), and no path but the output changes (C17_others_untouched); all inputs are read before the "
         "output is opened, so the output path may denote the file of one of the inputs — growing a combined file "
         "in place (C17_reads_before_write, C17_alias_output_is_input, C17_grow_in_place). Tied to the code "
         "on every run by assembling real write_rtf files and comparing bytes with the model, and judged by the "
         "Lean-defined oracle (closed form + brace scan) plus an independent RTF reader (pages, geometry).",
    note="The output path may be one of the inputs (same string, another spelling, symbolic or hard link): the pages "
         "read back are those of the inputs as they were when the call started; generated in the names scenes, the "
         "toy / call streams and as 2..3-call histories that grow a combined file in place. "
         "A listed input is one NAME (never a pattern): inputs, directories and output are also generated under names "
         "with glob metacharacters, blanks, non-ASCII, leading . - ~ etc. next to decoy files whose pages must not "
         "appear. A missing input given as pathlib.Path raised TypeError from the "
         "message join until rtflite 88a9e50 (D44); missing inputs are now given as str and as Path. "
         "Models the REPAIRED helper (fixes/assemble-body-start.patch): on the unrepaired tree inputs whose text "
         "contains 'fcharset' and coloured figure documents violate the property (D24). The read-back clause "
         "(pages = concatenation) is proved at line level (C17_lines/C17_block) and checked on the implementation "
         "with the Python reader; there is no Lean model of the RTF reader. A later input's colour table stays in "
         "the body as a group (colour indices of later inputs are resolved by the reader's rules) — reported, not "
         "part of the statement.",
    technique="Lean 4 proof (line-list induction, compositional brace scan) + differential correspondence",
    design="7/C17",
)
ASSUME = [
    "inputs are regular UTF-8 text files (os.path.exists ⇒ readable); the output directory exists",
    "each input is what rtflite writes: decidable shape `rtfliteShaped` checked on every generated input",
    "RTF reading of pages/geometry is harness/rtfread.py's (no Lean reader model for C17)",
]

SENTINEL = "SENTINEL: previous content of the output path\n"


# ------------------------------------------------------------------ images

def png_bytes(w, h, seed=0):
    def chunk(t, d):
        c = struct.pack(">I", len(d)) + t + d
        return c + struct.pack(">I", zlib.crc32(t + d) & 0xFFFFFFFF)
    raw = b"".join(b"\x00" + bytes([(seed * 7 + x * 3 + y * 5) % 256 for x in range(w)]) for y in range(h))
    return (b"\x89PNG\r\n\x1a\n" + chunk(b"IHDR", struct.pack(">IIBBBBB", w, h, 8, 0, 0, 0, 0))
            + chunk(b"IDAT", zlib.compress(raw, 9)) + chunk(b"IEND", b""))


def jpeg_bytes(w, h, seed=0):
    from PIL import Image

    im = Image.new("L", (w, h))
    im.putdata([(seed * 11 + i * 13) % 256 for i in range(w * h)])
    buf = io.BytesIO()
    im.save(buf, format="JPEG", quality=60)
    return buf.getvalue()


# ------------------------------------------------------------------ document pool

FC_TEXTS = ["second fcharset doc", "fcharset", "the \\fcharset0 word", "x fcharset1 y fcharset"]


def gen_doc_spec(rng, k):
    """one document spec + its feature labels; every text carries the prefix d{k}"""
    feats = []
    kind = rng.choice(["table", "table", "table", "multi", "figure", "figure"])
    spec = dict(kind=kind)
    page = {}
    r = rng.random()
    if r < 0.4:
        page["orientation"] = "landscape"
        feats.append("landscape")
    if rng.random() < 0.25:
        page["width"], page["height"] = rng.choice([(8.27, 11.69), (7.0, 9.0), (11.0, 17.0)])
        feats.append("papersize")
    if rng.random() < 0.2:
        page["margin"] = [rng.choice([0.5, 1.0, 1.25, 1.5]) for _ in range(6)]
        feats.append("margins")
    fc = rng.random() < 0.3
    fc_where = None
    colour = rng.random() < 0.4
    if kind == "table":
        nrows = rng.choice([1, 2, 3, 5, 8, 12, 20])
        ncols = rng.randint(1, 4)
        fr = docgen.tagged_frame(rng, nrows, ncols, tag=f"d{k}r")
        if rng.random() < 0.6:
            page["nrow"] = rng.randint(5, 12)
        spec["df"] = fr
        body = {}
        if colour:
            body[rng.choice(["text_color", "text_background_color"])] = rng.choice(["red", "blue", "gold"])
        spec["body"] = body
        if fc and rng.random() < 0.6:
            i, j = rng.randrange(nrows), rng.randrange(ncols)
            fr["rows"][i][j] = f"d{k}r{i}c{j} " + rng.choice(FC_TEXTS)
            fc_where = "cell"
    elif kind == "multi":
        nsec = rng.randint(2, 3)
        frames, bodies, headers = [], [], []
        for s in range(nsec):
            ncols = rng.randint(1, 3)
            frames.append(docgen.tagged_frame(rng, rng.randint(1, 6), ncols, tag=f"d{k}s{s}r"))
            bodies.append(dict(text_color=rng.choice(["red", "blue"])) if colour and s == 0 else {})
            headers.append([None] if rng.random() < 0.5 else [dict(text=[f"d{k}s{s}h{j}" for j in range(ncols)])])
        spec.update(df=frames, body=bodies, headers=headers)
        if fc and rng.random() < 0.6:
            fr = frames[-1]
            fr["rows"][0][0] = f"d{k}s{nsec - 1}r0c0 " + rng.choice(FC_TEXTS)
            fc_where = "cell"
    else:
        nfig = rng.randint(1, 3)
        files = []
        for i in range(nfig):
            if rng.random() < 0.6:
                files.append(dict(name=f"f{i}.png", hex=png_bytes(rng.randint(1, 6), rng.randint(1, 5), k + i).hex()))
            else:
                files.append(dict(name=f"f{i}.jpg", hex=jpeg_bytes(rng.randint(2, 9), rng.randint(2, 9), k + i).hex()))
        fig = dict(files=files, fig_width=rng.choice([2.0, 3.5, 5.0]), fig_height=rng.choice([1.5, 2.0, 4.0]))
        if nfig == 1:
            fig["_as_list"] = rng.random() < 0.5
        spec["figure"] = fig
    # surrounding components
    if rng.random() < 0.6 or (kind == "figure" and colour):
        t = dict(text=f"d{k}T title")
        if colour and (kind == "figure" or rng.random() < 0.4):
            t["text_color"] = rng.choice(["red", "darkgreen"])
        spec["title"] = t
    if rng.random() < 0.3:
        spec["footnote"] = dict(text=f"d{k}FN footnote", **({"as_table": False} if kind == "figure" else {}))
    if rng.random() < 0.3:
        spec["source"] = dict(text=f"d{k}SRC source")
    if rng.random() < 0.35:
        spec["page_header"] = {} if rng.random() < 0.5 else dict(text=f"d{k}H header")
        feats.append("page_header")
    if rng.random() < 0.35:
        spec["page_footer"] = dict(text=f"d{k}F footer")
        feats.append("page_footer")
    if fc and fc_where is None:
        where = rng.choice(["title", "footnote", "page_header", "page_footer"])
        spec[where] = dict(text=f"d{k}{where} " + rng.choice(FC_TEXTS),
                           **({"as_table": False} if kind == "figure" and where == "footnote" else {}))
        fc_where = where
        if where.startswith("page_") and where not in feats:
            feats.append(where)
    if page:
        spec["page"] = page
    if fc_where:
        feats.append("fcharset-in-" + fc_where)
    if colour:
        feats.append("colour")
    return spec, [kind] + feats


def block_sig(b):
    if b.kind == "row":
        return ["row"] + [rtfread.para_text(c) for c in b.cells]
    if b.kind == "pict":
        return ["pict", b.blip, len(b.data), hashlib.sha1(b.data).hexdigest()[:12]]
    return [b.kind, rtfread.para_text(b)]


def doc_summary(data: bytes):
    d = rtfread.read(data)
    return dict(start=d.start_geometry, pages=[[block_sig(b) for b in p.blocks] for p in d.pages],
                geoms=[p.geometry for p in d.pages], nheaders=len(d.headers), nfooters=len(d.footers),
                colortbl=d.has_colortbl)


def _write_doc(args):
    """stage 1 worker: build the document and write it with the public write_rtf"""
    spec, path = args
    try:
        wd = tempfile.mkdtemp(prefix="rtfv_c17fig_")
        try:
            with contextlib.redirect_stdout(io.StringIO()):
                doc = docgen.build(spec, wd)
                doc.write_rtf(path)
        finally:
            shutil.rmtree(wd, ignore_errors=True)
    except Exception as e:  # noqa: BLE001
        return dict(status="error", msg=f"{type(e).__name__}: {e}"[:300])
    try:
        return dict(status="ok", summary=doc_summary(Path(path).read_bytes()))
    except rtfread.RtfError as e:
        return dict(status="unreadable", msg=str(e))


def read_lines(path):
    """exactly what assemble_rtf does to read an input"""
    with open(path, encoding="utf-8") as f:
        return f.readlines()


def read_raw(path):
    with open(path, encoding="utf-8", newline="") as f:
        return f.read()


# ------------------------------------------------------------------ real call

def _path_state(p):
    """(inode, mtime, size, text) of the file the path denotes, None when there is none"""
    if not os.path.exists(p):
        return None
    st = os.stat(p)
    return (st.st_ino, st.st_mtime_ns, st.st_size, read_raw(p))


def _call(paths, out, preexist):
    """run the real assemble_rtf; observe exception, output presence/content, untouched-ness (the output path denotes
    the same file with the same content and time stamp as when the call started — a sentinel when `preexist`, nothing,
    or, when the output path is one of the inputs, that input)"""
    from rtflite import assemble_rtf

    if preexist:
        Path(out).write_text(SENTINEL, encoding="utf-8")
    before = _path_state(out)
    exc = None
    try:
        ret = assemble_rtf(list(paths), out)
        if ret is not None:
            exc = dict(kind="returned-non-None", msg=repr(ret)[:80])
    except FileNotFoundError as e:
        exc = dict(kind="FileNotFoundError", msg=str(e))
    except IndexError as e:
        exc = dict(kind="IndexError", msg=str(e))
    except Exception as e:  # noqa: BLE001
        exc = dict(kind=type(e).__name__, msg=str(e)[:200])
    exists = os.path.exists(out)
    text = read_raw(out) if exists else None
    return dict(exc=exc, exists=exists, text=text, untouched=_path_state(out) == before)


def _asm_worker(case):
    """stage 2 worker for doc cases: case has 'paths' (existing pool files or missing names), variant info"""
    wd = tempfile.mkdtemp(prefix="rtfv_c17out_")
    try:
        out = os.path.join(wd, "combined.rtf")
        paths = list(case["paths"])
        ob = _call(paths, out, case.get("preexist", False))
        res = dict(ob)
        if ob["text"] is not None and ob["exc"] is None and ob["text"] != SENTINEL:
            try:
                res["summary"] = doc_summary(Path(out).read_bytes())
            except rtfread.RtfError as e:
                res["unreadable"] = str(e)
        if case.get("nested") is not None and ob["exc"] is None and len(paths) >= 2:
            k = case["nested"]
            mid = os.path.join(wd, "part.rtf")
            out2 = os.path.join(wd, "nested.rtf")
            o1 = _call(paths[:k], mid, False)
            if o1["exc"] is None:
                o2 = _call([mid] + paths[k:], out2, False)
                res["nested_text_equal"] = (o2["exc"] is None and o2["text"] == ob["text"])
            else:
                res["nested_text_equal"] = False
        return res
    finally:
        shutil.rmtree(wd, ignore_errors=True)


def _toy_worker(case):
    """toy/calls stream: texts (None = missing) written byte-exactly, then the real call"""
    wd = tempfile.mkdtemp(prefix="rtfv_c17toy_")
    try:
        paths = []
        contents = []
        for i, (name, t) in enumerate(zip(case["names"], case["texts"])):
            p = os.path.join(wd, name)
            if t is not None and not os.path.exists(p):
                with open(p, "w", encoding="utf-8", newline="") as f:
                    f.write(t)
            paths.append(p)
        for p, t in zip(paths, case["texts"]):
            contents.append(read_lines(p) if os.path.exists(p) else None)
        out = os.path.join(wd, "out.rtf")
        alias = case.get("alias")
        if alias is not None:                   # the output path IS the alias-th input (existing or missing)
            out = paths[alias]
        ob = _call(paths, out, case.get("preexist", False) and alias is None)
        ob["contents"] = contents
        ob["paths"] = paths
        # every input but the output reads as before
        ob["inputs_changed"] = [i for i, p in enumerate(paths) if p != out
                                and (read_lines(p) if os.path.exists(p) else None) != contents[i]]
        return ob
    finally:
        shutil.rmtree(wd, ignore_errors=True)


# ------------------------------------------------------------------ file names
#
# A listed input is ONE name: whatever characters it contains, it denotes the file the operating system finds under
# exactly that name.  The `names` stream puts the inputs (and the output) under names of a family — glob
# metacharacters, blanks, non-ASCII (both normal forms), leading dots / dashes / tildes, shell / URL / environment
# syntax, names that are prefixes or suffixes of one another — into directories (named from the same family) that ALSO
# hold decoys: real rtflite files with other contents under names the listed ones would match as patterns, case /
# white-space / Unicode variants, backup copies, the same stem with other suffixes.  No page of a decoy may appear.

GLOB_NAMES = ["t14[1].rtf", "ae_*.rtf", "t?.rtf", "[ab].rtf", "x[!a].rtf", "*.rtf", "tbl[0-9].rtf", "*", "t[1][2].rtf",
              "a[b-d]?.rtf", "**.rtf", "t[[]1].rtf", "?", "t14_[ab]*.rtf", "[t]14.rtf", "report (v?).rtf",
              "ünï[1].rtf", "t14[1]", "??.rtf", "t*", "[[]draft].rtf", "a[]]b.rtf"]
ODD_NAMES = ["my table.rtf", " lead.rtf", "trail .rtf", "trail.rtf ", "tïtle_表.rtf", "café.rtf",
             "café.rtf", "ﬁnal.rtf", ".hidden.rtf", ".rtf", "-o.rtf", "--help", "~tmp.rtf", "~", "t14.rtf~",
             "T14.RTF", "t14.rtf.bak", "t14", "t14.rtf.rtf", "a, b.rtf", "a;b.rtf", "a&b.rtf", "a|b.rtf", "a'b.rtf",
             'a"b.rtf', "a\\b.rtf", "a\\*.rtf", "$HOME.rtf", "${x}.rtf", "%TEMP%.rtf", "a%20b.rtf", "a%2Ab.rtf",
             "{a,b}.rtf", "#t14.rtf#", "t14 (copy).rtf", "t14(1).rtf", "a\tb.rtf", "a\nb.rtf", "...", "t14.", "0",
             "x" * 180 + ".rtf", "‮t14.rtf", "t14 .rtf", "\U0001f4c4.rtf"]
PLAIN_NAMES = ["t14.rtf", "t1.rtf", "t141.rtf", "t15.rtf", "ae.rtf", "ae_.rtf", "table.rtf", "a.rtf", "b.rtf", "ta.rtf"]
DIR_NAMES = ["", "", "", "sub", "out[1]", "my dir", "d*", "données", ".hid", "-d", "~", "a?", "tlf.rtf", "[x]", "t14",
             "$d", "x y[0-9]"]
OUT_PLAIN = ["combined.rtf", "out.rtf", "all.rtf"]


def has_magic(name):
    return any(c in name for c in "*?[")


def _bracket_end(s, i):
    j = i + 1
    if j < len(s) and s[j] == "!":
        j += 1
    if j < len(s) and s[j] == "]":
        j += 1
    return s.find("]", j)


def pattern_instances(name, rng, tries=8):
    """other names that `name` matches when read as a glob pattern"""
    out = set()
    for _ in range(tries):
        i, buf = 0, []
        while i < len(name):
            c = name[i]
            if c == "*":
                buf.append(rng.choice(["", "x", "12", "_old", "1"]))
            elif c == "?":
                buf.append(rng.choice("a1_x"))
            elif c == "[" and _bracket_end(name, i) > 0:
                j = _bracket_end(name, i)
                expr = name[i:j + 1]
                cands = [ch for ch in "ab1cdt023xX[]!-_" if fnmatch.fnmatchcase(ch, expr)]
                buf.append(rng.choice(cands) if cands else expr)
                i = j
            else:
                buf.append(c)
            i += 1
        cand = "".join(buf)
        if cand != name and cand not in ("", ".", "..") and "/" not in cand and fnmatch.fnmatchcase(cand, name):
            out.add(cand)
    return sorted(out)


def variant_decoys(name):
    """(label, name') for names a careless normalisation / neighbour search would confuse with `name`"""
    stem, ext = os.path.splitext(name)
    v = []

    def add(lbl, n):
        if n and n != name and "/" not in n and "\0" not in n and n not in (".", "..") and len(n.encode()) < 250:
            v.append((lbl, n))
    add("stripped", name.strip())
    add("stripped", stem.strip() + ext)
    add("case", name.lower())
    add("case", name.upper())
    add("case", stem + ext.upper())
    for form in ("NFC", "NFD", "NFKC"):
        add("unicode-form", unicodedata.normalize(form, name))
    for suf in (".bak", "~", ".orig", ".rtf", ".tmp", ".1"):
        add("backup", name + suf)
    add("backup", "#" + name + "#")
    add("backup", stem + " (copy)" + ext)
    add("backup", "Copy of " + name)
    add("backup", stem + "(1)" + ext)
    add("other-suffix", stem + ".docx")
    add("other-suffix", stem + ".txt")
    add("other-suffix", stem + ".rt")
    add("other-suffix", stem)
    add("prefix-sibling", stem[:-1] + ext)
    add("prefix-sibling", stem[1:] + ext)
    add("prefix-sibling", stem + "1" + ext)
    add("prefix-sibling", "x" + name)
    add("prefix-sibling", name + "x")
    add("expanded", urllib.parse.unquote(name))
    add("expanded", glob.escape(name))
    add("expanded", name.replace("\\", ""))
    add("expanded", name.replace("[", "").replace("]", ""))
    add("expanded", name.lstrip("-~."))
    return v


def name_features(name):
    f = []
    if has_magic(name):
        f.append("glob-magic")
    if any(c.isspace() for c in name):
        f.append("white-space")
    if any(ord(c) > 127 for c in name):
        f.append("non-ascii")
    if name[:1] in ".-~":
        f.append("leading-" + {".": "dot", "-": "dash", "~": "tilde"}[name[:1]])
    if any(c in name for c in "$%{}#&|;'\"\\,"):
        f.append("shell-or-url-syntax")
    return f or ["plain"]


ALIAS_HOW = ["same-name", "same-name", "other-spelling", "other-spelling", "symlink-to-input", "input-through-symlink",
             "hard-link", "case-variant"]
FORMS = ["abs", "rel", "dot", "dotdot"]


def gen_names(rng, docs_in, docs_decoy, alias=False):
    """one self-contained directory scene; docs_* are pool indices (contents).  alias: the output path denotes the
    file of one of the listed inputs (any position; all draws for it come after the ordinary ones)"""
    files, links, feats = {}, {}, []       # rel → doc ; rel → target rel
    decoys = {}                            # rel → label
    taken = set()
    dirs = []
    for _ in range(rng.choice([1, 1, 2])):
        d = rng.choice(DIR_NAMES)
        if d not in dirs:
            dirs.append(d)
    taken.update(d for d in dirs if d)
    pool_in = list(docs_in)
    rng.shuffle(pool_in)

    def rel(d, n):
        return f"{d}/{n}" if d else n

    def pick_name(d, weights=(45, 35, 20)):
        for _ in range(40):
            fam = rng.choices([GLOB_NAMES, ODD_NAMES, PLAIN_NAMES], weights)[0]
            n = rng.choice(fam)
            if rel(d, n) not in taken:
                return n
        return f"in{len(taken)}.rtf"

    def decoy_doc():
        for _ in range(50):
            k = rng.choice(docs_decoy)
            if k not in in_docs:
                return k
        return None

    def add_decoys(d, n, always_instance=True):
        inst = pattern_instances(n, rng)
        rng.shuffle(inst)
        var = variant_decoys(n)
        rng.shuffle(var)
        chosen = [("pattern-instance", x) for x in inst[:rng.choice([1, 2, 3])]] + var[:rng.choice([1, 2, 3, 4])]
        for lbl, dn in chosen:
            r = rel(d, dn)
            k = decoy_doc()
            if r in taken or k is None:
                continue
            taken.add(r)
            files[r] = k
            decoys[r] = lbl

    n = rng.choice([1, 1, 2, 2, 2, 3, 3, 4])
    in_docs = set(pool_in[:n])
    inputs = []
    for i in range(n):
        if i > 0 and rng.random() < 0.15:          # the same file listed again (any form)
            prev = rng.choice(inputs)
            ref = prev["ref"]
            if ref in links and rng.random() < 0.5:  # once through the link, once directly
                ref = links[ref]
                feats.append("input:listed-through-symlink-and-directly")
            inputs.append(dict(ref=ref, doc=prev["doc"]))
            feats.append("input:listed-twice")
            continue
        d = rng.choice(dirs)
        nm = pick_name(d)
        r = rel(d, nm)
        taken.add(r)
        files[r] = pool_in[i]
        ref = r
        if rng.random() < 0.18:                     # listed through a symbolic link whose own name is of the family
            ld = rng.choice(dirs)
            ln = pick_name(ld)
            lr = rel(ld, ln)
            taken.add(lr)
            links[lr] = r
            ref = lr
            feats.append("input:symlink")
            add_decoys(ld, ln)
        inputs.append(dict(ref=ref, doc=pool_in[i]))
        add_decoys(d, nm)
    # directories the inputs' directories match as patterns, holding files with the inputs' base names
    for d in dirs:
        if d and has_magic(d):
            for dd in pattern_instances(d, rng)[:1]:
                if dd in taken:
                    continue
                taken.add(dd)
                for r in [r for r in list(files) + list(links) if os.path.dirname(r) == d and r not in decoys]:
                    k = decoy_doc()
                    if k is not None:
                        files[rel(dd, os.path.basename(r))] = k
                        decoys[rel(dd, os.path.basename(r))] = "pattern-instance-directory"
                        taken.add(rel(dd, os.path.basename(r)))
    # output path: among the inputs' neighbours, its name of the family as well
    od = rng.choice(dirs) if rng.random() < 0.75 else ""
    for _ in range(40):
        on = rng.choice(OUT_PLAIN) if rng.random() < 0.45 else rng.choice(GLOB_NAMES + ODD_NAMES)
        if rel(od, on) not in taken:
            break
    else:
        on = f"out{len(taken)}.rtf"
    out_rel = rel(od, on)
    taken.add(out_rel)
    add_decoys(od, on)
    # scenario
    r = rng.random()
    scenario = "ok"
    if r < 0.06:
        scenario = "empty"
        inputs = []
    elif r < 0.30:
        scenario = "missing"
        for i in rng.sample(range(len(inputs)), rng.choice([1, 1, 2]) if len(inputs) > 1 else 1):
            ref = inputs[i]["ref"]
            if ref in links and rng.random() < 0.6:
                files.pop(links[ref], None)          # dangling symbolic link (its target is gone)
                feats.append("missing:dangling-symlink")
            else:
                links.pop(ref, None)                 # nothing under that name
                files.pop(ref, None)
                feats.append("missing:name-absent")
            if has_magic(os.path.basename(ref)) and any(
                    os.path.dirname(q) == os.path.dirname(ref)
                    and fnmatch.fnmatchcase(os.path.basename(q), os.path.basename(ref)) for q in files):
                feats.append("missing:name-matches-existing-neighbours-as-pattern")
        for x in inputs:                             # what each listed name resolves to now
            tgt = links.get(x["ref"], x["ref"])
            x["doc"] = files.get(tgt)
    any_missing = any(x["doc"] is None for x in inputs)
    for x in inputs:
        x["form"] = rng.choices(["abs", "rel", "dot", "dotdot"], (40, 30, 15, 15))[0]
        # annotated type is list[str]; a missing input given as Path raises TypeError in the message join (reported)
        x["path"] = rng.random() < 0.25          # (missing inputs too: repaired in rtflite 88a9e50, D44)
    out = dict(rel=out_rel, form=rng.choices(["abs", "rel", "dot", "dotdot"], (40, 30, 15, 15))[0],
               path=rng.random() < 0.25, preexist=rng.random() < 0.3)
    hard = {}
    if alias and inputs:
        i = rng.randrange(len(inputs))
        x = inputs[i]
        target = links.get(x["ref"], x["ref"])      # the file the i-th listed name denotes (absent in a missing scenario)
        how = rng.choice(ALIAS_HOW)
        out["preexist"] = False                      # what is there is the input itself
        if how == "hard-link" and target not in files:
            how = "same-name"
        if how == "case-variant":
            # NOT an alias where the file system is case-sensitive: another file, the input must not be touched
            base = os.path.basename(x["ref"])
            v = rel(os.path.dirname(x["ref"]), base.swapcase())
            if base.swapcase() == base or v in taken or len(base.swapcase().encode()) != len(base.encode()):
                how = "same-name"
            else:
                taken.add(v)
                out["rel"] = v
                out["preexist"] = rng.random() < 0.5
        if how in ("same-name", "other-spelling"):
            out["rel"] = x["ref"]
            if how == "same-name":
                out["form"], out["path"] = x["form"], x["path"]
            else:
                out["form"] = rng.choice([f for f in FORMS if f != x["form"]])
        elif how in ("symlink-to-input", "hard-link"):
            od2 = rng.choice(dirs)
            lr = rel(od2, pick_name(od2))
            taken.add(lr)
            (links if how == "symlink-to-input" else hard)[lr] = target
            out["rel"] = lr
        elif how == "input-through-symlink":
            if x["ref"] not in links:                # list the input through a new link, write to the file itself
                ld = rng.choice(dirs)
                lr = rel(ld, pick_name(ld))
                taken.add(lr)
                links[lr] = x["ref"]
                x["ref"] = lr
            out["rel"] = target
        out["alias"] = dict(pos=i, how=how, of=len(inputs))
    return dict(level="names", scenario=scenario, dirs=[d for d in dirs if d],
                files=[dict(rel=k, doc=v) for k, v in files.items()],
                links=[dict(rel=k, to=v) for k, v in links.items()],
                hardlinks=[dict(rel=k, to=v) for k, v in hard.items()],
                decoys=decoys, inputs=inputs, out=out, features=sorted(set(feats)))


def _arg(root, ref, form, as_path):
    if form == "abs":
        s = os.path.join(root, ref)
    elif form == "rel":
        s = ref
    elif form == "dot":
        s = "./" + ref
    else:
        head, _, tail = ref.partition("/")
        s = (head + "/../" + ref) if tail else ("../" + os.path.basename(root) + "/" + ref)
    return Path(s) if as_path else s


def _file_key(p):
    """identity of the file a path denotes (cwd = the scene's root)"""
    try:
        st = os.stat(p)
        return f"{st.st_dev}:{st.st_ino}"
    except OSError:
        return "absent:" + os.path.realpath(p)


def _snapshot(root):
    snap = {}
    for dp, dns, fns in os.walk(root):
        for nm in dns + fns:
            p = os.path.join(dp, nm)
            r = os.path.relpath(p, root)
            if os.path.islink(p):
                snap[r] = "L:" + os.readlink(p)
            elif os.path.isdir(p):
                snap[r] = "D"
            else:
                st = os.stat(p)
                with open(p, "rb") as f:
                    snap[r] = f"F:{hashlib.sha1(f.read()).hexdigest()[:16]}:{st.st_ino}:{st.st_mtime_ns}"
    return snap


def _names_worker(case):
    """build the directory scene from pool files (case['_pool']: doc index → path), call the real assemble_rtf with
    the argument forms of the case (cwd = the scene's root), observe output and every other file"""
    from rtflite import assemble_rtf

    pool = case["_pool"]
    root = tempfile.mkdtemp(prefix="rtfv_c17nm_")
    cwd = os.getcwd()
    try:
        for f in case["files"]:
            p = os.path.join(root, f["rel"])
            os.makedirs(os.path.dirname(p), exist_ok=True)
            shutil.copyfile(pool[f["doc"]], p)
        for d in case.get("dirs", []):
            os.makedirs(os.path.join(root, d), exist_ok=True)
        for l in case["links"]:
            p = os.path.join(root, l["rel"])
            os.makedirs(os.path.dirname(p), exist_ok=True)
            os.symlink(os.path.relpath(os.path.join(root, l["to"]), os.path.dirname(p)), p)
        for l in case.get("hardlinks", []):
            p = os.path.join(root, l["rel"])
            os.makedirs(os.path.dirname(p), exist_ok=True)
            os.link(os.path.join(root, l["to"]), p)
        o = case["out"]
        out_abs = os.path.join(root, o["rel"])
        os.makedirs(os.path.dirname(out_abs), exist_ok=True)
        if o["preexist"]:
            Path(out_abs).write_text(SENTINEL, encoding="utf-8")
        before = _snapshot(root)
        args = [_arg(root, x["ref"], x["form"], x["path"]) for x in case["inputs"]]
        out_arg = _arg(root, o["rel"], o["form"], o["path"])
        exc = None
        os.chdir(root)
        # which file every name denotes when the call starts (several names may denote one file)
        regular = [r for r, v in before.items() if v.startswith("F:")]
        keys = dict(args=[_file_key(a) for a in args], out=_file_key(out_arg),
                    files={r: _file_key(os.path.join(root, r)) for r in regular})
        alias_rels = sorted(r for r in regular if r != o["rel"] and keys["files"][r] == keys["out"])
        try:
            ret = assemble_rtf(list(args), out_arg)
            if ret is not None:
                exc = dict(kind="returned-non-None", msg=repr(ret)[:80])
        except Exception as e:  # noqa: BLE001
            exc = dict(kind=type(e).__name__, msg=str(e)[:2000])
        finally:
            os.chdir(cwd)
        after = _snapshot(root)
        exists = os.path.lexists(out_abs)
        text = read_raw(out_abs) if os.path.isfile(out_abs) else None
        changed = sorted(r for r in set(before) | set(after) if r != o["rel"] and before.get(r) != after.get(r))
        sha = lambda v: v.split(":")[1] if v and v.startswith("F:") else v      # noqa: E731
        res = dict(exc=exc, exists=exists, text=text, untouched=before.get(o["rel"]) == after.get(o["rel"]),
                   changed=changed, root=root, args=[os.fspath(a) for a in args], out_arg=os.fspath(out_arg),
                   keys=keys, alias_rels=alias_rels,
                   content_changed=sorted(r for r in set(before) | set(after)
                                          if r != o["rel"] and sha(before.get(r)) != sha(after.get(r))),
                   alias_stale=[r for r in alias_rels if exc is None and text is not None
                                and (not os.path.isfile(os.path.join(root, r)) or read_raw(os.path.join(root, r)) != text)])
        if text is not None and exc is None and text != SENTINEL:
            try:
                res["summary"] = doc_summary(Path(out_abs).read_bytes())
            except rtfread.RtfError as e:
                res["unreadable"] = str(e)
        return res
    finally:
        os.chdir(cwd)
        shutil.rmtree(root, ignore_errors=True)


def names_requests(case, ob, lines):
    """driver requests of one names case: the call over the whole directory (asm_fs) and, when every listed input
    exists, the line-level oracle (asm_lines)"""
    root = ob["root"]
    names, contents = [], []
    for x, a in zip(case["inputs"], ob["args"]):
        if x["doc"] is not None:
            names.append(a)
            contents.append(lines[x["doc"]])
    keys = [k for x, k in zip(case["inputs"], ob["keys"]["args"]) if x["doc"] is not None]
    docs = {f["rel"]: f["doc"] for f in case["files"]}
    for r, k in [(f["rel"], f["doc"]) for f in case["files"]] + \
                [(h["rel"], docs[h["to"]]) for h in case.get("hardlinks", [])]:
        names.append(os.path.join(root, r))     # every file of the scene, decoys included, under its absolute name
        contents.append(lines[k])
        keys.append(ob["keys"]["files"][r])
    observed = ob["text"] if ob["exc"] is None and ob["text"] is not None and ob["text"] != SENTINEL else None
    reqs = [dict(op="asm_fs", names=names, contents=contents, keys=keys, inputs=ob["args"], out=ob["out_arg"],
                 out_key=ob["keys"]["out"], observed=observed)]
    if case["inputs"] and all(x["doc"] is not None for x in case["inputs"]):
        reqs.append(dict(op="asm_lines", files=[lines[x["doc"]] for x in case["inputs"]], observed=ob["text"] or ""))
    return reqs


def judge_names(res, case, ob, drv, sums, lines):
    """drv: answers to names_requests; sums/lines: doc index → reader summary / line list"""
    fsr = drv[0]
    kind = ob["exc"]["kind"] if ob["exc"] else "returned"
    inputs = case["inputs"]
    al = case["out"].get("alias")
    same = [i + 1 for i, k in enumerate(ob["keys"]["args"]) if k == ob["keys"]["out"]]
    where = (f" [arguments {ob['args']} → {ob['out_arg']!r}; "
             + (f"the output path denotes the file of input {same} of {len(inputs)} when the call starts"
                + (f" ({al['how']})" if al and al["how"] else "") + "; " if same else
                f"the output path differs only in case from an input's name; " if al and al["how"] == "case-variant" else "")
             + f"the directory also holds {sorted(case['decoys'])[:12]}]")
    nowrite = (not inputs) or any(x["doc"] is None for x in inputs)
    if nowrite:
        if not inputs:
            if kind != "returned":
                res.fail(case, f"empty input list raised {ob['exc']}")
                return
        elif kind != "FileNotFoundError":
            missing = [a for x, a in zip(inputs, ob["args"]) if x["doc"] is None]
            res.fail(case, f"missing input {missing} did not raise FileNotFoundError (got {kind})" + where)
            return
        if not ob["untouched"] or ob["changed"]:
            res.fail(case, "something was written although nothing may be: output untouched="
                           f"{ob['untouched']}, other paths changed={ob['changed']}" + where)
            return
    else:
        if ob["exc"] is not None:
            res.fail(case, f"assemble_rtf raised {ob['exc']} on existing rtflite files" + where)
            return
        if ob["text"] is None:
            res.fail(case, f"no output file at the requested path {ob['out_arg']!r}" + where)
            return
        lin = drv[1]
        if not all(lin["shaped"]):
            res.disagree(case, "an input written by write_rtf does not satisfy rtfliteShaped")
            return
        n = len(inputs)
        summaries = [sums[x["doc"]] for x in inputs]
        jcase = dict(case, nested=None)
        if n == 1:
            jcase["_single_text"] = "".join(lines[inputs[0]["doc"]])
        t = common.Result("C17", "quick", 0)
        if not lin["obs_wellformed"] and "unreadable" not in ob:
            t.fail(case, "assembled file is not one balanced top-level group closing in its last line")
        else:
            _judge_readback(t, jcase, ob, summaries, n)
        if t.failures:
            why = t.failures[0][1]
            # whose pages are there instead?
            if "summary" in ob:
                exp = [pg for s_ in summaries for pg in s_["pages"]]
                got = ob["summary"]["pages"]
                i = next((i for i, (a, b) in enumerate(zip(got, exp)) if a != b), min(len(got), len(exp)))
                if i < len(got):
                    listed = {x["ref"] for x in inputs} | {l["to"] for l in case["links"] if l["rel"] in {x["ref"] for x in inputs}}
                    hits = [f for f in case["files"] if f["rel"] not in listed and got[i] in sums[f["doc"]]["pages"]]
                    if hits:
                        f = hits[0]
                        why += (f"; page {i + 1} of the output is page {sums[f['doc']]['pages'].index(got[i]) + 1} of "
                                + " / ".join(f"{h['rel']!r} ({case['decoys'].get(h['rel'], 'neighbour')})" for h in hits[:4])
                                + " — not a listed file")
            res.fail(case, why + where)
            return
        others = sorted(set(ob["changed"]) - set(ob["alias_rels"]))
        if others:
            res.disagree(case, f"paths other than the output changed: {others} (C17_others_untouched)" + where)
            return
        if ob["alias_stale"]:
            res.disagree(case, f"other names of the output's file do not read what was written: {ob['alias_stale']} "
                               "(C17_reads_before_write)" + where)
            return
        if lin["obs_is_spec"] is not True:
            res.disagree(case, "assembled bytes differ from the closed form of C17_lines" + where)
            return
    # correspondence with the model of the call over the whole directory
    m = fsr["result"]
    if kind != m["kind"]:
        res.disagree(case, f"outcome {kind} ({ob['exc']}) != model {m['kind']}" + where)
    elif kind == "FileNotFoundError" and ob["exc"]["msg"] != "Missing files: " + ", ".join(m["missing"]):
        res.disagree(case, f"message {ob['exc']['msg']!r} != model's missing list {m['missing']}")
    elif fsr["written_none"]:
        if not ob["untouched"] or ob["changed"]:
            res.disagree(case, "model writes nothing but the directory changed")
    elif not fsr["written_is_observed"]:
        res.disagree(case, "bytes written differ from the model's lines over the directory" + where)
    else:
        mch = set(fsr["changed"])
        model_changed = sorted(r for r in ob["keys"]["files"]
                               if r != case["out"]["rel"] and os.path.join(ob["root"], r) in mch)
        if model_changed != ob["content_changed"]:
            res.disagree(case, f"names whose content changed {ob['content_changed']} != the model's {model_changed}" + where)


def names_full_case(case, specs):
    used = sorted({f["doc"] for f in case["files"]})
    return dict({k: v for k, v in case.items() if not k.startswith("_")}, docs={str(k): specs[k] for k in used})


def count_names(res, case, ob):
    res.count(f"names:scenario:{case['scenario']}")
    res.count(f"names:inputs:{len(case['inputs'])}")
    for x in case["inputs"]:
        for f in name_features(os.path.basename(x["ref"])):
            res.count("names:input-name:" + f)
        d = os.path.dirname(x["ref"])
        if d:
            for f in name_features(d):
                res.count("names:input-dir:" + f)
        res.count("names:arg:" + x["form"] + ("-Path" if x["path"] else "-str"))
    for f in case["features"]:
        res.count("names:" + f)
    for lbl in set(case["decoys"].values()):
        res.count("names:decoy:" + lbl)
    o = case["out"]
    for f in name_features(os.path.basename(o["rel"])):
        res.count("names:output-name:" + f)
    if any(os.path.dirname(x["ref"]) == os.path.dirname(o["rel"]) for x in case["inputs"]):
        res.count("names:output:in-a-directory-of-the-inputs")
    if o["preexist"]:
        res.count("names:output:pre-existing")
    al = o.get("alias")
    if al:
        res.count("names:output-alias:" + al["how"])
        if al["how"] != "case-variant":
            res.count("names:output-is-input:" + ("only" if al["of"] == 1 else "first" if al["pos"] == 0 else
                                                  "last" if al["pos"] == al["of"] - 1 else "middle"))
            res.count("names:output-is-input:" + ("same-argument-string" if ob["out_arg"] in ob["args"]
                                                  else "another-spelling-or-name"))
            res.count("names:output-is-input:" + ("the-file-exists" if case["inputs"][al["pos"]]["doc"] is not None
                                                  else "the-file-is-missing"))
    res.count("names:outcome:" + (ob["exc"]["kind"] if ob["exc"] else "returned"))


# annotated `input_files: list[str]`; a pathlib.Path works for existing inputs (os.path.exists / open accept it) but
# the message of the missing-input error is built with ', '.join(missing_files) — observed, reported, not judged
PATH_PROBE = dict(level="names", scenario="probe", dirs=[], files=[], links=[], decoys={}, features=[],
                  inputs=[dict(ref="nope.rtf", doc=None, form="abs", path=True)],
                  out=dict(rel="out.rtf", form="abs", path=False, preexist=False))


def run_names(res, tier, pool):
    ncases = 400 if tier == "quick" else 4000
    good, paths, lines, st, specs = pool["good"], pool["paths"], pool["lines"], pool["st"], pool["specs"]
    sizes = sorted(good, key=lambda k: sum(map(len, lines[k])))
    docs_decoy = sizes[:max(8, len(sizes) // 2)]           # decoys: the smaller half (request size), any kind
    sums = {k: st[k]["summary"] for k in good}
    cases = [gen_names(sub_rng(res.seed, "c17names", i), good, docs_decoy) for i in range(ncases)]
    # added: the output path denotes the file of one of the inputs
    cases += [gen_names(sub_rng(res.seed, "c17namesalias", i), good, docs_decoy, alias=True) for i in range(ncases // 4)]
    ppool = {k: paths[k] for k in good}
    obs = common.pool_map(_names_worker, [dict(c, _pool=ppool) for c in cases] + [dict(PATH_PROBE, _pool={})], chunksize=4)
    probe = obs[len(cases)]
    obs = obs[:len(cases)]
    if probe["exc"] and probe["exc"]["kind"] != "FileNotFoundError":
        # (a TypeError until rtflite 88a9e50, D44; the generated missing scenarios give Path arguments too and are
        # judged — this probe only annotates)
        res.notes.append("assemble_rtf([Path('nope.rtf')], …) raises "
                         f"{probe['exc']['kind']}: {probe['exc']['msg'][:80]}")
    reqs, spans = [], []
    for c, o in zip(cases, obs):
        r = names_requests(c, o, lines)
        spans.append((len(reqs), len(reqs) + len(r)))
        reqs += r
    drv = driver_parallel(reqs, chunk=24)
    for c, o, (a, b) in zip(cases, obs, spans):
        full = names_full_case(c, specs)
        nt = ("names", tuple((x["ref"], x["form"], x["path"]) for x in c["inputs"]), c["out"]["rel"], c["scenario"],
              (c["out"].get("alias") or {}).get("how"))
        res.case(full, nt if c["inputs"] else None)
        count_names(res, c, o)
        res.corr_checked += 1
        judge_names(res, full, o, drv[a:b], sums, lines)


# ------------------------------------------------------------------ judging

def judge_doc(res, case, ob, drv, summaries):
    """ob: real observation; drv: asm_lines answer; summaries: per input doc_summary"""
    n = len(case["order"])
    if ob["exc"] is not None:
        res.fail(case, f"assemble_rtf raised {ob['exc']} on existing rtflite files")
        return
    if not ob["exists"]:
        res.fail(case, "no output file written")
        return
    # guard: hypothesis of the theorems on every real input
    if not all(drv["shaped"]):
        bad = [i for i, s in enumerate(drv["shaped"]) if not s]
        res.disagree(case, f"input(s) {bad} written by write_rtf do not satisfy rtfliteShaped "
                           f"(cuts={[drv['cuts'][i] for i in bad]}, wf={[drv['wf_inputs'][i] for i in bad]})")
        return
    # Lean oracle on the implementation's bytes: one balanced top-level group (C17_wellformed's conclusion)
    if not drv["obs_wellformed"]:
        res.fail(case, "assembled file is not one balanced top-level group closing in its last line "
                       "(Lean wellFormedDoc false on the written bytes)")
        return
    # byte level: the closed form of C17_lines (= the model, by that theorem).  A difference here alone is a broken
    # correspondence, not yet a failing input — the read-back clauses below decide that.
    byte_diff = None
    if drv["obs_is_spec"] is not True or not drv["obs_is_model"]:
        byte_diff = ("assembled bytes differ from the closed form of C17_lines (first file minus last line, then \\page + "
                     "everything after the font table of each later file, then the closing line)"
                     + (" — they equal what the unrepaired find_start_index model yields" if drv["obs_is_old"] else ""))
    nfail = len(res.failures)
    _judge_readback(res, case, ob, summaries, n)
    if byte_diff and len(res.failures) == nfail:
        res.disagree(case, byte_diff)


def _judge_readback(res, case, ob, summaries, n):
    if n == 1 and ob["text"] != case.get("_single_text"):
        res.fail(case, "single input not reproduced byte-identically")
        return
    # reader oracle
    if "unreadable" in ob:
        res.fail(case, f"assembled file is not a well-formed single RTF document: {ob['unreadable']}")
        return
    sm = ob["summary"]
    exp_pages = [pg for s in summaries for pg in s["pages"]]
    if sm["pages"] != exp_pages:
        npg = [len(s["pages"]) for s in summaries]
        first = next((i for i, (a, b) in enumerate(zip(sm["pages"], exp_pages)) if a != b), min(len(sm["pages"]), len(exp_pages)))
        res.fail(case, f"page contents differ from the concatenation of the inputs' pages: {len(sm['pages'])} pages vs "
                       f"expected {len(exp_pages)} (inputs have {npg}); first difference at page {first + 1}")
        return
    if sm["start"] != summaries[0]["start"]:
        res.fail(case, f"document start geometry {sm['start']} != first input's {summaries[0]['start']}")
        return
    pos = 0
    for i, s in enumerate(summaries):
        if i > 0:
            g = sm["geoms"][pos]
            if g != s["start"]:
                res.fail(case, f"input {i} starts on page {pos + 1} with geometry {g}, its own is {s['start']}")
                return
        for q in range(1, len(s["pages"])):
            if sm["geoms"][pos + q] != s["geoms"][q]:
                res.fail(case, f"page {pos + q + 1} geometry {sm['geoms'][pos + q]} != input {i} page {q + 1} {s['geoms'][q]}")
                return
        pos += len(s["pages"])
    if ob.get("nested_text_equal") is False:
        # C17_nested is a theorem about the model, not a clause of the statement → correspondence
        res.disagree(case, f"assemble(assemble(first {case['nested']}), rest) differs from assembling all inputs at once")


def parse_missing(msg, paths):
    pre = "Missing files: "
    if not msg.startswith(pre):
        return None
    return msg[len(pre):].split(", ")


def judge_call(res, case, ob, drv):
    """calls/toy stream: compare outcome with the model of the whole call; oracle for the no-write clauses"""
    m = drv["result"]
    kind = ob["exc"]["kind"] if ob["exc"] else "returned"
    expect_nowrite = (len(case["texts"]) == 0) or any(t is None for t in case["texts"])
    if expect_nowrite:
        # the statement's clauses: empty list writes nothing; missing input ⇒ FileNotFoundError before anything is written
        if len(case["texts"]) == 0:
            if kind != "returned":
                res.fail(case, f"empty input list raised {ob['exc']}")
                return
        elif kind != "FileNotFoundError":
            res.fail(case, f"missing input did not raise FileNotFoundError (got {kind})")
            return
        if not ob["untouched"]:
            res.fail(case, "output path was created or modified although nothing may be written "
                           f"(preexist={case.get('preexist', False)}, output is input {case.get('alias')}, "
                           f"exists after={ob['exists']})")
            return
    if kind != m["kind"]:
        res.disagree(case, f"outcome {kind} ({ob['exc']}) != model {m['kind']}")
        return
    if kind == "FileNotFoundError":
        miss = parse_missing(ob["exc"]["msg"], ob["paths"])
        if miss != m["missing"]:
            res.disagree(case, f"missing list {miss} != model {m['missing']}")
    if drv["written_none"]:
        if not ob["untouched"]:
            res.disagree(case, "model writes nothing but the output path changed")
    else:
        if not drv["written_is_observed"]:
            res.disagree(case, "bytes written differ from the model's lines")
    if ob.get("inputs_changed"):
        res.disagree(case, f"inputs other than the output path read differently after the call: {ob['inputs_changed']}")
    # single toy input: byte-identical (after newline translation, which is CPython's)
    if len(case["texts"]) == 1 and case["texts"][0] is not None and kind == "returned":
        if ob["text"] != "".join(ob["contents"][0]):
            res.fail(case, "single input not reproduced unchanged")


# ------------------------------------------------------------------ toy generator

TOY_LINES = [
    "{\\rtf1\\ansi\n", "\\deff0\\deflang1033\n", "{\\fonttbl{\\f0\\froman\\fcharset1\\fprq2 Times;}\n",
    "{\\f1\\fswiss\\fcharset0 Arial;}\n", "}\n", "}", " } \n", "}\t\n", "}{\\colortbl;\n", "\\red1\\green2\\blue3;\n",
    "} \u00a0\n", "}x\n", "\n", "\\paperw12240\\paperh15840\n", "{\\f0 body}\\par\n", "text fcharset text\n",
    "fcharset", "\\page\n", "{\\fonttbl{\\f0\\fcharset0 A;}}\n", "} }\n", "\u2028}\n", "}\r\n", "plain", "{\\f0 caf\u00e9 \u4e2d}\\par\n",
]


def gen_toy(rng, alias=False):
    n = rng.randint(1, 4)
    texts = []
    for _ in range(n):
        r = rng.random()
        if r < 0.06:
            texts.append("")
            continue
        if r < 0.45:  # roughly rtflite-like with perturbations
            ls = ["{\\rtf1\\ansi\n"]
            if rng.random() < 0.7:
                ls.append("\\deff0\n")
            ls += [rng.choice(TOY_LINES[2:4]) for _ in range(rng.randint(0, 3))]
            ls.append(rng.choice(["}\n", "}{\\colortbl;\n", "} \n", "}x\n", "\n", "}"]))
            ls += [rng.choice(TOY_LINES) for _ in range(rng.randint(0, 5))]
            ls.append(rng.choice(["}", "}\n", " } \n", "x}\n", "}}"]))
        else:
            ls = [rng.choice(TOY_LINES) for _ in range(rng.randint(1, 8))]
        t = "".join(ls)
        if rng.random() < 0.3 and t.endswith("\n"):
            t = t[:-1]
        texts.append(t)
    case = dict(level="toy", names=[f"in{i}.rtf" for i in range(n)], texts=texts, preexist=rng.random() < 0.3)
    if alias:                                   # the output path is one of the inputs
        case.update(alias=rng.randrange(n), preexist=False)
    return case


def gen_call(rng, sample_texts, alias=False):
    """missing / empty-list / IndexError cases over small real or toy contents; alias: the output path is one of the
    inputs (an existing one — it must stay as it is when nothing may be written — or a missing one), and also calls in
    which every input exists"""
    if alias:
        n = rng.randint(1, 6)
        texts = [rng.choice(sample_texts) for _ in range(n)]
        r = rng.random()
        if r < 0.5:
            for i in rng.sample(range(n), min(rng.choice([1, 1, 2]), n)):
                texts[i] = None
        elif r < 0.65 and n >= 2:
            texts[rng.randrange(n - 1)] = ""
        return dict(level="call", names=[f"in{i}.rtf" for i in range(n)], texts=texts, preexist=False,
                    alias=rng.randrange(n))
    r = rng.random()
    if r < 0.15:
        return dict(level="call", names=[], texts=[], preexist=rng.random() < 0.5)
    n = rng.randint(1, 6)
    texts = [rng.choice(sample_texts) for _ in range(n)]
    names = [f"in{i}.rtf" for i in range(n)]
    if r < 0.85:
        k = rng.choice([1, 1, 1, 2, 3])
        for i in rng.sample(range(n), min(k, n)):
            texts[i] = None
        # position emphasis: last / first missing
        if rng.random() < 0.3:
            texts = [t if t is not None else rng.choice(sample_texts) for t in texts]
            texts[rng.choice([0, n - 1])] = None
    else:
        if n >= 2:
            texts[rng.randrange(n - 1)] = ""      # empty non-last file → IndexError before writing
    return dict(level="call", names=names, texts=texts, preexist=rng.random() < 0.5)


# ------------------------------------------------------------------ run

def build_pool(seed, npool, tmp):
    specs, feats = [], []
    for k in range(npool):
        s, f = gen_doc_spec(sub_rng(seed, "c17doc", k), k)
        specs.append(s)
        feats.append(f)
    paths = [os.path.join(tmp, f"doc{k}.rtf") for k in range(npool)]
    st = common.pool_map(_write_doc, list(zip(specs, paths)), chunksize=2)
    return specs, feats, paths, st


def run_docs(res, tier, tmp):
    npool = 120 if tier == "quick" else 600
    ncases = 400 if tier == "quick" else 4000
    specs, feats, paths, st = build_pool(res.seed, npool, tmp)
    good = [k for k in range(npool) if st[k]["status"] == "ok"]
    for k in range(npool):
        if st[k]["status"] != "ok":
            res.count("pool_skipped:" + st[k]["status"])
            res.notes.append(f"pool doc {k} {feats[k]} not usable: {st[k]['msg'][:160]}")
    if len(good) < npool * 0.8:
        raise common.MachineryError(f"only {len(good)}/{npool} pool documents could be written: "
                                    f"{[s.get('msg') for s in st if s['status'] != 'ok'][:3]}")
    for k in good:
        for f in feats[k]:
            res.count("pooldoc:" + f)
    lines = {k: read_lines(paths[k]) for k in good}
    # documents that matter most as NON-first inputs
    special = [k for k in good if any(f.startswith("fcharset") or f == "colour" for f in feats[k])]
    cases = []
    for c in range(ncases):
        rng = sub_rng(res.seed, "c17asm", c)
        n = rng.choice([1, 2, 2, 3, 3, 4, 5, 6])
        order = [rng.choice(good) for _ in range(n)]
        if n >= 2 and special and rng.random() < 0.5:
            order[rng.randrange(1, n)] = rng.choice(special)
        case = dict(level="doc", order=order, preexist=rng.random() < 0.25,
                    nested=(rng.randint(1, n - 1) if n >= 2 and rng.random() < 0.3 else None))
        cases.append(case)
    obs = common.pool_map(_asm_worker, [dict(c, paths=[paths[k] for k in c["order"]]) for c in cases], chunksize=2)
    reqs = [dict(op="asm_lines", files=[lines[k] for k in c["order"]], observed=o["text"] if o["text"] is not None else "")
            for c, o in zip(cases, obs)]
    drv = driver_parallel(reqs)
    for c, o, d in zip(cases, obs, drv):
        full = dict(c, docs=[specs[k] for k in c["order"]], features=[feats[k] for k in c["order"]])
        n = len(c["order"])
        if n == 1:
            full["_single_text"] = "".join(lines[c["order"][0]])
        nt = ("doc", tuple(c["order"]), c["nested"]) if n >= 2 else None
        res.case({k: v for k, v in full.items() if k != "_single_text"}, nt)
        res.count(f"doc_inputs:{n}")
        for i, k in enumerate(c["order"]):
            if i > 0:
                for f in feats[k]:
                    if f.startswith("fcharset") or f in ("colour", "figure", "multi", "page_header", "landscape"):
                        res.count("later_input:" + f)
                cut = d["cuts"][i]
                if cut and cut["leftover"]:
                    res.count("later_input:leftover-on-closing-line")
                if cut and cut["mid_has_fcharset"]:
                    res.count("later_input:fcharset-after-font-table")
        if o.get("summary") and any(st[k]["summary"]["colortbl"] for k in c["order"][1:]):
            res.count("observed:colour-table-group-of-later-input-kept-in-body")
        res.corr_checked += 1
        judge_doc(res, full, o, d, [st[k]["summary"] for k in c["order"]])
    return [("".join(lines[k])) for k in good[:6]], dict(good=good, paths=paths, lines=lines, st=st, specs=specs)


# ------------------------------------------------------------------ growing a combined file in place (histories)
#
# assemble_rtf(first inputs, combined), then assemble_rtf([... combined ...], combined) once or twice more: the output
# path is one of the inputs (first = append, last = prepend, in the middle, listed twice), under the same argument
# string or another spelling / a symbolic link / a hard link.  The inputs are read before the output is opened
# (C17_reads_before_write, C17_alias_output_is_input, C17_grow_in_place), so every call is judged against the pages
# of its inputs AS THEY WERE WHEN THE CALL STARTED (the combined file: read just before the call).

COMBINED_SPELL = ["same", "same", "abs", "rel", "dot", "symlink", "hardlink"]


def gen_grow(rng, good):
    n = rng.choice([2, 3, 3, 4, 5, 6])
    order = [rng.choice(good) for _ in range(n)]
    nsteps = 2 if n < 4 or rng.random() < 0.6 else 3
    cuts = sorted(rng.sample(range(1, n), nsteps - 1))
    chunks = [order[a:b] for a, b in zip([0] + cuts, cuts + [n])]
    steps = [dict(inputs=list(chunks[0]), where=None)]
    flat = list(chunks[0])
    for ch in chunks[1:]:
        where = rng.choice(["first", "first", "last", "middle", "twice"])
        c = dict(combined=rng.choice(COMBINED_SPELL))
        if where == "first":
            ins, flat = [c] + ch, flat + ch
        elif where == "last":
            ins, flat = ch + [c], ch + flat
        elif where == "middle":
            j = rng.randint(0, len(ch))
            ins, flat = ch[:j] + [c] + ch[j:], ch[:j] + flat + ch[j:]
        else:
            ins, flat = [c] + ch + [dict(combined=rng.choice(COMBINED_SPELL))], flat + ch + flat
        steps.append(dict(inputs=ins, where=where))
    return dict(level="grow", steps=steps, flat=flat, out_form=rng.choice(["abs", "abs", "rel", "dot"]))


def _grow_worker(case):
    """the history of calls in one temp dir (cwd); before every call the inputs are read as they are then"""
    pool = case["_pool"]
    wd = tempfile.mkdtemp(prefix="rtfv_c17grow_")
    cwd = os.getcwd()
    try:
        os.chdir(wd)
        comb = os.path.join(wd, "combined.rtf")
        spell = dict(abs=comb, rel="combined.rtf", dot="./combined.rtf", symlink=os.path.join(wd, "latest.rtf"),
                     hardlink="deliverable.rtf")
        out = spell[case["out_form"]]
        steps = []
        for st in case["steps"]:
            paths, shown = [], []
            for x in st["inputs"]:
                if isinstance(x, dict):
                    sp = x["combined"]
                    p = out if sp == "same" else spell[sp]
                    if sp == "symlink" and not os.path.lexists(p):
                        os.symlink("combined.rtf", p)
                    if sp == "hardlink":
                        if os.path.lexists(p):
                            os.remove(p)
                        os.link(comb, p)
                    shown.append(p.replace(wd + os.sep, "<dir>/") + (f" [{sp} of the output's file]" if sp not in ("same", "abs", "rel", "dot") else ""))
                else:
                    p = pool[x]
                    shown.append(f"doc{x}.rtf")
                paths.append(p)
            lines = [read_lines(p) for p in paths]
            combined_before = None
            if os.path.exists(comb):
                try:
                    combined_before = doc_summary(Path(comb).read_bytes())
                except rtfread.RtfError as e:
                    combined_before = dict(unreadable=str(e))
            ob = _call(paths, out, False)
            r = dict(ob, lines=lines, combined_before=combined_before,
                     call=f"assemble_rtf([{', '.join(shown)}], {out.replace(wd + os.sep, '<dir>/')!r})")
            if ob["text"] is not None and ob["exc"] is None:
                try:
                    r["summary"] = doc_summary(Path(comb).read_bytes())
                except rtfread.RtfError as e:
                    r["unreadable"] = str(e)
            steps.append(r)
            if ob["exc"] is not None:
                break
        return dict(steps=steps)
    finally:
        os.chdir(cwd)
        shutil.rmtree(wd, ignore_errors=True)


def grow_requests(ob):
    return [dict(op="asm_lines", files=o["lines"], observed=o["text"] if o["text"] is not None else "") for o in ob["steps"]]


def judge_grow(res, case, ob, drv, sums):
    """every call of the history against its inputs as they were when it started; then the whole history"""
    nst = len(case["steps"])
    for j, (st, o, d) in enumerate(zip(case["steps"], ob["steps"], drv)):
        summaries = [o["combined_before"] if isinstance(x, dict) else sums[x] for x in st["inputs"]]
        n = len(st["inputs"])
        stepcase = dict(order=[0] * n, nested=None)
        if n == 1:
            stepcase["_single_text"] = "".join(o["lines"][0])
        call = f"call {j + 1} of {nst}, {o['call']}"
        if any(s is None or "unreadable" in s for s in summaries):
            res.disagree(case, call + ": the combined file of the previous call cannot be read back")
            return
        t = common.Result("C17", "quick", 0)
        judge_doc(t, stepcase, o, d, summaries)
        if t.failures:
            extra = ""
            if o["exc"] is not None and any(isinstance(x, dict) for x in st["inputs"]):
                extra = (" — the output path is one of the inputs; every input existed when the call started; the "
                         f"combined file exists afterwards: {o['exists']}")
            res.fail(case, call + ": " + t.failures[0][1] + extra)
            return
        if t.disagreements:
            res.disagree(case, call + ": " + t.disagreements[0][1])
            return
    final = ob["steps"][-1]["summary"]["pages"]
    exp = [pg for k in case["flat"] for pg in sums[k]["pages"]]
    if final != exp:
        res.fail(case, f"after the {nst} calls the combined file has {len(final)} pages, not the {len(exp)} pages of the "
                       f"documents {case['flat']} in the order they were put together")


def run_grow(res, tier, pool):
    ncases = 160 if tier == "quick" else 1600
    good, paths, lines, st, specs = pool["good"], pool["paths"], pool["lines"], pool["st"], pool["specs"]
    sizes = sorted(good, key=lambda k: sum(map(len, lines[k])))
    small = sizes[:max(8, (2 * len(sizes)) // 3)]           # the combined file travels to the driver: not the largest
    sums = {k: st[k]["summary"] for k in good}
    cases = [gen_grow(sub_rng(res.seed, "c17grow", i), small) for i in range(ncases)]
    ppool = {k: paths[k] for k in good}
    obs = common.pool_map(_grow_worker, [dict(c, _pool=ppool) for c in cases], chunksize=2)
    reqs, spans = [], []
    for o in obs:
        r = grow_requests(o)
        spans.append((len(reqs), len(reqs) + len(r)))
        reqs += r
    drv = driver_parallel(reqs, chunk=16)
    for c, o, (a, b) in zip(cases, obs, spans):
        full = dict(c, docs={str(k): specs[k] for k in sorted(set(c["flat"]))})
        res.case(full, ("grow", tuple(json.dumps(s["inputs"], sort_keys=True) for s in c["steps"]), c["out_form"]))
        res.count(f"grow:calls:{len(c['steps'])}")
        res.count("grow:output-spelled:" + c["out_form"])
        for s_ in c["steps"][1:]:
            res.count("grow:combined-file-listed:" + s_["where"])
            for x in s_["inputs"]:
                if isinstance(x, dict):
                    res.count("grow:combined-file-spelled:" + x["combined"])
        res.corr_checked += 1
        judge_grow(res, full, o, drv[a:b], sums)


def _eval_grow_child(args):
    case, tmp = args
    pool, sums = {}, {}
    for k, spec in case["docs"].items():
        p = os.path.join(tmp, f"doc{k}.rtf")
        st = _write_doc((spec, p))
        if st["status"] != "ok":
            return dict(error=f"cannot rebuild document {k}: {st}")
        pool[int(k)], sums[int(k)] = p, st["summary"]
    return dict(ob=_grow_worker(dict(case, _pool=pool)), sums=sums)


def eval_grow_case(res, case, tmp, verbose=False):
    r = _in_child(_eval_grow_child, (case, str(tmp)))
    if "error" in r:
        raise common.MachineryError(r["error"])
    ob, sums = r["ob"], r["sums"]
    drv = common.driver_batch(grow_requests(ob))
    if verbose:
        for o, d in zip(ob["steps"], drv):
            print(o["call"])
            print("   exception:", o["exc"], " output exists:", o["exists"],
                  " pages:", len(o["summary"]["pages"]) if "summary" in o else None,
                  " Lean: shaped", d["shaped"], "wellformed(out)", d.get("obs_wellformed"), "out==expected", d.get("obs_is_spec"))
        print("documents put together, in order:", case["flat"])
    judge_grow(res, case, ob, drv, sums)


def driver_parallel(reqs, chunk=40):
    """the driver is stateless per line: split big batches over processes"""
    if len(reqs) <= chunk:
        return common.driver_batch(reqs)
    parts = [reqs[i:i + chunk] for i in range(0, len(reqs), chunk)]
    outs = common.pool_map(common.driver_batch, parts, chunksize=1)
    return [r for p in outs for r in p]


def run_calls(res, tier, sample_texts):
    ntoy = 1500 if tier == "quick" else 20000
    ncall = 300 if tier == "quick" else 3000
    toy_small = ["{\\rtf1\\ansi\n{\\fonttbl{\\f0\\fcharset0 A;}\n}\n\\paperw1\n{\\f0 a}\\par\n}",
                 "{\\rtf1\\ansi\n\\deff0{\\fonttbl{\\f0\\fcharset0 A;}\n}{\\colortbl;\n\\red1;\n}\n{\\f0 b fcharset}\\par\n}"]
    cases = [gen_toy(sub_rng(res.seed, "c17toy", i)) for i in range(ntoy)]
    cases += [gen_call(sub_rng(res.seed, "c17call", i), toy_small + sample_texts) for i in range(ncall)]
    # the output path is one of the inputs (added to the streams above)
    cases += [gen_toy(sub_rng(res.seed, "c17toyalias", i), alias=True) for i in range(ntoy // 5)]
    cases += [gen_call(sub_rng(res.seed, "c17callalias", i), toy_small + sample_texts, alias=True) for i in range(ncall // 2)]
    obs = common.pool_map(_toy_worker, cases, chunksize=32)
    reqs = [dict(op="asm_call", paths=o["paths"], contents=o["contents"],
                 observed=(o["text"] if o["exc"] is None and o["text"] != SENTINEL else None)) for o in obs]
    drv = driver_parallel(reqs, chunk=400)
    for c, o, d in zip(cases, obs, drv):
        kind = o["exc"]["kind"] if o["exc"] else "returned"
        nt = None
        if c["level"] == "call" or len(c["texts"]) >= 2:
            nt = (c["level"], tuple(hashlib.sha1((t if t is not None else "\0").encode()).hexdigest()[:8] for t in c["texts"]),
                  c.get("preexist", False), c.get("alias"))
        res.case(dict(c), nt)
        res.count(f"{c['level']}:{kind}" + (":preexisting-output" if c.get("preexist") else "")
                  + ("" if c.get("alias") is None else
                     ":output-is-an-input" if c["texts"][c["alias"]] is not None else ":output-is-a-missing-input"))
        res.corr_checked += 1
        judge_call(res, dict(c), o, d)


def check_spaces(res):
    r = common.driver_batch([dict(op="asm_spaces")])[0]
    model = set(r["spaces"])
    py = {c for c in range(0x110000) if chr(c).isspace()}
    res.count("space_codepoints_compared", 0x110000)
    res.corr_checked += 1
    if model != py:
        res.disagree(dict(level="spaces", diff=sorted(model ^ py)[:20]),
                     f"isPySpace differs from str.isspace on {sorted(model ^ py)[:10]}")


def run(res: common.Result, build) -> int:
    tmp = tempfile.mkdtemp(prefix="rtfv_c17pool_")
    try:
        check_spaces(res)
        run_corpus(res, tmp)
        sample_texts, pool = run_docs(res, res.tier, tmp)
        run_names(res, res.tier, pool)
        run_grow(res, res.tier, pool)
        run_calls(res, res.tier, sample_texts)
        if res.failures:
            shrink_doc_failure(res, tmp)
            if res.failures[0][0].get("level") == "names" or not any(c.get("level") == "doc" for c, _ in res.failures):
                shrink_names_failure(res, pool)
    finally:
        shutil.rmtree(tmp, ignore_errors=True)
    return common.finish(
        res, build, RULE, TRUSTED, ASSUME,
        explanation="C17_lines/C17_call: for all inputs of the rtflite shape the written lines are the closed form "
                    "`expected`; C17_wellformed: one balanced group; C17_block/C17_keeps/C17_first_kept: every input "
                    "whole and in order, each later one right after \\page; C17_single/C17_empty/C17_missing/"
                    "C17_written_only_on_success: the no-write clauses; C17_closed/C17_nested: closure. The oracle "
                    "evaluates `expected` and `wellFormedDoc` (Lean) on the bytes the real assemble_rtf wrote and "
                    "reads them back with an independent RTF reader for pages and geometry.")


# ------------------------------------------------------------------ self-contained cases (corpus, shrinking, replay)

def _in_child(fn, arg):
    """rtflite/polars must never be imported in the parent (later forks would deadlock): run in a forked child"""
    import multiprocessing as mp

    with mp.get_context("fork").Pool(1) as pool:
        return pool.apply(fn, (arg,))


def _eval_doc_child(args):
    case, tmp = args
    tmp = Path(tmp)
    paths, sums = [], []
    order = case["order"]
    for i, spec in enumerate(case["docs"]):
        same = [j for j in range(i) if order[j] == order[i]]
        if same:  # a repeated input is the same file, as in the original run
            paths.append(paths[same[0]]); sums.append(sums[same[0]])
            continue
        p = str(tmp / f"in{len(os.listdir(tmp))}_{i}.rtf")
        st = _write_doc((spec, p))
        if st["status"] != "ok":
            return dict(error=f"cannot rebuild input {i}: {st}")
        paths.append(p); sums.append(st["summary"])
    ob = _asm_worker(dict(case, paths=paths))
    return dict(ob=ob, lines=[read_lines(p) for p in paths], sums=sums)


def eval_doc_case(res, case, tmp, verbose=False):
    """case carries its own document specs in case['docs']; builds the files, runs the real call, judges"""
    case = dict(case, order=case.get("order") or list(range(len(case["docs"]))))
    r = _in_child(_eval_doc_child, (case, str(tmp)))
    if "error" in r:
        raise common.MachineryError(r["error"])
    ob, lines, sums = r["ob"], r["lines"], r["sums"]
    d = common.driver_batch([dict(op="asm_lines", files=lines, observed=ob["text"] or "")])[0]
    if len(lines) == 1:
        case["_single_text"] = "".join(lines[0])
    if verbose:
        print("inputs (features):", case.get("features"))
        print("exception:", ob["exc"], " output exists:", ob["exists"])
        print("Lean: shaped", d["shaped"], "wellformed(out)", d["obs_wellformed"], "out==expected", d["obs_is_spec"],
              "out==model", d["obs_is_model"], "out==unrepaired-model", d["obs_is_old"])
        if "unreadable" in ob:
            print("reader:", ob["unreadable"])
        elif "summary" in ob:
            print("reader: pages", len(ob["summary"]["pages"]), "expected", sum(len(s["pages"]) for s in sums))
    judge_doc(res, case, ob, d, sums)


def shrink_doc_failure(res, tmp):
    """replace the first doc-level failure by a failing sub-assembly of two inputs, if there is one"""
    for idx, (case, why) in enumerate(res.failures):
        if case.get("level") == "doc":
            break
    else:
        return
    n = len(case["docs"])
    if n <= 2:
        res.failures.insert(0, res.failures.pop(idx))
        return
    cands = []
    for i in range(1, n):
        for a in {0, i - 1}:
            cands.append((a, i))
    for a, i in cands:
        sub = dict(level="doc", docs=[case["docs"][a], case["docs"][i]], features=[case["features"][a], case["features"][i]],
                   order=[0, 1] if case["order"][a] != case["order"][i] else [0, 0], preexist=False, nested=None,
                   shrunk_from=case["order"])
        t = common.Result("C17", "quick", 0)
        try:
            eval_doc_case(t, sub, tmp)
        except common.MachineryError:
            continue
        if t.failures:
            res.failures.insert(0, (t.failures[0][0], t.failures[0][1]))
            res.failures[0][0].pop("_single_text", None)
            return
    res.failures.insert(0, res.failures.pop(idx))


def _eval_names_child(args):
    """replay: write the documents of the scene with the public write_rtf, then the same worker as the run"""
    case, tmp = args
    pool, lines, sums = {}, {}, {}
    for k, spec in case["docs"].items():
        p = os.path.join(tmp, f"pool{k}.rtf")
        st = _write_doc((spec, p))
        if st["status"] != "ok":
            return dict(error=f"cannot rebuild document {k}: {st}")
        pool[int(k)], lines[int(k)], sums[int(k)] = p, read_lines(p), st["summary"]
    return dict(ob=_names_worker(dict(case, _pool=pool)), lines=lines, sums=sums)


def eval_names_case(res, case, tmp, verbose=False):
    r = _in_child(_eval_names_child, (case, str(tmp)))
    if "error" in r:
        raise common.MachineryError(r["error"])
    ob, lines, sums = r["ob"], r["lines"], r["sums"]
    drv = common.driver_batch(names_requests(case, ob, lines))
    if verbose:
        print("directory :", sorted(f["rel"] for f in case["files"]), "links", case["links"])
        print("arguments :", ob["args"], "→", ob["out_arg"])
        print("exception :", ob["exc"], " output exists:", ob["exists"], " other paths changed:", ob["changed"])
        print("model     :", drv[0]["result"], "bytes equal the model's:", drv[0]["written_is_observed"])
        if "summary" in ob:
            print("reader    : pages", len(ob["summary"]["pages"]), "expected",
                  sum(len(sums[x["doc"]]["pages"]) for x in case["inputs"] if x["doc"] is not None))
    judge_names(res, case, ob, drv, sums, lines)


def _names_eval_pool(case, pool):
    """run-time evaluation of a (shrunk) names case against the pool files still on disk"""
    ob = _in_child(_names_worker, dict(case, _pool={k: pool["paths"][k] for k in pool["good"]}))
    drv = common.driver_batch(names_requests(case, ob, pool["lines"]))
    t = common.Result("C17", "quick", 0)
    judge_names(t, case, ob, drv, {k: pool["st"][k]["summary"] for k in pool["good"]}, pool["lines"])
    return t


def shrink_names_failure(res, pool, budget=40):
    """replace the first names-level failure by a smaller failing scene: fewer inputs, plain argument forms, only the
    neighbours that matter"""
    for idx, (case, why) in enumerate(res.failures):
        if case.get("level") == "names" and "note" not in case:      # corpus scenes carry their own documents: kept as is
            break
    else:
        return
    cur = {k: v for k, v in case.items() if k != "docs"}
    if cur["out"].get("alias"):      # the label of how the alias was made does not survive shrinking; the message says what holds
        cur["out"] = dict(cur["out"], alias=dict(cur["out"]["alias"], how=None))
    cur_why = why
    used = [0]

    def fails(c):
        if used[0] >= budget:
            return None
        used[0] += 1
        try:
            t = _names_eval_pool(c, pool)
        except Exception:  # noqa: BLE001
            return None
        return t.failures[0][1] if t.failures else None

    def attempt(c):
        nonlocal cur, cur_why
        w = fails(c)
        if w:
            cur, cur_why = c, w
            return True
        return False
    # fewer inputs: singles first, then dropping one at a time
    if len(cur["inputs"]) > 1:
        for i in range(len(cur["inputs"])):
            if attempt(dict(cur, inputs=[cur["inputs"][i]])):
                break
        else:
            i = 0
            while len(cur["inputs"]) > 1 and i < len(cur["inputs"]):
                if not attempt(dict(cur, inputs=cur["inputs"][:i] + cur["inputs"][i + 1:])):
                    i += 1
    # plain forms
    attempt(dict(cur, inputs=[dict(x, form="abs", path=False) for x in cur["inputs"]],
                 out=dict(cur["out"], form="abs", path=False, preexist=False)))
    # only the neighbours that matter
    needed = {x["ref"] for x in cur["inputs"]} | {l["to"] for l in cur["links"]} | {l["to"] for l in cur.get("hardlinks", [])}
    drop = [f for f in cur["files"] if f["rel"] not in needed]
    attempt(dict(cur, files=[f for f in cur["files"] if f["rel"] in needed],
                 decoys={}))
    for f in drop:
        if f not in cur["files"]:
            break
        attempt(dict(cur, files=[g for g in cur["files"] if g is not f],
                     decoys={k: v for k, v in cur["decoys"].items() if k != f["rel"]}))
    live = {x["ref"] for x in cur["inputs"]}
    attempt(dict(cur, links=[l for l in cur["links"] if l["rel"] in live]))
    full = names_full_case(cur, pool["specs"])
    full["shrunk"] = True
    res.failures.pop(idx)
    res.failures.insert(0, (full, cur_why))


def run_corpus(res, tmp):
    d = common.CORPUS / "C17"
    if not d.exists():
        return
    import json

    for f in sorted(d.glob("*.json")):
        case = json.loads(f.read_text())
        case = case.get("case", case)
        if case.get("level") == "doc":
            res.case(case, ("corpus", f.name))
            res.count("corpus")
            res.corr_checked += 1
            eval_doc_case(res, case, tmp)
        elif case.get("level") == "names":
            res.case(case, ("corpus", f.name))
            res.count("corpus")
            res.corr_checked += 1
            eval_names_case(res, case, tmp)
        elif case.get("level") == "grow":
            res.case(case, ("corpus", f.name))
            res.count("corpus")
            res.corr_checked += 1
            eval_grow_case(res, case, tmp)


# ------------------------------------------------------------------ replay

def replay(payload) -> int:
    case = payload.get("case") or {}
    tmp = Path(tempfile.mkdtemp(prefix="rtfv_c17replay_"))
    res = common.Result("C17", "quick", 0)
    try:
        if case.get("level") == "doc":
            eval_doc_case(res, case, tmp, verbose=True)
        elif case.get("level") == "names":
            eval_names_case(res, case, tmp, verbose=True)
        elif case.get("level") == "grow":
            eval_grow_case(res, case, tmp, verbose=True)
        elif case.get("level") in ("toy", "call"):
            ob = _in_child(_toy_worker, case)
            d = common.driver_batch([dict(op="asm_call", paths=ob["paths"], contents=ob["contents"], echo=True,
                                          observed=(ob["text"] if ob["exc"] is None and ob["text"] != SENTINEL else None))])[0]
            print("texts:", case["texts"])
            print("implementation:", ob["exc"], "exists", ob["exists"], "untouched", ob["untouched"], "text", repr(ob["text"])[:300])
            print("model         :", d["result"], "written",
                  repr(None if d["written"] is None else "".join(map(chr, d["written"])))[:300])
            judge_call(res, case, ob, d)
        else:
            check_spaces(res)
    finally:
        shutil.rmtree(tmp, ignore_errors=True)
    for _, why in res.failures:
        print("FAIL:", why)
    for _, why in res.disagreements:
        print("DISAGREE:", why)
    if res.failures or res.disagreements:
        print("VIOLATION property=C17 replay=<given>")
        return 1
    print("property holds on this input")
    return 0
